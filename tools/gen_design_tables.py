#!/usr/bin/env python3
"""Regenerate the generated tables of DESIGN.md §10 (between BEGIN/END GENERATED markers): fix commits in /repo, known findings,
seeded changes and which checks catch them, claimed checks with theorem counts."""
import json, subprocess, re
from pathlib import Path
V = Path(__file__).resolve().parent.parent
def fixes():
    log = subprocess.run(["git", "-C", "/repo", "log", "--format=%h\t%s", "--reverse"], capture_output=True, text=True).stdout.splitlines()
    fixed = {}
    for p in list((V / "known_findings.d").glob("*.json")) + [V / "known_findings.json"]:
        for f in json.loads(p.read_text()).get("fixed", []):
            for c in re.split(r"[,.\s]+", f.get("commit", "")):
                if c:
                    fixed.setdefault(c[:7], set()).add(f["property"])
    rows = ["| commit | properties | subject |", "|---|---|---|"]
    for l in log:
        h, s = l.split("\t", 1)
        if s.startswith("fix:"):
            rows.append("| %s | %s | %s |" % (h, ", ".join(sorted(fixed.get(h[:7], []))) or "–", s[5:].replace("|", "\\|")))
    return "\n".join(rows)
def findings():
    rows = ["| property | key | what |", "|---|---|---|"]
    for p in sorted((V / "known_findings.d").glob("*.json")) + [V / "known_findings.json"]:
        for f in json.loads(p.read_text()).get("findings", []):
            rows.append("| %s | `%s` | %s |" % (f["property"], f["key"], f["what"][:300].replace("|", "\\|").replace("\n", " ")))
    return "\n".join(rows) if len(rows) > 2 else "(none)"
def seeded():
    res = json.loads((V / "seeded" / "results.json").read_text()) if (V / "seeded" / "results.json").exists() else {}
    rows = ["| seeded change | breaks | what it needs to manifest | caught by (tier) |", "|---|---|---|---|"]
    for d in sorted((V / "seeded").iterdir()):
        if not (d / "meta.json").exists():
            continue
        m = json.loads((d / "meta.json").read_text())
        r = res.get(d.name, {})
        cb = ", ".join(r.get("caught_by", [])) or ("NOT CAUGHT" if r else "not run")
        rows.append("| %s | %s | %s | %s (%s) |" % (d.name, m.get("property"), str(m.get("needs_to_manifest", ""))[:260].replace("|", "\\|").replace("\n", " "), cb, r.get("tier", "-")))
    return "\n".join(rows)
def checks():
    rows = ["| property | theorems (audited) | quick evaluations | wall s | technique |", "|---|---|---|---|---|"]
    for p in sorted((V / "tools" / "manifest.d").glob("C*.json")):
        e = V / "evidence" / (p.stem + ".json")
        ev = json.loads(e.read_text()) if e.exists() else {}
        cov = ev.get("coverage", {})
        rows.append("| %s | %s | %s | %s | %s |" % (p.stem, cov.get("obligations", "-"), cov.get("evaluations", "-"), ev.get("wall_s", "-"), json.loads(p.read_text()).get("technique", "")[:120]))
    return "\n".join(rows)
text = "\n\n".join(["#### Claimed checks (from the last evidence files)", checks(), "#### `fix:` commits in /repo", fixes(),
                    "#### Known findings (genuine, not repaired)", findings(), "#### Seeded changes and who catches them", seeded()])
d = V / "DESIGN.md"
s = d.read_text()
B, E = "<!-- BEGIN GENERATED -->", "<!-- END GENERATED -->"
if B not in s:
    s = s.rstrip("\n") + "\n\n### 10.4 Generated status tables (tools/gen_design_tables.py)\n\n" + B + "\n" + E + "\n"
s = s[:s.index(B) + len(B)] + "\n" + text + "\n" + s[s.index(E):]
d.write_text(s)
print("DESIGN.md tables regenerated")
