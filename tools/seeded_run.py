#!/usr/bin/env python3
"""
For each seeded/<id>/patch.diff: apply it to /repo's working tree, run the check(s) of the property it breaks
(meta.json "property"; `--all` runs every claimed check), undo it, and record who caught it in seeded/results.json.
usage: seeded_run.py [--all] [--tier quick|thorough] [seeded-id ...]
"""
import json, subprocess, sys, time
from pathlib import Path
V = Path(__file__).resolve().parent.parent
import os, shutil, tempfile
INPLACE = "--in-place" in sys.argv
if INPLACE:
    REPO = Path("/repo")
else:
    # default: a scratch worktree of /repo (so that concurrently running checks against /repo are not disturbed);
    # `--in-place` applies to /repo itself and undoes it straight afterwards.
    REPO = Path(tempfile.mkdtemp(prefix="seeded_repo_", dir="/tmp"))
    os.rmdir(REPO)
    subprocess.run(["git", "-C", "/repo", "worktree", "add", "--detach", "-q", str(REPO)], check=True)
    import atexit
    atexit.register(lambda: subprocess.run(["git", "-C", "/repo", "worktree", "remove", "--force", str(REPO)]))
os.environ["VERIF_REPO"] = str(REPO)
# evidence of runs against a seeded (broken) tree must not replace the committed evidence of the unchanged tree
_EVD = tempfile.mkdtemp(prefix="seeded_evidence_", dir="/tmp")
os.environ["VERIF_EVIDENCE_DIR"] = _EVD
import atexit as _ae
_ae.register(lambda: shutil.rmtree(_EVD, ignore_errors=True))
args = sys.argv[1:]
allc = "--all" in args
tier = "quick"
if "--tier" in args:
    tier = args[args.index("--tier") + 1]
ids = [a for a in args if not a.startswith("--") and a not in ("quick", "thorough")]
dirs = sorted(d for d in (V / "seeded").iterdir() if d.is_dir() and (d / "patch.diff").exists() and (not ids or d.name in ids))
resf = V / "seeded" / "results.json"
results = json.loads(resf.read_text()) if resf.exists() else {}
def git(*a):
    return subprocess.run(["git", "-C", str(REPO)] + list(a), capture_output=True, text=True)
assert git("status", "--porcelain", "--untracked-files=no").stdout.strip() == "", "/repo has local modifications"
claimed = sorted(p.stem for p in (V / "tools" / "manifest.d").glob("C*.json"))
for d in dirs:
    meta = json.loads((d / "meta.json").read_text())
    props = claimed if allc else [meta["property"]]
    r = git("apply", str(d / "patch.diff"))
    if r.returncode != 0:
        print(d.name, "PATCH DOES NOT APPLY:", r.stderr.strip()); results[d.name] = {"error": "patch does not apply"}; continue
    try:
        caught = {}
        for pid in props:
            if pid not in claimed:
                caught[pid] = "not-claimed"; continue
            t = time.time()
            c = subprocess.run([str(V / "tools" / "check"), pid, "--tier", tier], cwd=str(V), capture_output=True, text=True)
            vio = [l for l in c.stdout.splitlines() if l.startswith("VIOLATION")]
            caught[pid] = {"rc": c.returncode, "violations": vio[:3], "wall_s": round(time.time() - t, 1),
                           "with_input": any("no-failing-input-found" not in l for l in vio)}
        results[d.name] = {"property": meta["property"], "tier": tier, "checks": caught,
                           "caught_by": [p for p, v in caught.items() if isinstance(v, dict) and v["rc"] != 0]}
        print(d.name, "caught by", results[d.name]["caught_by"] or "NOBODY")
    finally:
        git("checkout", "--", ".")
resf.write_text(json.dumps(results, indent=1) + "\n")
