#!/bin/sh
# usage: tools/apply_fix.sh <patch> "<commit message>"
# Vet a repair in a scratch worktree of /repo (must apply, 89 tests must pass), then commit it to /repo.
set -e
P="$(readlink -f "$1")"; MSG="$2"
WT=$(mktemp -d /tmp/fixwt_XXXXXX); rmdir "$WT"
git -C /repo worktree add --detach -q "$WT"
trap 'git -C /repo worktree remove --force "$WT" >/dev/null 2>&1 || true' EXIT
git -C "$WT" apply "$P"
"$(dirname "$0")/repo_tests.sh" "$WT" | grep -E "^# (PASS|FAIL|ERROR)"
git -C /repo apply "$P"
git -C /repo add -u
git -C /repo commit -q -m "$MSG"
git -C /repo log --oneline | head -1
