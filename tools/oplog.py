"""
Output-file operation logs of the packers (C14; reusable by C13): build the LD_PRELOAD shim
(harness/shim_oplog.c), run a packer under it, parse the log, replay prefixes.

A log is a list of ops:  ("W", offset, bytes) | ("T", length) | ("X", text)   (plus the number of "O" open events).
`parse_log_ex` also returns the events of a *failing* run: failed calls (F), failed allocation (M), unlink of the output
path (U), allocation count (A).
"""
import os, subprocess
import vlib


def build_shim(ctx):
    out = ctx.scratch / "shim_oplog.so"
    if not out.exists():
        r = vlib.sh(["gcc", "-shared", "-fPIC", "-O1", "-w", str(vlib.HARNESS / "shim_oplog.c"), "-o", str(out), "-ldl"])
        if r.returncode != 0:
            raise vlib.CheckFailure("shim_oplog.c does not compile: " + r.stderr[-2000:])
    return out


def parse_log_ex(path):
    """-> dict: ops, opens, fails [(ops logged before, call index, errno, text)], allocfail (index|None), unlinked (bool),
    ops_after_unlink, allocs (count|None)"""
    out = {"ops": [], "opens": 0, "fails": [], "allocfail": None, "unlinked": False, "ops_after_unlink": 0, "allocs": None}
    ops = out["ops"]
    if not os.path.exists(path):
        return out
    with open(path) as f:
        for line in f:
            t = line.split()
            if not t:
                continue
            if t[0] == "O":
                out["opens"] += 1
                continue
            if t[0] == "F":
                out["fails"].append((len(ops), int(t[1]), int(t[2]), " ".join(t[3:])))
                continue
            if t[0] == "M":
                out["allocfail"] = int(t[1])
                continue
            if t[0] == "U":
                out["unlinked"] = True
                continue
            if t[0] == "A":
                out["allocs"] = int(t[1])
                continue
            if out["unlinked"]:
                out["ops_after_unlink"] += 1
            if t[0] == "W":
                data = b"" if t[3] == "-" else bytes.fromhex(t[3])
                if len(data) != int(t[2]):
                    raise ValueError("oplog: bad W line")
                ops.append(("W", int(t[1]), data))
            elif t[0] == "T":
                ops.append(("T", int(t[1])))
            else:
                ops.append(("X", " ".join(t[1:])))
    return out


def parse_log(path):
    x = parse_log_ex(path)
    return x["ops"], x["opens"]


def run_logged(shim, cmd, out_path, log_path, stdin=None, kill_at=None, fail_at=None, timeout=120, env=None, extra=None):
    """run `cmd` (an un-sanitized packer writing `out_path`) under the shim; returns CompletedProcess.
    `extra`: further OPLOG_* variables (OPLOG_LIMIT, OPLOG_ALLOC_FAIL, OPLOG_ALLOC_COUNT, OPLOG_KILL_AT_UNLINK)"""
    e = dict(env or os.environ)
    e.update({"LD_PRELOAD": str(shim), "OPLOG_PATH": str(out_path), "OPLOG_LOG": str(log_path)})
    if extra:
        e.update({k: str(v) for k, v in extra.items()})
    if kill_at is not None:
        e["OPLOG_KILL_AT"] = str(kill_at)
    if fail_at is not None:
        e["OPLOG_FAIL_AT"] = str(fail_at)
    if os.path.exists(log_path):
        os.unlink(log_path)
    return subprocess.run(cmd, stdin=stdin, stdout=subprocess.PIPE, stderr=subprocess.PIPE, env=e, timeout=timeout)


def apply_op(buf, op):
    """POSIX semantics of one logged call on a bytearray (in place)"""
    if op[0] == "W":
        off, d = op[1], op[2]
        if len(d) == 0:
            return
        if off > len(buf):
            buf.extend(b"\0" * (off - len(buf)))
        buf[off:off + len(d)] = d
    elif op[0] == "T":
        n = op[1]
        if n <= len(buf):
            del buf[n:]
        else:
            buf.extend(b"\0" * (n - len(buf)))
    else:
        raise ValueError("cannot replay " + repr(op[:2]))


def prefixes(ops):
    """yield (k, bytes of the file after the first k ops) for k = 0 .. len(ops)"""
    buf = bytearray()
    yield 0, bytes(buf)
    for k, op in enumerate(ops):
        apply_op(buf, op)
        yield k + 1, bytes(buf)


def driver_lines(ops, fails=()):
    """the log as input of `sqfsmodel c14`; `fails` (from parse_log_ex) puts an `F` marker where a call failed"""
    out = []
    marks = {}
    for f in fails:
        marks.setdefault(f[0], []).append("F %d %d %s" % (f[1], f[2], f[3]))
    for i, op in enumerate(ops):
        out += marks.get(i, [])
        out += _driver_lines([op])
    out += marks.get(len(ops), [])
    return out if fails else _driver_lines(ops)


def _driver_lines(ops):
    out = []
    for op in ops:
        if op[0] == "W":
            out.append("W %d %s" % (op[1], op[2].hex() if op[2] else "-"))
        elif op[0] == "T":
            out.append("T %d" % op[1])
        else:
            out.append("X " + op[1])
    return out
