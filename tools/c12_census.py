"""
C12 helper: census of the places where the working tree hands data to / takes data from the operating system through a
byte-count interface: every call (or address-taking) of read / write / pread / pwrite (and their 64-bit and vector
variants) / sendfile / copy_file_range / splice in the non-test, non-Windows C sources below $VERIF_REPO/lib and /bin,
taken from the clang AST.

    sites = census(ctx)  ->  sorted list of "file:function:callee" (":address-taken" appended when the function is not called)

The C12 model has one retry loop per site (`readAtLoop`, `writeAtLoop`, `writeAllLoop`, `precacheLoop`); the check pins the
expected list and refuses to pass (infrastructure failure) when the tree has a site the model does not know, or no
longer has one the model describes.

Two passes (as tools/checks/c18_ast.py): `clang -E` on every source and a look at the text that does *not* come from
system headers (so a call that reaches the function through a macro of a project header is still found, and the
prototypes in <unistd.h> are not); `-ast-dump=json` only on the files that mention one of the names.  A file clang cannot
process is an infrastructure failure: the census is never silently shorter.
"""
import json, re
from concurrent.futures import ThreadPoolExecutor
import vlib

TARGETS = ("read", "write", "pread", "pwrite", "pread64", "pwrite64", "readv", "writev", "preadv", "pwritev", "preadv2", "pwritev2",
           "sendfile", "sendfile64", "copy_file_range", "splice", "__read_chk", "__pread_chk", "__pread64_chk")
MENTION = re.compile(r"\b(%s)\b" % "|".join(TARGETS))
MARKER = re.compile(r'^# \d+ "([^"]*)"((?: \d)*)\s*$')
JOBS = 4


def sources():
    out = []
    for top in ("lib", "bin"):
        for p in sorted((vlib.REPO / top).rglob("*.c")):
            rel = p.relative_to(vlib.REPO).as_posix()
            if "/test/" in rel or rel in vlib.LIB_EXCLUDE:
                continue
            out.append(rel)
    if len(out) < 50:
        raise vlib.CheckFailure("C12 census: only %d C sources found below %s/lib and /bin" % (len(out), vlib.REPO))
    return out


def _flags(rel):
    return ["-w"] + vlib.include_flags() + vlib.BASE_DEFS + ["-I%s" % (vlib.REPO / rel).parent]


def _mentions(rel):
    r = vlib.sh(["clang", "-E"] + _flags(rel) + [str(vlib.REPO / rel)], timeout=300)
    if r.returncode != 0 or not r.stdout.strip():
        raise vlib.CheckFailure("C12 census: clang -E failed on %s: %s" % (rel, r.stderr[-1500:]))
    system = False
    for l in r.stdout.splitlines():
        m = MARKER.match(l)
        if m:
            system = " 3" in m.group(2) or not (m.group(1).startswith(str(vlib.REPO)) or not m.group(1).startswith("/"))
            continue
        if not system and MENTION.search(l):
            return True
    return False


def _callee(n):
    inner = n.get("inner") or []
    x = inner[0] if inner else None
    while isinstance(x, dict):
        if x.get("kind") == "DeclRefExpr":
            return (x.get("referencedDecl") or {}).get("name"), id(x)
        if x.get("kind") not in ("ImplicitCastExpr", "ParenExpr", "CStyleCastExpr"):
            return None, None
        x = (x.get("inner") or [None])[0]
    return None, None


def _sites(rel):
    r = vlib.sh(["clang", "-fsyntax-only", "-Xclang", "-ast-dump=json"] + _flags(rel) + [str(vlib.REPO / rel)], timeout=600)
    if r.returncode != 0 or not r.stdout:
        raise vlib.CheckFailure("C12 census: clang AST dump failed on %s: %s" % (rel, r.stderr[-1500:]))
    try:
        tu = json.loads(r.stdout)
    except ValueError as e:
        raise vlib.CheckFailure("C12 census: AST of %s is not JSON: %s" % (rel, e))
    found = []

    def walk(n, func, called):
        if not isinstance(n, dict):
            return
        k = n.get("kind")
        if k == "FunctionDecl" and any(isinstance(c, dict) and c.get("kind") == "CompoundStmt" for c in n.get("inner") or []):
            func = n.get("name")
        if k == "CallExpr":
            name, ref = _callee(n)
            if name in TARGETS and func is not None:
                found.append("%s:%s:%s" % (rel, func, name))
                called = called | {ref}
        if k == "DeclRefExpr" and id(n) not in called and func is not None:
            d = n.get("referencedDecl") or {}
            if d.get("kind") == "FunctionDecl" and d.get("name") in TARGETS:
                found.append("%s:%s:%s:address-taken" % (rel, func, d.get("name")))
        for c in n.get("inner") or []:
            walk(c, func, called)

    # only functions *defined* in this translation unit count (bodies from headers included: a static inline wrapper in a
    # project header would be a site of every file that includes it)
    walk(tu, None, frozenset())
    return found


def census(ctx):
    srcs = sources()
    with ThreadPoolExecutor(JOBS) as ex:
        cand = [rel for rel, m in zip(srcs, ex.map(_mentions, srcs)) if m]
    with ThreadPoolExecutor(JOBS) as ex:
        lists = list(ex.map(_sites, cand))
    sites = sorted(set(s for l in lists for s in l))
    return sites, len(srcs), cand
