#!/bin/sh
# usage: tools/integrate.sh NN   — merge branch wip-cNN into main, regenerate generated files, build, run the quick check
set -e
cd "$(dirname "$0")/.."
N="$1"
# local evidence rewrites from earlier runs must not block the merge
git checkout -- evidence 2>/dev/null || true
if ! git diff --quiet; then echo "working tree has uncommitted changes; commit first"; git status --short | head; exit 1; fi
git merge --no-commit "wip-c$N" >/dev/null 2>&1 || {
  # generated files are the only expected conflicts: take ours and regenerate
  for f in MANIFEST.json lean/Sqfs/Generated/Consts.lean evidence/*.json; do git checkout --ours -- "$f" 2>/dev/null && git add "$f" 2>/dev/null || true; done
  if git diff --name-only --diff-filter=U | grep -q .; then echo "UNRESOLVED CONFLICTS:"; git diff --name-only --diff-filter=U; exit 1; fi
}
python3 tools/gen_consts.py
python3-vt tools/mkmanifest.py
(cd lean && lake build > /tmp/integrate_build.log 2>&1) || { echo "LAKE BUILD FAILED after merging wip-c$N (merge left uncommitted):"; grep -B2 -A20 "^error" /tmp/integrate_build.log | head -60; exit 1; }
tools/check "C$N" --tier quick 2>&1 | grep -E "^(VIOLATION|KNOWN-FINDING|C$N:)" | head -30
git add -A
git commit -qm "Merge C$N from wip-c$N" || true
git merge-base --is-ancestor "wip-c$N" HEAD || { echo "ERROR: wip-c$N is not merged"; exit 1; }
git log --oneline | head -1
