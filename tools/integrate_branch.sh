#!/bin/bash
# usage: tools/integrate_branch.sh BRANCH Cxx — merge BRANCH into main (generated files: ours, then regenerated), build, run Cxx quick, commit
cd "$(dirname "$0")/.."
B=$1; P=$2
if ! git diff --quiet; then echo "working tree has uncommitted changes; commit first"; git status --short | head; exit 1; fi
git merge --no-commit "$B" 2>&1 | grep -i conflict
for f in $(git diff --name-only --diff-filter=U); do case $f in evidence/*|MANIFEST.json|lean/Sqfs/Generated/Consts.lean|seeded/results.json) git checkout --ours -- "$f"; git add "$f";; esac; done
if git diff --name-only --diff-filter=U | grep -q .; then echo "UNRESOLVED:"; git diff --name-only --diff-filter=U; exit 1; fi
python3 tools/gen_consts.py >/dev/null; python3-vt tools/mkmanifest.py | tail -1
(cd lean && lake build > /tmp/integrate_build.log 2>&1) || { echo "LAKE BUILD FAILED (merge left uncommitted)"; grep -B2 -A20 "^error" /tmp/integrate_build.log | head -60; exit 1; }
tools/check "$P" --tier quick 2>&1 | grep -E "^(VIOLATION|KNOWN|$P:)" | cut -c1-220
git add -A; git commit -qm "Merge $B ($P)"; git log --oneline | head -1
