#!/bin/bash
# usage: verify_seed.sh <pid-lower e.g. c06> [suffix, default a] ; verifies /tmp/seed_<pid>_<suffix>_out/{1,2}
P=$1; S=${2:-a}; WT=/tmp/seed_${P}_${S}
for n in 1 2; do
  O=/tmp/seed_${P}_${S}_out/$n
  [ -f $O/patch.diff ] || continue
  cd $WT && git checkout -q -- . && git apply $O/patch.diff || { echo "$P/$n: PATCH FAILED"; continue; }
  T=$(/tmp/repo_tests.sh $WT 2>&1 | grep -E "^# (PASS|FAIL|ERROR)" | tr '\n' ' ')
  timeout 900 bash $O/demo.sh $WT >/dev/null 2>&1; D1=$?
  git checkout -q -- . ; make -j8 >/dev/null 2>&1
  timeout 900 bash $O/demo.sh $WT >/dev/null 2>&1; D0=$?
  echo "$P/$n: tests[$T] demo_with_patch=$D1 demo_clean=$D0"
done
