#!/bin/bash
# usage: verify_seed.sh <pid-lower e.g. c06> ; verifies /tmp/seed_<pid>_a_out/{1,2}
P=$1; WT=/tmp/seed_${P}_a
for n in 1 2; do
  O=/tmp/seed_${P}_a_out/$n
  [ -f $O/patch.diff ] || continue
  cd $WT && git checkout -q -- . && git apply $O/patch.diff || { echo "$P/$n: PATCH FAILED"; continue; }
  T=$(/tmp/repo_tests.sh $WT 2>&1 | grep -E "^# (PASS|FAIL|ERROR)" | tr '\n' ' ')
  timeout 900 bash $O/demo.sh $WT >/dev/null 2>&1; D1=$?
  git checkout -q -- . ; make -j8 >/dev/null 2>&1
  timeout 900 bash $O/demo.sh $WT >/dev/null 2>&1; D0=$?
  echo "$P/$n: tests[$T] demo_with_patch=$D1 demo_clean=$D0"
done
