#!/usr/bin/env python3
"""usage: mark_fixed.py <Cxx> <commit> <key-prefix> — move the findings of known_findings.d/Cxx.json whose key starts with
<key-prefix> to its `fixed` list (a fixed entry suppresses nothing)."""
import json, sys
from pathlib import Path
V = Path(__file__).resolve().parent.parent
pid, commit, prefix = sys.argv[1:4]
p = V / "known_findings.d" / ("%s.json" % pid)
k = json.loads(p.read_text())
keep = []
for f in k.get("findings", []):
    if f["key"].startswith(prefix):
        k.setdefault("fixed", []).append({"property": f["property"], "commit": commit, "what": f["what"], "key": f["key"],
                                          "line": "fixed: property=%s %s %s" % (f["property"], commit, f["what"][:160])})
    else:
        keep.append(f)
k["findings"] = keep
p.write_text(json.dumps(k, indent=1) + "\n")
print("%s: %d findings left, %d fixed" % (pid, len(keep), len(k.get("fixed", []))))
