"""
Shared machinery of the /verif checks (see DESIGN.md §2 and docs/FRAMEWORK.md).

Every path is derived from this file's location so that the framework also
works from a `vp run` snapshot or a scratch git worktree of /verif.  The code
under verification is taken from $VERIF_REPO (default /repo): the *current
working tree*, compiled on the spot into a per-run scratch directory that is
removed at exit.
"""
import atexit, fcntl, hashlib, json, os, random, re, shutil, subprocess, sys, tempfile, time
from pathlib import Path

VERIF = Path(__file__).resolve().parent.parent
REPO = Path(os.environ.get("VERIF_REPO", "/repo"))
LEAN = VERIF / "lean"
HARNESS = VERIF / "harness"
# VERIF_EVIDENCE_DIR: where evidence files go (default /verif/evidence). tools/seeded_run.py points it at a scratch
# directory so that runs against a deliberately broken tree never overwrite the committed evidence of the unchanged tree.
# A run against any tree other than /repo (VERIF_REPO=<scratch worktree with a mutation>) never writes /verif/evidence either:
# without VERIF_EVIDENCE_DIR it goes to replays/evidence-nonrepo/.
EVIDENCE = Path(os.environ.get("VERIF_EVIDENCE_DIR") or
                ((VERIF / "evidence") if REPO.resolve() == Path("/repo") else (VERIF / "replays" / "evidence-nonrepo")))
REPLAYS = VERIF / "replays"
CORPUS = VERIF / "corpus"
NCPU = os.cpu_count() or 4

ALLOWED_AXIOMS = {"propext", "Classical.choice", "Quot.sound"}
FORBIDDEN = re.compile(
    r"\bsorry\b|\badmit\b|^\s*axiom\s|native_decide|bv_decide|implemented_by|\bunsafe\s|maxHeartbeats\s+0\b|ofReduceBool|@\[extern",
    re.M)

TRUSTED_BASE_COMMON = [
    "Lean 4.33.0 kernel (theorems are accepted by the kernel; no sorry/admit/axiom/native_decide/bv_decide/implemented_by — grepped on every run)",
    "axioms per theorem limited to propext, Classical.choice, Quot.sound (checked by `#print axioms` on every run)",
    "Lean compiler + leanc for the native model driver (executable semantics of the definitions = kernel semantics)",
    "the hand-written model is tied to /repo only through this run's correspondence check (harness, generator, canonicalisation and diff in /verif/tools and /verif/harness are trusted)",
]

# --------------------------------------------------------------------------
# library sources of /repo (compiled straight from the working tree)

LIB_EXCLUDE = {
    "lib/common/src/comp_lzo.c", "lib/compat/src/path_to_windows.c", "lib/compat/src/w32_perror.c",
    "lib/compat/src/w32_stdio.c", "lib/compat/src/w32_wmain.c", "lib/sqfs/src/io/dir_win32.c",
    "lib/sqfs/src/io/win32.c", "lib/util/src/mempool.c", "lib/util/src/threadpool_serial.c",
}
BASE_DEFS = ["-D_GNU_SOURCE", "-DHAVE_CONFIG_H", "-DNO_CUSTOM_ALLOC", "-DWITH_GZIP", "-DWITH_XZ", "-DWITH_LZ4",
             "-DWITH_ZSTD", "-DWITH_BZIP2", "-DHAVE_PTHREAD"]
CODEC_LIBS = ["-lz", "-llzma", "-llz4", "-lzstd", "-lbz2", "-lpthread"]
SAN = ["-fsanitize=address,undefined", "-fno-sanitize-recover=all", "-fno-omit-frame-pointer"]
GUARD = "AGENTD_SQUASHFS_TOOLS_NG_VERIF"


def repo_lib_sources(serial_pool=False, custom_alloc=False):
    """custom_alloc=True: the configuration /repo's own configure builds by default (pool allocator: mempool.c is
    compiled and NO_CUSTOM_ALLOC is not defined); the default here is the plain-malloc configuration, which lets
    the sanitizers see every allocation."""
    out = []
    for p in sorted((REPO / "lib").rglob("*.c")):
        rel = p.relative_to(REPO).as_posix()
        if "/test/" in rel:
            continue
        if rel in LIB_EXCLUDE and not (serial_pool and rel.endswith("threadpool_serial.c")) \
                and not (custom_alloc and rel.endswith("util/src/mempool.c")):
            continue
        if serial_pool and rel.endswith("util/src/threadpool.c"):
            continue
        out.append(rel)
    return out


def tool_sources(tool):
    return sorted(p.relative_to(REPO).as_posix() for p in (REPO / "bin" / tool / "src").glob("*.c"))


def include_flags():
    fl = ["-I%s" % (REPO / "include"), "-I%s" % REPO]
    if not (REPO / "config.h").exists():
        fl.append("-I%s" % (HARNESS / "fallback"))
    return fl


def sh(cmd, **kw):
    """run, capture; returns CompletedProcess (text mode unless input is bytes)"""
    kw.setdefault("stdout", subprocess.PIPE)
    kw.setdefault("stderr", subprocess.PIPE)
    if "input" in kw and isinstance(kw["input"], (bytes, bytearray)):
        pass
    else:
        kw.setdefault("text", True)
    return subprocess.run(cmd, **kw)


def sha(b):
    if isinstance(b, str):
        b = b.encode()
    return hashlib.sha256(b).hexdigest()


def strip_lean_comments(src):
    out, i, n, depth = [], 0, len(src), 0
    while i < n:
        if src.startswith("/-", i):
            depth += 1; i += 2; continue
        if depth and src.startswith("-/", i):
            depth -= 1; i += 2; continue
        if depth:
            if src[i] == "\n":
                out.append("\n")
            i += 1; continue
        if src.startswith("--", i):
            while i < n and src[i] != "\n":
                i += 1
            continue
        out.append(src[i]); i += 1
    return "".join(out)


class CheckFailure(Exception):
    pass


class Ctx:
    """One run of one property's check."""

    def __init__(self, prop, tier, seed=None):
        self.prop = prop
        self.tier = tier
        self.seed = int(os.environ.get("VERIF_SEED", "0")) if seed is None else seed
        self.rng = random.Random("%s/%d" % (prop, self.seed))
        self.t0 = time.time()
        self.scratch = Path(tempfile.mkdtemp(prefix="verif_%s_" % prop.lower(), dir=os.environ.get("VERIF_SCRATCH", "/tmp")))
        atexit.register(shutil.rmtree, str(self.scratch), True)
        self.violations = []          # dicts
        self.known_hits = []
        self.cov = {}                 # merged into evidence.coverage
        self.assumptions = []
        self.theorems = []            # audit result
        self.log_lines = []
        self._libcache = {}
        kf = VERIF / "known_findings.json"
        self.known = json.loads(kf.read_text()) if kf.exists() else {"findings": [], "fixed": []}
        for p in sorted((VERIF / "known_findings.d").glob("*.json")):
            extra = json.loads(p.read_text())
            self.known.setdefault("findings", []).extend(extra.get("findings", []))
            self.known.setdefault("fixed", []).extend(extra.get("fixed", []))

    # ---------------------------------------------------------------- misc
    def log(self, *a):
        s = " ".join(str(x) for x in a)
        self.log_lines.append(s)
        print("[%s %6.1fs] %s" % (self.prop, time.time() - self.t0, s), flush=True)

    def quick(self):
        return self.tier == "quick"

    # ---------------------------------------------------------------- Lean side
    def gen_consts(self):
        r = sh([sys.executable, str(VERIF / "tools" / "gen_consts.py")])
        if r.returncode != 0:
            raise CheckFailure("gen_consts failed:\n" + r.stdout + r.stderr)

    def lean_build(self, targets):
        """(ok, log).  Serialised across concurrent checks by a file lock."""
        (LEAN / ".lake").mkdir(exist_ok=True)
        with open(LEAN / ".lake" / "verif.lock", "w") as lk:
            fcntl.flock(lk, fcntl.LOCK_EX)
            self.gen_consts()
            r = sh(["lake", "build"] + list(targets), cwd=str(LEAN))
        return r.returncode == 0, r.stdout + r.stderr

    def grep_forbidden(self):
        hits = []
        for d in ("Sqfs", "Driver"):
            for p in sorted((LEAN / d).rglob("*.lean")):
                src = strip_lean_comments(p.read_text())
                for m in FORBIDDEN.finditer(src):
                    line = src.count("\n", 0, m.start()) + 1
                    hits.append("%s:%d: %s" % (p.relative_to(LEAN), line, m.group(0).strip()))
        return hits

    def prop_theorems(self, module_file):
        """qualified names of all `theorem`s declared in a Props file (single top-level namespace convention)"""
        src = strip_lean_comments((LEAN / module_file).read_text())
        ns = []
        names = []
        for line in src.splitlines():
            m = re.match(r"\s*namespace\s+(\S+)", line)
            if m:
                ns.append(m.group(1)); continue
            m = re.match(r"\s*end\s+(\S+)\s*$", line)
            if m and ns and ns[-1] == m.group(1):
                ns.pop(); continue
            m = re.match(r"\s*(?:private\s+|protected\s+)?theorem\s+([^\s:({\[]+)", line)
            if m:
                names.append(".".join(ns + [m.group(1)]))
        return names

    def audit(self, module, required=()):
        """Build `module` (e.g. Sqfs.Props.C18) and the driver, grep, and `#print axioms` every theorem of the
        property file.  Returns (ok, problems:list[str]).  Fills self.theorems."""
        problems = []
        ok, log = self.lean_build([module, "sqfsmodel"])
        if not ok:
            tail = "\n".join(l for l in log.splitlines() if not l.startswith("✔"))[-4000:]
            problems.append("lake build %s failed:\n%s" % (module, tail))
            return False, problems
        hits = self.grep_forbidden()
        if hits:
            problems.append("forbidden tokens in Lean sources: " + "; ".join(hits))
        mfile = module.replace(".", "/") + ".lean"
        names = self.prop_theorems(mfile)
        for r in required:
            if r not in names:
                problems.append("required theorem %s is missing from %s" % (r, mfile))
        if not names:
            problems.append("no theorems in %s" % mfile)
            return False, problems
        af = self.scratch / ("Audit_%s.lean" % self.prop)
        af.write_text("import %s\n" % module + "".join("#print axioms %s\n" % n for n in names))
        r = sh(["lake", "env", "lean", str(af)], cwd=str(LEAN))
        out = r.stdout + r.stderr
        if r.returncode != 0:
            problems.append("axiom audit failed: " + out[-2000:])
            return False, problems
        text = " ".join(out.split())
        for n in names:
            m = re.search(r"'%s' depends on axioms: \[([^\]]*)\]" % re.escape(n), text)
            if m:
                ax = [a.strip() for a in m.group(1).split(",") if a.strip()]
            elif re.search(r"'%s' does not depend on any axioms" % re.escape(n), text):
                ax = []
            else:
                problems.append("no axiom report for %s" % n)
                continue
            bad = [a for a in ax if a not in ALLOWED_AXIOMS]
            if bad:
                problems.append("theorem %s depends on disallowed axioms %s" % (n, bad))
            self.theorems.append({"theorem": n, "axioms": ax})
        return not problems, problems

    def leanchecker(self, module):
        r = sh(["lake", "env", "leanchecker", module], cwd=str(LEAN))
        return r.returncode == 0, (r.stdout + r.stderr)[-2000:]

    def driver_path(self):
        return LEAN / ".lake" / "build" / "bin" / "sqfsmodel"

    def driver(self, args, text, timeout=600):
        """run the native model driver on `text` (str), return list of output lines"""
        r = sh([str(self.driver_path())] + list(args), input=text, timeout=timeout)
        if r.returncode != 0:
            raise CheckFailure("model driver failed (%s): %s" % (args, r.stderr[-2000:]))
        return r.stdout.splitlines()

    # ---------------------------------------------------------------- C side
    def cc(self, out, sources, flags=(), sanitize=True, libs=(), cxx=False, opt="-O1"):
        """compile+link `sources` (absolute or relative to /repo or harness/) into scratch/out"""
        srcs = []
        for s in sources:
            p = Path(s)
            if not p.is_absolute():
                p = (HARNESS / s) if (HARNESS / s).exists() else (REPO / s)
            srcs.append(str(p))
        cmd = ["g++" if cxx else "gcc", opt, "-g", "-w", "-D%s" % GUARD] + (SAN if sanitize else []) + include_flags() + BASE_DEFS \
            + ["-I%s" % HARNESS] + list(flags) + srcs + ["-o", str(self.scratch / out)] + list(libs)
        r = sh(cmd)
        if r.returncode != 0:
            raise CheckFailure("harness compile failed: %s\n%s" % (" ".join(cmd), r.stderr[-4000:]))
        return self.scratch / out

    def build_lib(self, tag="san", flags=(), sanitize=True, serial_pool=False, exclude=(), opt="-O1", custom_alloc=False):
        """compile every library source of /repo's working tree into scratch/<tag>/lib.a (parallel).
        custom_alloc=True builds /repo's default configuration (pool allocator, see repo_lib_sources); use a tag of its own."""
        if tag in self._libcache:
            return self._libcache[tag]
        d = self.scratch / tag
        d.mkdir(exist_ok=True)
        srcs = [s for s in repo_lib_sources(serial_pool, custom_alloc) if s not in exclude]
        defs = [x for x in BASE_DEFS if not (custom_alloc and x == "-DNO_CUSTOM_ALLOC")]
        base = ["gcc", opt, "-g", "-w", "-c", "-D%s" % GUARD] + (SAN if sanitize else []) + include_flags() + defs + list(flags)
        if serial_pool:
            base.append("-DNO_THREAD_IMPL")
        procs, objs = [], []
        for s in srcs:
            o = d / (s.replace("/", "_")[:-2] + ".o")
            objs.append(str(o))
            procs.append((s, subprocess.Popen(base + [str(REPO / s), "-o", str(o)], stdout=subprocess.PIPE,
                                              stderr=subprocess.PIPE, text=True)))
            while sum(1 for _, p in procs if p.poll() is None) >= NCPU:
                time.sleep(0.005)
        for s, p in procs:
            _, err = p.communicate()
            if p.returncode != 0:
                raise CheckFailure("compile of /repo/%s failed:\n%s" % (s, err[-3000:]))
        lib = d / "lib.a"
        r = sh(["ar", "rcs", str(lib)] + objs)
        if r.returncode != 0:
            raise CheckFailure("ar failed: " + r.stderr)
        self._libcache[tag] = lib
        return lib

    def build_tool(self, tool, tag="san", flags=(), sanitize=True, serial_pool=False, extra_objs=(), ldflags=(), custom_alloc=False):
        """link one of the CLI tools from the working tree against build_lib(tag)"""
        lib = self.build_lib(tag, flags, sanitize, serial_pool, custom_alloc=custom_alloc)
        out = self.scratch / tag / tool
        if out.exists():
            return out
        tflags, tlibs = [], []
        if tool == "gensquashfs" and os.path.exists("/usr/include/selinux/selinux.h"):
            tflags, tlibs = ["-DWITH_SELINUX"], ["-lselinux"]          # as in /repo's own configured build
        defs = [x for x in BASE_DEFS if not (custom_alloc and x == "-DNO_CUSTOM_ALLOC")]
        cmd = ["gcc", "-O1", "-g", "-w", "-D%s" % GUARD] + (SAN if sanitize else []) + include_flags() + defs + tflags + list(flags) \
            + [str(REPO / s) for s in tool_sources(tool)] + list(extra_objs) + [str(lib)] + CODEC_LIBS + tlibs + list(ldflags) + ["-o", str(out)]
        r = sh(cmd)
        if r.returncode != 0:
            raise CheckFailure("link of %s failed:\n%s" % (tool, r.stderr[-3000:]))
        return out

    def san_env(self, extra=None):
        e = dict(os.environ)
        e["ASAN_OPTIONS"] = "detect_leaks=0:abort_on_error=0:exitcode=99:allocator_may_return_null=1"
        e["UBSAN_OPTIONS"] = "print_stacktrace=1:halt_on_error=1:exitcode=98"
        if extra:
            e.update(extra)
        return e

    # ---------------------------------------------------------------- results
    def known_finding(self, key):
        for f in self.known.get("findings", []):
            if f.get("property") == self.prop and f.get("key") == key:
                return f
        return None

    def violation(self, key, what, replay, found_input=True):
        """Report a violation of the property.  `key` identifies the specific failing input / call site /
        history; if it is listed in known_findings.json a KNOWN-FINDING line is printed instead."""
        kf = self.known_finding(key)
        if kf is not None:
            if key not in [k["key"] for k in self.known_hits]:
                self.known_hits.append({"key": key, "what": kf.get("what", what)})
                print("KNOWN-FINDING: property=%s %s" % (self.prop, kf.get("what", what)), flush=True)
            return
        REPLAYS.mkdir(exist_ok=True)
        body = {"property": self.prop, "key": key, "what": what, "seed": self.seed, "tier": self.tier,
                "found_input": found_input, "replay": replay,
                "replay_cmd": "tools/check %s --replay <this file>" % self.prop}
        name = "%s-%s.json" % (self.prop, sha(json.dumps([key, replay], sort_keys=True, default=str))[:12])
        path = REPLAYS / name
        path.write_text(json.dumps(body, indent=1, default=str))
        self.violations.append({"key": key, "what": what, "replay": str(path)})
        tail = "" if found_input else " no-failing-input-found"
        print("VIOLATION property=%s replay=%s%s" % (self.prop, path, tail), flush=True)
        print("  what: %s" % what, flush=True)

    def finish(self, level="proof", checker_cmd=None, trusted_extra=(), assumptions=()):
        cov = dict(self.cov)
        if level == "proof":
            cov.setdefault("obligations", len(self.theorems))
            cov.setdefault("discharged", len(self.theorems) if not any(v["key"].startswith("proof:") for v in self.violations) else 0)
            cov.setdefault("checker_cmd", checker_cmd or ("cd lean && lake build Sqfs.Props.%s && lake env lean <generated #print axioms file>" % self.prop))
            cov.setdefault("trusted_base", TRUSTED_BASE_COMMON + list(trusted_extra))
            cov["theorems"] = self.theorems
        cov.setdefault("samples", [])
        cov["known_findings_hit"] = self.known_hits
        ev = {"property_id": self.prop, "tier": self.tier, "seed": self.seed, "level": level, "coverage": cov,
              "assumptions": list(assumptions) + self.assumptions, "wall_s": round(time.time() - self.t0, 2),
              "violations": len(self.violations)}
        EVIDENCE.mkdir(parents=True, exist_ok=True)
        (EVIDENCE / ("%s.json" % self.prop)).write_text(json.dumps(ev, indent=1, default=str) + "\n")
        if self.violations:
            print("%s: %d violation(s)" % (self.prop, len(self.violations)))
            return 1
        print("%s: ok (%s tier, seed %d, %.1fs, %d theorem(s), %s evaluations)" % (
            self.prop, self.tier, self.seed, time.time() - self.t0, len(self.theorems), cov.get("evaluations", "-")))
        return 0


def proof_gate(ctx, module, required):
    """Common first phase: build + audit.  On failure report the broken obligation (the caller may still search
    for a failing input afterwards)."""
    ok, problems = ctx.audit(module, required)
    if ok and not ctx.quick():
        # thorough tier: independent re-check of the compiled .olean of the property file
        lok, llog = ctx.leanchecker(module)
        ctx.cov["leanchecker"] = "ok" if lok else "FAILED"
        if not lok:
            ok = False
            problems.append("leanchecker rejected %s: %s" % (module, llog))
    if not ok:
        for p in problems:
            ctx.log("PROOF PROBLEM:", p)
    return ok, problems


def diff_streams(a, b):
    """indices where two equally long lists differ (plus length mismatch as last index)"""
    bad = [i for i, (x, y) in enumerate(zip(a, b)) if x != y]
    if len(a) != len(b):
        bad.append(min(len(a), len(b)))
    return bad
