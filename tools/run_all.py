#!/usr/bin/env python3
"""Run every claimed check (tools/manifest.d/*.json) at a tier, N at a time; print a summary. usage: run_all.py [quick|thorough] [-j N] [ids...]"""
import subprocess, sys, time, json
from pathlib import Path
from concurrent.futures import ThreadPoolExecutor
V = Path(__file__).resolve().parent.parent
args = sys.argv[1:]
tier = "quick"; jobs = 3; ids = []
i = 0
while i < len(args):
    if args[i] in ("quick", "thorough"): tier = args[i]
    elif args[i] == "-j": jobs = int(args[i + 1]); i += 1
    else: ids.append(args[i].upper())
    i += 1
if not ids:
    ids = sorted(p.stem for p in (V / "tools" / "manifest.d").glob("C*.json"))
def one(pid):
    t = time.time()
    r = subprocess.run([str(V / "tools" / "check"), pid, "--tier", tier], cwd=str(V), capture_output=True, text=True)
    out = r.stdout + r.stderr
    vio = [l for l in out.splitlines() if l.startswith("VIOLATION")]
    kf = [l for l in out.splitlines() if l.startswith("KNOWN-FINDING")]
    (V / "replays").mkdir(exist_ok=True)
    (V / "replays" / ("last_%s_%s.log" % (pid, tier))).write_text(out)
    return pid, r.returncode, time.time() - t, vio, kf
bad = 0
with ThreadPoolExecutor(jobs) as ex:
    for pid, rc, dt, vio, kf in ex.map(one, ids):
        print("%s rc=%d %.0fs violations=%d known=%d" % (pid, rc, dt, len(vio), len(kf)))
        for l in vio[:3]: print("   ", l)
        bad += rc != 0
sys.exit(1 if bad else 0)
