"""
C14 — a killed packer never leaves a file that reads as a complete image.

Proof: lean/Sqfs/Props/C14.lean over lean/Sqfs/Model/Writer.lean (output file under pwrite/ftruncate, the packers'
skeleton with abstract payloads, sqfs_super_read + the entry of sqfs_id_table_read as `readerAccepts`).

Tie to the code (every run, from the working tree):
 1. gensquashfs / tar2sqfs (un-sanitized builds) run under harness/shim_oplog.c (LD_PRELOAD) on generated inputs
    with every table kind present; the logged pwrite/ftruncate sequence must satisfy the model's `shapeCheck`
    (evaluated by the native model driver) — the theorems `shape_prefix_rejected`/`shape_suffix_complete` then
    apply to the *real* log.
 2. for EVERY k the file left by a SIGKILL between the k-th and (k+1)-th output call is materialised by replaying the
    first k logged calls and handed to the real rdsquashfs (-l, -d, -c) and sqfs2tar (ASan+UBSan, timeout):
    k < k_final: every reader must fail cleanly; k ≥ k_final: same bytes as the final image up to zero padding and
    the same reader output.  The model's verdict for every prefix is compared with the real
    sqfs_super_read / sqfs_id_table_read return codes (harness/h_c14.c).
 3. a sample of k is validated with real kills (OPLOG_KILL_AT): the file on disk equals the replayed prefix.
 4. `superRead`/`idTableStage` vs the real functions on structure-aware mutations of real superblocks.
 5. FAILING RUNS (the property quantifies over every kill point of every run, not only of successful ones): for every
    input the packer is re-run under one failure each — (a) truncated / damaged tar stream at seeded positions
    (tar2sqfs), a missing input file (gensquashfs); (b) an injected write fault (ENOSPC/EIO) at EVERY output-call
    position, and "file system full at N bytes" for N at every table boundary of the reference image; (c) a failed
    allocation at seeded positions.  The log of each such run is replayed prefix by prefix exactly like that of a
    successful run: every state must be rejected by every reader, or be the complete reference image up to zero padding
    (only possible when the failure is the padding write).  The log must have the model's `failShapeCheck` shape (theorem
    `shape_failing_rejected`) with no call issued after the first failed one; `Spec.Writer.failStatusOf` is evaluated by
    the model driver on every state.  A sample is re-run with SIGKILL in place of the cleanup unlink: the file on disk
    must be the replayed log.  States whose bytes were already judged (they are prefixes of the fault-free run on the
    unchanged code) are looked up by content hash instead of being given to the readers again.
"""
import concurrent.futures, errno, hashlib, io, json, os, random, shutil, subprocess, tarfile
import vlib, oplog

LEVEL = "proof"
MODULE = "Sqfs.Props.C14"
REQUIRED = ["Sqfs.C14.shape_prefix_rejected", "Sqfs.C14.shape_suffix_complete", "Sqfs.C14.shape_crash_safe",
            "Sqfs.C14.super_region_invariant", "Sqfs.C14.provisional_fields", "Sqfs.C14.prefix_rejected", "Sqfs.C14.suffix_complete",
            "Sqfs.C14.suffix_accepted", "Sqfs.C14.crash_safe", "Sqfs.C14.final_super_last", "Sqfs.C14.run_shape",
            # witness lemmas of the in-file instances (audit C): the hypotheses hold of exLog / exRun
            "Sqfs.C14.exLog_shape", "Sqfs.C14.exRun_ok", "Sqfs.C14.exRun_valid", "Sqfs.C14.exRun_size",
            # failing runs: a run that is going to fail never commits
            "Sqfs.C14.failing_run_never_commits", "Sqfs.C14.failing_run_stops", "Sqfs.C14.fault_position_fails",
            "Sqfs.C14.fault_never_commits", "Sqfs.C14.input_error_never_commits", "Sqfs.C14.every_run_safe",
            "Sqfs.C14.shape_failing_rejected", "Sqfs.C14.failing_run_shape", "Sqfs.C14.ok_run_committed",
            "Sqfs.C14.exRun_ops_ne", "Sqfs.C14.exFailLog_shape", "Sqfs.C14.exFault_kFinal", "Sqfs.C14.exFault16",
            "Sqfs.C14.exLimit_fails", "Sqfs.C14.exDamaged_ops"]
SUPER = 96
COMPS = {
    # name -> list of -X option strings (None = defaults); the non-default ones make the compressor write its
    # options at offset 96
    "gzip": [None, "level=5", "window=12,level=3", "level=9,filtered"],
    "xz": [None, "dictsize=8K", "x86,dictsize=16K", "level=1"],
    "lzma": [None],
    "lz4": [None, "hc"],
    "zstd": [None, "level=3"],
}


# ------------------------------------------------------------------------------------------------ inputs
def data_bytes(spec):
    kind, n, seed = spec
    if kind == "zeros":
        return b"\0" * n
    r = random.Random("c14-data/%s" % seed)
    if kind == "rand":
        return r.randbytes(n)
    if kind == "text":
        words = [b"alpha ", b"beta ", b"gamma\n", b"delta ", b"squashfs ", b"0123456789 "]
        out = bytearray()
        while len(out) < n:
            out += r.choice(words)
        return bytes(out[:n])
    raise ValueError(kind)


def gen_input(rng, idx, quick, force=None):
    """one packer invocation as a JSON-able dict"""
    tool = rng.choice(["gensquashfs", "tar2sqfs"])
    comp = rng.choice(list(COMPS))
    spec = {
        "tool": tool, "comp": comp, "xopts": rng.choice(COMPS[comp]),
        "block": rng.choice([4096, 4096, 8192, 16384, 131072]), "devblk": rng.choice([1024, 4096, 4096, 8192]),
        "export": rng.random() < 0.6, "jobs": rng.choice([1, 2, 4]), "notail": rng.random() < 0.2,
        "entries": [],
    }
    spec["packdir"] = tool == "gensquashfs" and rng.random() < 0.35          # gensquashfs --pack-dir <dir> (directory scan)
    spec["noxattr"] = tool == "tar2sqfs" and rng.random() < 0.15             # tar2sqfs --no-xattr
    if force:
        spec.update(force)
    bs = spec["block"]
    ent = spec["entries"]
    nid = rng.choice([1, 2, 5, 40])
    ids = [0] + [rng.randrange(1, 2 ** 32 - 1) for _ in range(nid)]
    ndirs = rng.randint(0, 4)
    dirs = [""]
    for i in range(ndirs):
        parent = rng.choice(dirs)
        p = "%s/d%d" % (parent, i) if parent else "d%d" % i
        dirs.append(p)
        ent.append({"t": "dir", "p": p, "m": rng.choice([0o755, 0o700, 0o1777]), "u": rng.choice(ids), "g": rng.choice(ids)})
    nfiles = rng.randint(1, 6 if quick else 12)
    datas = []
    for i in range(nfiles):
        parent = rng.choice(dirs)
        p = "%s/f%d" % (parent, i) if parent else "f%d" % i
        c = rng.random()
        if datas and c < 0.3:
            d = rng.choice(datas)                                   # duplicate content -> dedup (truncate / shared fragment)
        elif c < 0.45:
            d = ["rand", rng.randint(1, bs - 1), "%d-%d" % (idx, i)]          # pure fragment
        elif c < 0.7:
            d = [rng.choice(["rand", "text"]), rng.randint(1, 3) * bs + rng.choice([0, 1, bs // 2, bs - 1]), "%d-%d" % (idx, i)]
        elif c < 0.8:
            d = ["zeros", rng.randint(1, 3) * bs + rng.choice([0, 17]), "z"]     # sparse
        elif c < 0.9:
            d = ["rand", 0, "e"]                                    # empty
        else:
            d = ["text", rng.randint(1, 5) * bs, "%d-%d" % (idx, i)]
        datas.append(d)
        e = {"t": "file", "p": p, "m": 0o644, "u": rng.choice(ids), "g": rng.choice(ids), "d": d}
        if rng.random() < 0.5:
            e["x"] = {"user.k%d" % rng.randint(0, 3): rng.choice(["v", "value-%d" % rng.randint(0, 2), "x" * 40])}
        ent.append(e)
    if spec.get("force_dup"):
        d = ["rand", 3 * bs + 5, "%d-dup" % idx]
        ent.append({"t": "file", "p": "dupa", "m": 0o644, "u": 0, "g": 0, "d": d})
        ent.append({"t": "file", "p": "dupb", "m": 0o600, "u": 0, "g": 0, "d": d})
    for i in range(rng.randint(0, 3)):
        parent = rng.choice(dirs)
        p = "%s/l%d" % (parent, i) if parent else "l%d" % i
        ent.append({"t": "slink", "p": p, "m": 0o777, "u": 0, "g": 0, "tgt": rng.choice(["f0", "../x", "/abs/target"])})
    if spec.get("many_ids"):
        for i in range(spec["many_ids"]):
            ent.append({"t": "dir", "p": "i%04d" % i, "m": 0o755, "u": 1000 + i, "g": 5})
    if spec.get("xattr_all") and not any("x" in e for e in ent):
        ent[-1 if ent[-1]["t"] != "slink" else 0]["x"] = {"user.forced": "1"}
    if spec.get("no_x"):
        for e in ent:
            e.pop("x", None)
    return spec


def packer_cmd(ctx, spec, work, tools, out):
    """materialise the input under `work`; returns (argv, stdin_path|None)"""
    work.mkdir(parents=True, exist_ok=True)
    common = ["-c", spec["comp"], "-b", str(spec["block"]), "-B", str(spec["devblk"]), "-j", str(spec["jobs"]), "-q", "-f"]
    if spec["xopts"]:
        common += ["-X", spec["xopts"]]
    if spec["export"]:
        common.append("-e")
    if spec["notail"]:
        common.append("-T")
    if spec["tool"] == "gensquashfs" and spec.get("packdir"):
        root = work / "root"
        root.mkdir(exist_ok=True)
        xl = []
        for e in spec["entries"]:
            q = root / e["p"]
            if e["t"] == "dir":
                q.mkdir(exist_ok=True)
            elif e["t"] == "file":
                q.write_bytes(data_bytes(e["d"]))
            elif e["t"] == "slink":
                if not q.is_symlink():
                    os.symlink(e["tgt"], q)
            try:
                os.chown(q, e["u"], e["g"], follow_symlinks=False)
                if e["t"] != "slink":
                    os.chmod(q, e["m"])
            except OSError:
                pass
            if e.get("x"):
                xl.append("# file: %s" % e["p"])
                for k, v in e["x"].items():
                    xl.append("%s=0x%s" % (k, v.encode().hex()))
                xl.append("")
        cmd = [str(tools["gensquashfs"]), "-D", str(root)] + common
        if xl:
            (work / "xattr.txt").write_text("\n".join(xl) + "\n")
            cmd += ["-A", str(work / "xattr.txt")]
        return cmd + [str(out)], None
    if spec["tool"] == "gensquashfs":
        dd = work / "data"
        dd.mkdir(exist_ok=True)
        lines, xl = [], []
        for i, e in enumerate(spec["entries"]):
            if e["t"] == "dir":
                lines.append("dir /%s 0%o %d %d" % (e["p"], e["m"], e["u"], e["g"]))
            elif e["t"] == "file":
                (dd / ("c%d" % i)).write_bytes(data_bytes(e["d"]))
                lines.append("file /%s 0%o %d %d c%d" % (e["p"], e["m"], e["u"], e["g"], i))
            elif e["t"] == "slink":
                lines.append("slink /%s 0777 %d %d %s" % (e["p"], e["u"], e["g"], e["tgt"]))
            if e.get("x"):
                xl.append("# file: %s" % e["p"])
                for k, v in e["x"].items():
                    xl.append("%s=0x%s" % (k, v.encode().hex()))
                xl.append("")
        (work / "pack.txt").write_text("\n".join(lines) + "\n")
        cmd = [str(tools["gensquashfs"]), "-F", str(work / "pack.txt"), "-D", str(dd)] + common
        if xl:
            (work / "xattr.txt").write_text("\n".join(xl) + "\n")
            cmd += ["-A", str(work / "xattr.txt")]
        return cmd + [str(out)], None
    tp = work / "in.tar"
    with tarfile.open(tp, "w", format=tarfile.PAX_FORMAT) as tf:
        for e in spec["entries"]:
            ti = tarfile.TarInfo(e["p"])
            ti.mode, ti.uid, ti.gid, ti.mtime = e["m"], e["u"], e["g"], 1000000
            if e.get("x"):
                ti.pax_headers = {"SCHILY.xattr." + k: v for k, v in e["x"].items()}
            if e["t"] == "dir":
                ti.type = tarfile.DIRTYPE
                tf.addfile(ti)
            elif e["t"] == "slink":
                ti.type, ti.linkname = tarfile.SYMTYPE, e["tgt"]
                tf.addfile(ti)
            else:
                b = data_bytes(e["d"])
                ti.size = len(b)
                tf.addfile(ti, io.BytesIO(b))
    return [str(tools["tar2sqfs"])] + common + (["--no-xattr"] if spec.get("noxattr") else []) + [str(out)], tp


# ------------------------------------------------------------------------------------------------ readers
def reader_cmds(tools, spec, img):
    first = next((e["p"] for e in spec["entries"] if e["t"] == "file"), None)
    cmds = [("rdsquashfs -l /", [str(tools["rdsquashfs"]), "-l", "/", str(img)]),
            ("rdsquashfs -d", [str(tools["rdsquashfs"]), "-d", str(img)]),
            ("sqfs2tar", [str(tools["sqfs2tar"]), str(img)]),
            ("sqfs2tar --no-xattr", [str(tools["sqfs2tar"]), "--no-xattr", str(img)])]
    if first:
        cmds.append(("rdsquashfs -c", [str(tools["rdsquashfs"]), "-c", first, str(img)]))
    return cmds


def run_reader(ctx, argv):
    try:
        r = subprocess.run(argv, stdout=subprocess.PIPE, stderr=subprocess.PIPE, env=ctx.san_env(), timeout=60)
        return r.returncode, vlib.sha(r.stdout), r.stderr[-300:].decode("latin1")
    except subprocess.TimeoutExpired:
        return "timeout", "", ""


def clean_failure(rc):
    return isinstance(rc, int) and 0 < rc < 90


def py_kfinal(ops):
    """number of ops up to and including the last one that can touch [0, 96) — computed without the model"""
    last = None
    for i, op in enumerate(ops):
        if (op[0] == "W" and op[1] < SUPER) or (op[0] == "T" and op[1] < SUPER) or op[0] == "X":
            last = i
    return None if last is None else last + 1


class Verdicts:
    """persistent h_c14 process"""
    def __init__(self, ctx, exe, scratch):
        self.p = subprocess.Popen([str(exe), str(scratch)], stdin=subprocess.PIPE, stdout=subprocess.PIPE, stderr=subprocess.PIPE,
                                  env=ctx.san_env(), text=True)

    def ask(self, line):
        self.p.stdin.write(line + "\n")
        self.p.stdin.flush()
        out = self.p.stdout.readline()
        if not out:
            return "crash rc=%s %s" % (self.p.poll(), self.p.stderr.read()[-400:])
        return out.strip()

    def close(self):
        try:
            self.p.stdin.close()
            self.p.wait(timeout=10)
        except Exception:
            self.p.kill()


def real_short(v):
    """h_c14 answer -> the model's short verdict alphabet"""
    t = dict(x.split("=") for x in v.split() if "=" in x)
    if "super" not in t:
        return "?" + v
    if t["super"] != "0":
        return "r%d" % -int(t["super"])
    if "compressor" in t:
        return "c%d" % -int(t["compressor"])                     # sqfs_compressor_create refused (e.g. LZO not built in)
    if "idtable" not in t:
        return "?" + v
    return "a" if t["idtable"] == "0" else "i%d" % -int(t["idtable"])


# ------------------------------------------------------------------------------------------------ one input
def check_input(ctx, idx, spec, tools, shim, hexe, kill_samples, do_failing=True, only_fault=None):
    """returns a result dict; violations are reported by the caller (main thread)"""
    res = {"idx": idx, "viol": [], "nops": 0, "kfinal": None, "reader_runs": 0, "features": {}, "kills": 0, "verdict_cmp": 0}
    work = ctx.scratch / ("in%d" % idx)
    out = work / "out.sqfs"
    log = work / "oplog.txt"
    cmd, stdin_path = packer_cmd(ctx, spec, work, tools, out)

    def pack(**kw):
        f = open(stdin_path, "rb") if stdin_path else None
        try:
            return oplog.run_logged(shim, cmd, out, log, stdin=f, **kw)
        finally:
            if f:
                f.close()

    r = pack(extra={"OPLOG_ALLOC_COUNT": 1})
    if r.returncode != 0:
        res["skip"] = "packer exit %d: %s" % (r.returncode, r.stderr[-200:].decode("latin1"))
        return res
    lg0 = oplog.parse_log_ex(log)
    ops, opens, allocs = lg0["ops"], lg0["opens"], lg0["allocs"]
    final = out.read_bytes()
    res["nops"] = len(ops)
    res["features"] = {
        "truncate": any(o[0] == "T" for o in ops), "options@96": len(ops) > 1 and ops[1][0] == "W" and ops[1][1] == SUPER and 2 < len(ops[1][2]) < 64 and
        int.from_bytes(ops[1][2][:2], "little") == (0x8000 | (len(ops[1][2]) - 2)),
        "tool": spec["tool"], "comp": spec["comp"], "export": spec["export"], "packdir": bool(spec.get("packdir")), "noxattr": bool(spec.get("noxattr")),
        "xattr": any("x" in e for e in spec["entries"]), "size": len(final)}
    rep = {"spec": spec, "cmd": cmd}
    # -- the log replays to the file the packer left
    buf = bytearray()
    try:
        for op in ops:
            oplog.apply_op(buf, op)
    except ValueError as e:
        res["viol"].append(("shape:foreign-call:%s" % spec["tool"], "output file modified by a call the protocol model does not know: %s" % e, rep, False))
        return res
    if bytes(buf) != final or opens != 1:
        res["viol"].append(("harness:replay-differs", "replaying the logged calls does not reproduce the output file (opens=%d)" % opens, rep, False))
        return res
    kf = py_kfinal(ops)
    res["kfinal"] = kf
    # -- model: shape + per-prefix verdicts
    dl = oplog.driver_lines(ops) + ["shape", "prefixes", "monitor"]
    mo = ctx.driver(["c14"], "\n".join(dl) + "\n")
    shape_line, pref_line, mon_line = mo[-3], mo[-2], mo[-1]
    mon = mon_line.split()[1] if len(mon_line.split()) > 1 else ""
    if "X" in mon or len(mon) != len(ops) + 1:
        # the specification predicate (Spec.Writer.statusOf, with the model of the readers' first stage) evaluated on
        # the implementation's log: some crash point is neither rejected nor complete
        k = mon.find("X")
        res["viol"].append(("spec-monitor:%s" % spec["tool"], "Spec.Writer.statusOf on the real log: crash point %d of %d is neither rejected nor the complete image (%s)" % (
            k, len(ops), mon), dict(rep, k=k), True))
    model_v = pref_line.split()[1:]
    shape_ok = shape_line.startswith("shape ok")
    if shape_ok:
        mk = int(shape_line.split("kfinal=")[1].split()[0])
        if mk != kf:
            shape_ok = False
    res["shape_ok"] = shape_ok
    # -- every prefix through the real readers
    hv = Verdicts(ctx, hexe, work / "h_scratch")
    pf = work / "prefix.sqfs"
    cmds = reader_cmds(tools, spec, pf)
    states = States(ctx, hv, cmds, pf, res)
    # reference outputs from the complete image
    ref = states.eval(final)[1]
    for name, (rc, h, err) in ref.items():
        if rc != 0:
            key = "complete-image-unreadable:%s" % spec["tool"]
            res["viol"].append((key, "the complete image of a successful %s run is rejected by %s (rc=%s %s)" % (spec["tool"], name, rc, err), rep, True))
    accepted_bad, suffix_bad = [], []
    ref_keys = []                        # sha256 of the file at every crash point of the fault-free run
    for k, content in oplog.prefixes(ops):
        ref_keys.append(hashlib.sha256(content).digest())
        rv, rd = states.eval(content, ref_keys[-1])
        res["verdict_cmp"] += 1
        if k < len(model_v) and model_v[k] != rv:
            res["viol"].append(("corr:verdict", "model verdict %s != real sqfs_super_read/sqfs_id_table_read verdict %s on prefix %d of %d" % (model_v[k], rv, k, len(ops)),
                                dict(rep, k=k), False))
        before = kf is None or k < kf
        if not before:
            if content != final[:len(content)] or any(final[len(content):]):
                suffix_bad.append((k, "bytes"))
        for name, argv in cmds:
            rc, h, err = rd[name]
            if before:
                if rc == 0:
                    accepted_bad.append((k, name))
                elif not clean_failure(rc):
                    res["viol"].append(("reader-crash:%s" % name, "%s on prefix %d/%d of a %s run: rc=%s %s" % (name, k, len(ops), spec["tool"], rc, err), dict(rep, k=k), True))
            else:
                if (rc, h) != ref[name][:2]:
                    suffix_bad.append((k, name))
    if accepted_bad:
        k, name = accepted_bad[0]
        res["viol"].append(("accepted-prefix:%s:%s" % (spec["tool"], name.split()[0]),
                            "after a kill at output call %d of %d (final superblock is call %s) %s accepts the file (exit 0); %d accepted (k,reader) pairs" % (
                                k, len(ops), kf, name, len(accepted_bad)), dict(rep, k=k, accepted=accepted_bad[:20]), True))
    if suffix_bad:
        k, what = suffix_bad[0]
        res["viol"].append(("incomplete-suffix:%s" % spec["tool"],
                            "after the final superblock write (call %s) the file at k=%d is not the complete image up to zero padding (%s)" % (kf, k, what),
                            dict(rep, k=k, bad=suffix_bad[:20]), True))
    if not shape_ok and not res["viol"]:
        res["viol"].append(("shape:%s" % spec["tool"], "the logged output calls of %s do not have the model's shape (%s; python k_final=%s)" % (spec["tool"], shape_line, kf),
                            dict(rep, ops=[(o[0], o[1], len(o[2]) if o[0] == "W" else None) for o in ops][:200]), False))
    # -- real kills
    for k in kill_samples(len(ops)):
        r = pack(kill_at=k)
        res["kills"] += 1
        want = next(c for kk, c in oplog.prefixes(ops) if kk == k)
        got = out.read_bytes() if out.exists() else None
        if r.returncode != -9 or got != want:
            res["viol"].append(("harness:kill-replay", "SIGKILL at output call %d: rc=%s, file on disk %s the replayed prefix" % (k, r.returncode, "==" if got == want else "!="),
                                dict(rep, k=k), False))
    # -- failing runs: every kill point of runs that are going to fail
    if do_failing:
        failing_runs(ctx, res, idx, spec, rep, cmd, stdin_path, shim, work, out, log, ops, final, kf, ref, states, allocs, only_fault,
                     ref_keys, model_v, mon)
    hv.close()
    res["state_cache"] = {"distinct": len(states.cache), "hits": states.hits}
    shutil.rmtree(work, ignore_errors=True)
    return res


class States:
    """what the real readers (and the real sqfs_super_read/sqfs_id_table_read) say about a file, per distinct content"""
    def __init__(self, ctx, hv, cmds, pf, res):
        self.ctx, self.hv, self.cmds, self.pf, self.res = ctx, hv, cmds, pf, res
        self.cache, self.hits = {}, 0

    def eval(self, content, key=None):
        key = key or hashlib.sha256(content).digest()
        if key in self.cache:
            self.hits += 1
            return self.cache[key]
        self.pf.write_bytes(content)
        rv = real_short(self.hv.ask("file %s" % self.pf))
        rd = {name: run_reader(self.ctx, argv) for name, argv in self.cmds}
        self.res["reader_runs"] += len(self.cmds)
        self.cache[key] = (rv, rd)
        return self.cache[key]


# ------------------------------------------------------------------------------------------------ failing runs
ERRNO = {"ENOSPC": errno.ENOSPC, "EIO": errno.EIO}
HAS_REF = ("fail_at", "limit", "alloc")          # the input is intact: the fault-free run's image is the complete, correct one


def table_boundaries(final):
    """sizes at which a full file system hits the run: every table boundary of the reference image"""
    f8 = lambda off: int.from_bytes(final[off:off + 8], "little")
    used, idc = f8(40), int.from_bytes(final[26:28], "little")
    vals = {SUPER, used, used - 1}
    for off in (48, 56, 64, 72, 80, 88):                  # id, xattr, inode, directory, fragment, export table start
        v = f8(off)
        if v != 2 ** 64 - 1:
            vals.add(v)
    vals.add(f8(48) + 8 * ((idc * 4 + 8191) // 8192))        # end of the id table = where the xattr blocks begin
    return sorted(v for v in vals if SUPER <= v <= used)


def tar_damage_points(rng, tar_path, ncut, ndamage):
    """seeded cut positions (inside headers, inside file data, at odd places) and header bytes to flip"""
    out = []
    size = os.path.getsize(tar_path)
    with tarfile.open(tar_path) as tf:
        mem = [(m.offset, m.offset_data, m.size if m.isreg() else 0) for m in tf.getmembers()]
    end = max([od + sz for _, od, sz in mem] + [512])
    cand = []
    for off, od, sz in mem:
        cand.append(off + rng.randint(1, 511))                     # inside a header block
        if sz > 1:
            cand.append(od + rng.randint(1, sz - 1))                 # inside file data
        if sz > 1024:
            cand.append(od + 512 * rng.randint(1, sz // 512))         # at a record boundary inside file data
    cand = sorted(set(c for c in cand if 0 < c < end))
    rng.shuffle(cand)
    out += [{"kind": "cut", "at": c} for c in sorted(cand[:ncut])]
    if len(mem) > 1 and rng.random() < 0.5:
        out.append({"kind": "cut", "at": mem[-1][0] + rng.randint(1, 511)})      # in the last header: everything before is complete
    for off, od, sz in rng.sample(mem[1:] or mem, min(ndamage, len(mem[1:] or mem))):
        out.append({"kind": "damage", "at": off + 148 + rng.randint(0, 5)})        # checksum field of a later header
    return out


def fault_variants(rng, spec, ops, final, allocs, stdin_path, quick):
    v = []
    for j in range(len(ops)):
        for e in (["ENOSPC", "EIO"] if not quick else [rng.choice(["ENOSPC", "EIO"])]):
            v.append({"kind": "fail_at", "k": j, "errno": e})
    for n in table_boundaries(final):
        v.append({"kind": "limit", "n": n})
    if allocs:
        for k in sorted(set(rng.randrange(allocs) for _ in range(3 if quick else 12))):
            v.append({"kind": "alloc", "k": k})
    if stdin_path:
        v += tar_damage_points(rng, stdin_path, 3 if quick else 8, 1 if quick else 3)
    elif not spec.get("packdir"):
        files = [i for i, e in enumerate(spec["entries"]) if e["t"] == "file"]
        if files:
            v.append({"kind": "missing", "file": "c%d" % files[-1]})
            if len(files) > 2 and not quick:
                v.append({"kind": "missing", "file": "c%d" % files[len(files) // 2]})
    return v


def run_variant(shim, cmd, stdin_path, out, log, var, work, extra=None, timeout=60):
    """one packer run under the failure `var`; returns CompletedProcess or None (timeout)"""
    ex, fail_at, sp, undo = dict(extra or {}), None, stdin_path, None
    k = var["kind"]
    if k == "fail_at":
        fail_at = "%d:%d" % (var["k"], ERRNO[var["errno"]])
    elif k == "limit":
        ex["OPLOG_LIMIT"] = var["n"]
    elif k == "alloc":
        ex["OPLOG_ALLOC_FAIL"] = var["k"]
    elif k in ("cut", "damage"):
        b = bytearray(stdin_path.read_bytes())
        if k == "cut":
            del b[var["at"]:]
        else:
            b[var["at"]] ^= 0xFF
        sp = work / "in.var.tar"
        sp.write_bytes(b)
    elif k == "missing":
        src = work / "data" / var["file"]
        os.rename(src, str(src) + ".away")
        undo = lambda: os.rename(str(src) + ".away", src)
    if out.exists():
        out.unlink()
    f = open(sp, "rb") if sp else None
    try:
        return oplog.run_logged(shim, cmd, out, log, stdin=f, fail_at=fail_at, extra=ex, timeout=timeout)
    except subprocess.TimeoutExpired:
        return None
    finally:
        if f:
            f.close()
        if undo:
            undo()


def var_name(var):
    return {"fail_at": "write-fault", "limit": "disk-full", "alloc": "alloc-fault", "cut": "truncated-input", "damage": "damaged-input",
            "missing": "missing-input"}[var["kind"]]


def prefix_at(ops, k):
    buf = bytearray()
    for op in ops[:k]:
        oplog.apply_op(buf, op)
    return bytes(buf)


def failing_runs(ctx, res, idx, spec, rep, cmd, stdin_path, shim, work, out, log, ops, final, kf, ref, states, allocs, only_fault,
                 ref_keys, ref_model_v, ref_mon):
    """run the packer under every failure variant, replay every prefix of every log (module docstring, 5.).
    On unchanged code the log of a failing run is a prefix of the fault-free log (`m == n` below): its states are states of
    the fault-free run, already materialised, hashed, read by the readers and judged by the model; only what differs is
    materialised and sent to the readers / the model again."""
    quick = ctx.quick()
    rng = random.Random("C14-fault/%d/%d" % (ctx.seed, idx))
    variants = [only_fault] if only_fault else fault_variants(rng, spec, ops, final, allocs, stdin_path, quick)
    variants.sort(key=lambda v: 0 if v["kind"] in HAS_REF else 1)
    fr = res["failing"] = {"runs": 0, "by_kind": {}, "exit0": 0, "died": 0, "timeouts": 0, "prefixes": 0, "new_states": 0, "committed": 0,
                           "ops_after_failure": 0, "unlinked": 0, "left_at_exit": 0, "kill_at_unlink": 0, "no_fault_fired": 0, "viol_variants": 0,
                           "logs_prefix_of_reference": 0}
    ref_complete = [kf is not None and k >= kf for k in range(len(ops) + 1)]     # (bytes + reader output were compared in the main loop)
    # phase 1: the runs
    runs = []
    for var in variants:
        r = run_variant(shim, cmd, stdin_path, out, log, var, work, timeout=30 if var["kind"] == "alloc" else 60)
        lg = oplog.parse_log_ex(log)
        left = out.read_bytes() if out.exists() else None
        fops = lg["ops"]
        m = 0
        while m < len(fops) and m < len(ops) and fops[m] == ops[m]:
            m += 1
        lg["n"], lg["m"] = len(fops), m
        if m == len(fops):
            lg["ops"] = None                                     # a prefix of the fault-free log: nothing to keep
            fr["logs_prefix_of_reference"] += 1
        runs.append((var, r.returncode if r is not None else "timeout", lg, left))
        fr["runs"] += 1
        fr["by_kind"][var_name(var)] = fr["by_kind"].get(var_name(var), 0) + 1
    # phase 2: the model (one driver call): failShapeCheck on every log; Spec.Writer.failStatusOf and the verdict per prefix
    # on logs that are not a prefix of the fault-free log (for those the values are the ones of the fault-free run's states)
    dl = ["reset"] + oplog.driver_lines(ops) + ["savelog", "ref %s" % final.hex()]
    ref_on, where = True, []
    for var, rc, lg, left in runs:
        w = {}
        fpos = (lg["fails"][0][0] if lg["fails"] else lg["n"]) if rc != 0 else None
        if lg["ops"] is None:
            dl.append("uselog %d" % lg["n"])
        else:
            if (var["kind"] in HAS_REF) != ref_on:
                dl.append("ref -" if ref_on else "ref %s" % final.hex())
                ref_on = not ref_on
            dl += ["newlog"] + oplog.driver_lines(lg["ops"])
        if fpos is not None:
            dl.append("failpos %d" % fpos)
        w["failshape"] = len(dl)
        dl.append("failshape")
        if lg["ops"] is not None:
            w["monitorfail"] = len(dl)
            dl.append("monitorfail")
            w["prefixes"] = len(dl)
            dl.append("prefixes")
        where.append(w)
    mo = ctx.driver(["c14"], "\n".join(dl) + "\n")
    if len(mo) != len(dl):
        res["viol"].append(("harness:driver-fail-batch", "model driver answered %d of %d lines of the failing-run batch" % (len(mo), len(dl)), rep, False))
        return
    # phase 3: every prefix of every log: the real readers (by content) and the model
    kill_cands = []
    for (var, rc, lg, left), w in zip(runs, where):
        fops, n, m = lg["ops"], lg["n"], lg["m"]
        vrep = dict(rep, fault=var, rc=rc)
        has_ref = var["kind"] in HAS_REF
        name = var_name(var)
        nviol = len(res["viol"])
        if fops is not None and any(o[0] == "X" for o in fops):
            res["viol"].append(("shape:foreign-call:%s" % spec["tool"], "failing run (%s): output file modified by a call the protocol model does not know" % name, vrep, False))
            continue
        if rc == 0:
            # the failure was not noticed or never happened (cut behind the last entry, allocation the code can do without)
            fr["exit0"] += 1
            if not lg["fails"] and lg["allocfail"] is None and has_ref:
                fr["no_fault_fired"] += 1
            if has_ref and left is not None and left != final:
                rd = states.eval(left)[1]
                if any(rd[nm][:2] != ref[nm][:2] for nm in rd):
                    res["viol"].append(("wrong-image-after-fault:%s" % spec["tool"], "%s under %s exits 0 but the image it leaves does not read like the image of the "
                                        "fault-free run" % (spec["tool"], name), vrep, True))
            continue
        if rc == "timeout":
            fr["timeouts"] += 1
        elif rc < 0:
            fr["died"] += 1
        if lg["unlinked"]:
            fr["unlinked"] += 1
        shape_line = mo[w["failshape"]]
        after = int(shape_line.split("after=")[1]) if "after=" in shape_line else -1
        fshape = shape_line.startswith("failshape ok")
        committed = has_ref and kf is not None and n >= kf and m == n                  # the failure came after the commit (padding)
        fr["committed"] += int(committed)
        fr["ops_after_failure"] += max(after, 0)
        # the states: (k, sha256, content or None, complete-by-bytes)
        sts = [(k, ref_keys[k], None, has_ref and ref_complete[k]) for k in range(min(m, n) + 1)]
        if m < n:
            buf = bytearray(prefix_at(ops, m))
            for k in range(m, n):
                oplog.apply_op(buf, fops[k])
                c = bytes(buf)
                sts.append((k + 1, hashlib.sha256(c).digest(), c, has_ref and len(c) >= SUPER and c == final[:len(c)] and not any(final[len(c):])))
            model_v = mo[w["prefixes"]].split()[1:]
            mon = mo[w["monitorfail"]].split()[1] if len(mo[w["monitorfail"]].split()) > 1 else ""
        else:
            model_v = ref_model_v[:n + 1]
            mon = "".join(("R" if ch == "R" else ("C" if ch == "C" and has_ref else "X")) for ch in ref_mon[:n + 1])
        if left is not None:
            fr["left_at_exit"] += 1
            if hashlib.sha256(left).digest() != sts[-1][1]:
                res["viol"].append(("harness:replay-differs-failing", "failing run (%s): the file left at exit is not the replayed log" % name, vrep, False))
        accepted, newst = [], 0
        for k, key, content, cbytes in sts:
            fr["prefixes"] += 1
            before = len(states.cache)
            rv, rd = states.eval(content, key)
            newst += len(states.cache) - before
            res["verdict_cmp"] += 1
            if k < len(model_v) and model_v[k] != rv:
                res["viol"].append(("corr:verdict", "model verdict %s != real verdict %s on prefix %d of %d of a failing run (%s)" % (model_v[k], rv, k, n, name),
                                    dict(vrep, k=k), False))
            complete = cbytes and all(rd[nm][:2] == ref[nm][:2] for nm in rd)
            for nm in rd:
                rcr = rd[nm][0]
                if rcr == 0 and not complete:
                    accepted.append((k, nm))
                elif rcr != 0 and not clean_failure(rcr):
                    res["viol"].append(("reader-crash:%s" % nm, "%s on prefix %d/%d of a failing %s run (%s): rc=%s %s" % (nm, k, n, spec["tool"], name, rcr, rd[nm][2]),
                                        dict(vrep, k=k), True))
        fr["new_states"] += newst
        if accepted:
            k, nm = accepted[0]
            res["viol"].append(("accepted-failing-run:%s:%s" % (spec["tool"], name),
                                "%s run that FAILS (%s, exit status %s): after a kill at output call %d of %d %s accepts the file (exit 0) although it is not the "
                                "complete image; %d accepted (k,reader) pairs; failed calls: %s" % (
                                    spec["tool"], name, rc, k, n, nm, len(accepted), [f[3] for f in lg["fails"]][:3]),
                                dict(vrep, k=k, accepted=accepted[:20]), True))
        if "X" in mon or len(mon) != n + 1:
            res["viol"].append(("spec-monitor-fail:%s" % spec["tool"], "Spec.Writer.failStatusOf on the log of a failing run (%s): crash point %d of %d is accepted by the "
                                "model of the readers and is not the complete image (%s)" % (name, mon.find("X"), n, mon), dict(vrep, k=mon.find("X")), bool(accepted)))
        if not committed and (not fshape or after != 0):
            allops = ops[:m] + (fops[m:] if fops is not None else [])
            res["viol"].append(("shape-fail:%s" % spec["tool"], "the log of a failing %s run (%s, exit status %s) does not have the model's shape of a failed run: %s "
                                "(%d calls after the first failed one; a write at offset 0 after the provisional superblock is a commit)" % (
                                    spec["tool"], name, rc, shape_line, after),
                                dict(vrep, ops=[(o[0], o[1], len(o[2]) if o[0] == "W" else None) for o in allops][:200]), bool(accepted)))
        if len(res["viol"]) > nviol:
            fr["viol_variants"] += 1
        if lg["unlinked"] and var["kind"] != "alloc":
            kill_cands.append((var, sts[-1][1], name, vrep, has_ref and sts[-1][3], n))
    # phase 4: real kills at the last kill point of a failing run (instead of the cleanup unlink)
    rng.shuffle(kill_cands)
    for var, wantkey, name, vrep, cbytes, n in kill_cands[:(2 if quick else 6)] if not only_fault else kill_cands:
        r = run_variant(shim, cmd, stdin_path, out, log, var, work, extra={"OPLOG_KILL_AT_UNLINK": 1})
        fr["kill_at_unlink"] += 1
        got = out.read_bytes() if out.exists() else None
        same = got is not None and hashlib.sha256(got).digest() == wantkey
        if r is None or r.returncode != -9 or not same:
            res["viol"].append(("harness:kill-unlink-replay", "failing run (%s) killed in place of the cleanup unlink: rc=%s, file on disk %s the replayed log" % (
                name, None if r is None else r.returncode, "==" if same else "!="), vrep, False))
        else:
            rd = states.eval(got, wantkey)[1]
            if any(rd[nm][0] == 0 for nm in rd) and not cbytes:
                res["viol"].append(("accepted-failing-run:%s:%s" % (spec["tool"], name), "%s run that fails (%s), killed just before its cleanup unlink: the file on disk is "
                                    "accepted by a reader" % (spec["tool"], name), dict(vrep, k=n), True))


# ------------------------------------------------------------------------------------------------ superblock fuzz
FIELDS = [("magic", 0, 4), ("inode_count", 4, 4), ("mtime", 8, 4), ("block_size", 12, 4), ("frag_count", 16, 4), ("comp", 20, 2),
          ("block_log", 22, 2), ("flags", 24, 2), ("id_count", 26, 2), ("vmajor", 28, 2), ("vminor", 30, 2), ("root", 32, 8),
          ("bytes_used", 40, 8), ("id_start", 48, 8), ("xattr_start", 56, 8), ("inode_start", 64, 8), ("dir_start", 72, 8),
          ("frag_start", 80, 8), ("export_start", 88, 8)]


def super_fuzz(ctx, hexe, seeds, n):
    """structure-aware mutations of real superblocks: model `head` vs real verdict.  Returns (count, mismatches, histogram)"""
    rng = ctx.rng
    cases = []
    for sb, size in seeds:
        cases.append((sb, size))
    while len(cases) < n:
        sb, size = rng.choice(seeds)
        b = bytearray(sb)
        for _ in range(rng.choice([1, 1, 1, 2, 3])):
            name, off, w = rng.choice(FIELDS)
            cur = int.from_bytes(b[off:off + w], "little")
            cand = [0, 1, cur + 1, max(cur - 1, 0), 2 ** (8 * w) - 1, size, size - 1, size + 1, max(size - 8, 0), max(size - 9, 0), SUPER, 2 ** 16, 4096, 2 ** 20, 2 ** 21,
                    12, 20, 11, 21, 6, 7, 2048, 2049, 65535, rng.randrange(2 ** (8 * w))]
            if name == "block_size":
                cand += [2 ** rng.randint(0, 31), 3 * 4096]
            if name == "block_log":
                cand += [rng.randint(10, 22)]
            b[off:off + w] = (rng.choice(cand) % 2 ** (8 * w)).to_bytes(w, "little")
        sz = rng.choice([size, size, len(b), rng.randint(0, 200), size + 8, 95, 96, 97])
        if rng.random() < 0.05:
            b = b[:rng.randint(0, 95)]
        cases.append((bytes(b), sz))
    hv = Verdicts(ctx, hexe, ctx.scratch / "fuzz_scratch")
    lines = ["head %s %d" % (b.hex() if b else "-", sz) for b, sz in cases]
    model = ctx.driver(["c14"], "\n".join(lines) + "\n")
    mism, hist = [], {}
    for (b, sz), line, m in zip(cases, lines, model):
        real = hv.ask(line)
        rs = real_short(real)
        t = dict(x.split("=") for x in m.split() if "=" in x)
        ms = ("r%d" % -int(t["super"])) if t["super"] != "0" else ("a" if t["idstage"] == "0" else "i%d" % -int(t["idstage"]))
        hist[ms] = hist.get(ms, 0) + 1
        # the model's stage ends before decompression: when it passes, the real function may still fail later
        # (and sqfs_compressor_create, which runs between the two modelled stages, is not modelled)
        ok = (ms == rs) or (ms == "a" and rs.startswith("i")) or (ms[0] in "ai" and rs.startswith("c"))
        if not ok:
            mism.append({"line": line, "model": m, "real": real})
    hv.close()
    return len(cases), mism, hist



# ------------------------------------------------------------------------------------------------ in-process scripts
def rnd_payload(rng, n):
    """bytes the stub compressor can sometimes compress (constant runs) and sometimes not"""
    c = rng.random()
    if c < 0.35:
        return bytes([rng.randrange(256)]) * n
    if c < 0.5:
        h = n // 2
        return bytes([rng.randrange(256)]) * h + rng.randbytes(n - h)
    return rng.randbytes(n)


def gen_script(rng):
    """one run of the real library writers / the model: (lines, skeleton_order)"""
    L = []
    bs = rng.choice([4096, 4096, 8192, 131072, 1048576])
    L.append("init %d %d %d" % (bs, rng.choice([0, 7, 2 ** 32 - 1, 2 ** 32 + 5, rng.randrange(2 ** 31)]), rng.randint(1, 6)))
    if rng.random() < 0.5:
        L.append("opts " + rng.randbytes(rng.choice([1, 4, 8, 20, 61])).hex())
    # data blocks: files of 1..4 blocks drawn from a small pool so that hash matches, real duplicates and
    # same-hash-different-bytes all occur (checksum is deliberately weak)
    pool = [rng.randbytes(rng.choice([1, 3, 8, 8, 16])) for _ in range(4)]
    pool += [bytes(x ^ 1 if i == 0 else x for i, x in enumerate(pool[0]))]           # same weak checksum class, other bytes
    nfiles = rng.randint(0, 7)
    for _ in range(nfiles):
        nb = rng.randint(1, 4)
        extra = rng.choice([0, 0, 0, 8, 32768])                                           # DONT_DEDUPLICATE / IS_COMPRESSED
        for j in range(nb):
            fl = extra | (2048 if j == 0 else 0) | (4096 if j == nb - 1 else 0)
            c = rng.random()
            if c < 0.1:
                d, fl = b"", fl                                                            # size 0
            elif c < 0.2:
                d, fl = b"\0" * 8, fl | 1024                                               # IS_SPARSE: not written
            else:
                d = rng.choice(pool)
            ck = (sum(d) % 2) if rng.random() < 0.7 else (sum(d) * 2654435761) % 2 ** 32
            L.append("blk %d %d %s" % (fl, ck, d.hex() if d else "-"))
    mid = []
    m = ["mnew 0 0", "mnew 1 1"]
    for _ in range(rng.randint(0, 6)):
        i = rng.choice([0, 0, 1])
        n = rng.choice([1, 2, 16, 100, 8191, 8192, 8193, 16384, 20000, rng.randint(1, 9000)])
        m.append("mapp %d %s" % (i, rnd_payload(rng, n).hex()))
        if rng.random() < 0.15:
            m.append("mflush %d" % i)
    m += ["mflush 0", "mflush 1", "mwrite 1"]
    if rng.random() < 0.2:
        m += ["mreset 0", "mapp 0 " + rnd_payload(rng, 5).hex(), "mflush 0"]
    mid.append(m)
    if rng.random() < 0.7:
        mid.append(["fragtable %d %d" % (rng.choice([0, 1, 3, 512, 513, 1100]), rng.randint(0, 1))])
    if rng.random() < 0.6:
        mid.append(["export %d %d" % (rng.choice([1, 2, 10, 1024, 1025]), rng.randrange(2 ** 48))])
    if rng.random() < 0.3:
        n = rng.choice([0, 8, 24, 8192, 8200, 16384, 20000])
        mid.append(["table " + (rnd_payload(rng, n).hex() if n else "-")])
    nid = rng.choice([1, 1, 2, 5, 300, 2048, 2049, 3000])
    ids = rng.sample(range(2 ** 32), nid)
    idt = ["idtable " + ",".join(str(x) for x in ids)]
    c = rng.random()
    if c < 0.3:
        xa = ["xattr -"]
    else:
        npairs = rng.choice([1, 2, 3, 40, 513, 600])
        xa = ["xattr " + ",".join("k%d:v%d" % (rng.randrange(3), i) for i in range(npairs))]
    skeleton = rng.random() < 0.7
    if skeleton:
        for g in mid:
            L += g
        L += idt + xa
    else:
        groups = mid + [idt, xa]
        rng.shuffle(groups)
        for g in groups:
            L += g
    L += ["final", "pad %d" % rng.choice([1, 64, 1024, 4096, 4096, 65536]), "end"]
    if rng.random() < 0.05:                                                                # error paths end a script
        L = L[:1] + ["opts " + rng.randbytes(rng.choice([62, 63, 100])).hex(), "end"]
    if rng.random() < 0.03:
        L = ["init %d 0 1" % rng.choice([0, 1, 2048, 5000, 2097152, 4097]), "end"]
        skeleton = False
    return L, skeleton


def fails_line(x):
    return "rc=-" in x or "ret=-" in x


def gen_fault_scripts(ctx, n):
    """scripts of a run subjected to a failure (`fault k`: the k-th output call fails; `limit n`: the file cannot grow
    beyond n bytes).  The library has no sticky error — the *callers* stop —, so each script ends after the first call that
    reports an error; where that is comes from a first pass through the model."""
    rng = ctx.rng
    raw = []
    for _ in range(n):
        L, skel = gen_script(rng)
        while not skel or len(L) < 6:
            L, skel = gen_script(rng)
        head = "fault %d" % rng.choice([0, 1, 2, 3, rng.randint(0, 12), rng.randint(0, 40)]) if rng.random() < 0.6 else \
            "limit %d" % rng.choice([0, 95, 96, 97, 104, rng.randint(96, 400), rng.randint(96, 20000), rng.randint(96, 200000)])
        raw.append([head] + L)
    out = ctx.driver(["c14"], "\n".join("\n".join(L) for L in raw) + "\n")
    res, pos = [], 0
    for L in raw:
        a = out[pos:pos + len(L)]
        pos += len(L)
        k = next((i for i, x in enumerate(a) if fails_line(x)), None)
        res.append((L if k is None else L[:k + 1] + ["end"], False, k is not None))
    return res


def script_corr(ctx, hscript, n):
    """the real library writers (stub compressor, link-time wrapped pwrite/ftruncate) vs the model, line by line"""
    scripts = []
    cdir = vlib.CORPUS / "C14"
    if cdir.exists():
        for p in sorted(cdir.glob("*.script")):
            scripts.append(([l for l in p.read_text().splitlines() if l.strip()], True, False))
    ncorpus = len(scripts)
    scripts += [g + (False,) for g in (gen_script(ctx.rng) for _ in range(n))]
    scripts += gen_fault_scripts(ctx, max(4, n // 3))
    n = len(scripts)
    text = "\n".join("\n".join(L) for L, _, _ in scripts) + "\n"
    r = vlib.sh([str(hscript), str(ctx.scratch / "script.out"), "script"], input=text, env=ctx.san_env(), timeout=3000)
    real = r.stdout.splitlines()
    model = ctx.driver(["c14"], text)
    stats = {"scripts": n, "corpus_scripts": ncorpus, "lines": 0, "mismatching_scripts": 0, "ops": 0, "truncates": 0, "shape_checked": 0, "errors_hit": 0,
             "fault_scripts": sum(1 for s_ in scripts if s_[0][0].startswith(("fault", "limit"))), "fault_scripts_failed": 0, "failshape_checked": 0}
    bad = []
    if r.returncode != 0:
        bad.append({"what": "harness aborted rc=%d" % r.returncode, "stderr": r.stderr[-1500:]})
    pos = 0
    shape_in, shape_idx = [], []
    fshape_in, fshape_idx = [], []
    for si, (L, skel, faulted) in enumerate(scripts):
        a, b = real[pos:pos + len(L)], model[pos:pos + len(L)]
        pos += len(L)
        stats["lines"] += len(L)
        # on the line that reports the failure only the return value is compared: what the structures hold after a failed call is
        # not observable in the protocol (every caller returns at once)
        a = [x.split()[0] if fails_line(x) else x for x in a]
        b = [x.split()[0] if fails_line(x) else x for x in b]
        if a != b or len(a) != len(L):
            stats["mismatching_scripts"] += 1
            k = next((i for i, (x, y) in enumerate(zip(a, b)) if x != y), min(len(a), len(b)))
            if len(bad) < 5:
                bad.append({"script": L[:k + 1] + ["end"], "line": L[k] if k < len(L) else None,
                            "real": a[k][:300] if k < len(a) else None, "model": b[k][:300] if k < len(b) else None})
            continue
        if any(fails_line(x) for x in a):
            stats["errors_hit"] += 1
            if faulted:
                # a failed run in skeleton order: what was issued must have the model's shape of a failed run
                stats["fault_scripts_failed"] += 1
                fops = [t.split() for t in a[-1][4:].split(" ; ") if t.strip()]
                flines = ["reset"] + [("W %s %s" % (t[1], t[2])) if t[0] == "W" else ("T %s" % t[1]) for t in fops]
                if L[-2].startswith("pad"):
                    # the failure came after the commit (only the padding failed): the log is that of a complete run without padding
                    stats["fault_scripts_failed_in_padding"] = stats.get("fault_scripts_failed_in_padding", 0) + 1
                    shape_in += flines + ["shape"]
                    shape_idx.append(si)
                else:
                    fshape_in += flines + ["failshape"]
                    fshape_idx.append(si)
            continue
        ops = [t.split() for t in a[-1][4:].split(" ; ") if t.strip()]
        stats["ops"] += len(ops)
        stats["truncates"] += sum(1 for t in ops if t[0] == "T")
        if skel:
            shape_in += ["reset"] + [("W %s %s" % (t[1], t[2])) if t[0] == "W" else ("T %s" % t[1]) for t in ops] + ["shape"]
            shape_idx.append(si)
    if shape_in:
        out = ctx.driver(["c14"], "\n".join(shape_in) + "\n")
        shapes = [x for x in out if x.startswith("shape")]
        stats["shape_checked"] = len(shapes)
        for si, sl in zip(shape_idx, shapes):
            if not sl.startswith("shape ok") and len(bad) < 5:
                bad.append({"script": scripts[si][0], "what": "log of the real library writers in skeleton order fails shapeCheck: " + sl})
    if fshape_in:
        out = ctx.driver(["c14"], "\n".join(fshape_in) + "\n")
        shapes = [x for x in out if x.startswith("failshape")]
        stats["failshape_checked"] = len(shapes)
        for si, sl in zip(fshape_idx, shapes):
            if not sl.startswith("failshape ok") and len(bad) < 5:
                bad.append({"script": scripts[si][0], "what": "log of the real library writers under an injected failure fails failShapeCheck: " + sl})
    return stats, bad


# ------------------------------------------------------------------------------------------------ run
def build_all(ctx):
    tools = {"gensquashfs": ctx.build_tool("gensquashfs", sanitize=False, tag="plain"),
             "tar2sqfs": ctx.build_tool("tar2sqfs", sanitize=False, tag="plain"),
             "rdsquashfs": ctx.build_tool("rdsquashfs"), "sqfs2tar": ctx.build_tool("sqfs2tar")}
    shim = oplog.build_shim(ctx)
    wrap = ["-Wl,--wrap=pwrite", "-Wl,--wrap=pwrite64", "-Wl,--wrap=ftruncate", "-Wl,--wrap=ftruncate64",
            "-I%s" % (vlib.REPO / "lib" / "common" / "include")]
    hexe = ctx.cc("h_c14", ["h_c14.c"], flags=wrap, libs=[str(ctx.build_lib())] + vlib.CODEC_LIBS)
    return tools, shim, hexe


def inputs_for(ctx):
    quick = ctx.quick()
    n = 14 if quick else 80
    specs = []
    cdir = vlib.CORPUS / "C14"
    if cdir.exists():
        for p in sorted(cdir.glob("*.json")):
            specs.append(json.loads(p.read_text()))
    ncorpus = len(specs)
    # fixed coverage of the table kinds, then random
    forced = [{"tool": "gensquashfs", "comp": "xz", "xopts": "dictsize=8K", "export": True, "block": 4096, "xattr_all": True, "force_dup": True, "packdir": False},
              {"tool": "tar2sqfs", "comp": "gzip", "xopts": "level=5", "export": True, "block": 4096, "xattr_all": True, "force_dup": True, "noxattr": False},
              {"tool": "gensquashfs", "comp": "zstd", "xopts": None, "export": False, "block": 8192, "many_ids": 2100 if not quick else 300, "packdir": False},
              {"tool": "gensquashfs", "comp": "gzip", "xopts": None, "export": True, "block": 4096, "xattr_all": True, "packdir": True},
              {"tool": "tar2sqfs", "comp": "lz4", "xopts": None, "export": False, "block": 8192, "no_x": True, "noxattr": False},
              {"tool": "gensquashfs", "comp": "lzma", "xopts": None, "export": True, "block": 4096, "no_x": True, "packdir": False}]
    for i in range(n):
        specs.append(gen_input(ctx.rng, i, quick, forced[i] if i < len(forced) else None))
    return specs, ncorpus


def run(ctx):
    ok, problems = vlib.proof_gate(ctx, MODULE, REQUIRED)
    if not ok:
        ctx.violation("proof:C14", "proof obligations of C14 no longer check: " + " | ".join(problems)[:1500],
                      {"broken": problems, "theorems_file": "lean/Sqfs/Props/C14.lean"}, found_input=False)
    tools, shim, hexe = build_all(ctx)
    specs, ncorpus = inputs_for(ctx)
    krng = random.Random("C14-kill/%d" % ctx.seed)

    def kill_samples(nops):
        want = 2 if ctx.quick() else 4
        ks = {0, nops - 1} if nops > 1 else {0}
        while len(ks) < min(want + 2, nops):
            ks.add(krng.randrange(nops))
        return sorted(ks)[: want + 2]

    results = []
    workers = 6 if ctx.quick() else 12
    with concurrent.futures.ThreadPoolExecutor(max_workers=workers) as ex:
        futs = [ex.submit(check_input, ctx, i, s, tools, shim, hexe, kill_samples) for i, s in enumerate(specs)]
        for f in futs:
            results.append(f.result())
    seeds_sb = []
    per_key = {}
    for r in results:
        for key, what, rep, found in r["viol"]:
            per_key[key] = per_key.get(key, 0) + 1
            if per_key[key] <= 2:                                 # same key on further inputs: counted in the evidence only
                ctx.violation(key, what, rep, found_input=found)
    # superblock fuzz seeded with real provisional/final superblocks of fresh runs
    seeds_sb = collect_superblocks(ctx, tools, shim, specs[ncorpus:ncorpus + 3])
    nf, mism, hist = super_fuzz(ctx, hexe, seeds_sb, 1500 if ctx.quick() else 20000) if seeds_sb else (0, [], {})
    for m in mism[:5]:
        ctx.violation("corr:superRead", "model superRead/idTableStage disagrees with the real functions: %s" % json.dumps(m)[:400], m, found_input=False)
    sstats, sbad = script_corr(ctx, hexe, 250 if ctx.quick() else 4000)
    for m in sbad:
        ctx.violation("corr:script", "the real library writers and the model disagree on an in-process script: %s" % json.dumps(m)[:600], m, found_input=False)
    done = [r for r in results if "skip" not in r]
    skipped = [r["skip"] for r in results if "skip" in r]
    for sk in skipped:
        ctx.log("packer refused a generated input:", sk)
    if len(done) < max(1, len(results) // 2):
        ctx.violation("harness:packer-failures", "most generated inputs were refused by the packers: %s" % skipped[:3], {"skipped": skipped[:10]}, found_input=False)
    fail_tot = {}
    for r in done:
        for k, v in r.get("failing", {}).items():
            if isinstance(v, dict):
                d = fail_tot.setdefault(k, {})
                for kk, vv in v.items():
                    d[kk] = d.get(kk, 0) + vv
            else:
                fail_tot[k] = fail_tot.get(k, 0) + v
    if done and not fail_tot.get("runs"):
        ctx.violation("harness:no-failing-runs", "no failing packer run was exercised", {}, found_input=False)
    feat = {}
    for r in done:
        for k, v in r["features"].items():
            if isinstance(v, bool):
                feat[k] = feat.get(k, 0) + int(v)
            elif k in ("tool", "comp"):
                feat["%s=%s" % (k, v)] = feat.get("%s=%s" % (k, v), 0) + 1
    ctx.cov.update({
        "evaluations": sum(r["reader_runs"] + r["verdict_cmp"] for r in done) + nf + sstats["lines"],
        "inprocess_scripts": sstats,
        "distinct_nontrivial": sum(1 for r in done if r["nops"] >= 8 and r.get("shape_ok")),
        "rule": "one evaluation = one real reader run or one model-vs-real verdict comparison on a materialised prefix, plus superblock-fuzz cases; "
                "non-trivial = packer run whose log has ≥ 8 output calls and the model's shape; inputs: %d corpus + %d generated (3 forced: xz+options+export+xattr, "
                "tar2sqfs gzip+options+export+xattr, many ids, pack-dir+xattr, two without any xattr), every prefix k = 0..n of every log; "
                "failing runs: per input one run per output-call position (ENOSPC/EIO), per table boundary (disk full), seeded tar cuts/damage or a "
                "missing input file, seeded allocation faults; every prefix of every such log, judged by content" % (ncorpus, len(specs) - ncorpus),
        "failing_runs": fail_tot,
        "state_cache": {"distinct": sum(r.get("state_cache", {}).get("distinct", 0) for r in done), "hits": sum(r.get("state_cache", {}).get("hits", 0) for r in done)},
        "exhaustive_per_input": True,
        "inputs": len(done), "inputs_skipped": len(skipped), "prefixes": sum(r["nops"] + 1 for r in done),
        "reader_runs": sum(r["reader_runs"] for r in done), "verdict_comparisons": sum(r["verdict_cmp"] for r in done),
        "real_kills": sum(r["kills"] for r in done), "ops_histogram": sorted(r["nops"] for r in done),
        "features": feat, "superblock_fuzz": {"cases": nf, "model_verdict_histogram": hist, "mismatches": len(mism)},
        "samples": [{"tool": r["features"].get("tool"), "nops": r["nops"], "kfinal": r["kfinal"], "size": r["features"].get("size")} for r in done[:4]],
        "disagreements_checked": sum(len(r["viol"]) for r in results) + len(mism) + len(sbad), "violations_per_key": per_key,
    })
    return ctx.finish(LEVEL, trusted_extra=[
        "harness/shim_oplog.c logs every pwrite/ftruncate on the output file; POSIX semantics of those two calls as in Sqfs.Writer.filePwrite/fileTrunc and tools/oplog.py",
        "a crash point is 'between two output-file system calls'; a torn single pwrite is outside the property's definition",
        "failing runs: harness/shim_oplog.c makes one pwrite/ftruncate (or every growing one beyond N bytes, or one malloc/calloc/realloc after the open) fail "
        "and logs it; the readers are deterministic, so a file state is given to them once per distinct content (sha256) and input",
        "modelled, not verified directly: the C text of the anchored files; the payloads (data blocks, metadata, tables) are abstract in the model"],
        assumptions=["the page cache / file system makes completed pwrite/ftruncate calls visible in order (no reordering on power loss is claimed)"])


def collect_superblocks(ctx, tools, shim, specs):
    out = []
    for i, spec in enumerate(specs):
        work = ctx.scratch / ("sb%d" % i)
        o = work / "out.sqfs"
        cmd, sp = packer_cmd(ctx, spec, work, tools, o)
        f = open(sp, "rb") if sp else None
        r = oplog.run_logged(shim, cmd, o, work / "log.txt", stdin=f)
        if f:
            f.close()
        if r.returncode == 0:
            ops, _ = oplog.parse_log(work / "log.txt")
            size = os.path.getsize(o)
            for op in ops:
                if op[0] == "W" and op[1] == 0 and len(op[2]) == SUPER:
                    out.append((op[2], size))
        shutil.rmtree(work, ignore_errors=True)
    return out


def replay(ctx, path):
    body = json.loads(open(path).read())
    rp = body.get("replay", {})
    if "spec" not in rp:
        print("replay file names a broken obligation / correspondence, no packer input to replay:", json.dumps(rp)[:600])
        return 1
    ctx.lean_build(["sqfsmodel"])
    tools, shim, hexe = build_all(ctx)
    if rp.get("fault"):
        print("failing run:", json.dumps(rp["fault"]))
    res = check_input(ctx, 0, rp["spec"], tools, shim, hexe, lambda n: [], do_failing=bool(rp.get("fault")), only_fault=rp.get("fault"))
    print("nops=%s kfinal=%s shape_ok=%s failing=%s" % (res["nops"], res["kfinal"], res.get("shape_ok"), json.dumps(res.get("failing"))))
    for key, what, _, found in res["viol"]:
        print("reproduced:", key, "-", what)
    return 1 if res["viol"] else 0
