"""
C02 — determinism: the image does not depend on the number of worker threads, the backlog, the schedule or the
process environment, and equals the serial (NO_THREAD_IMPL) build's image.

Proof: lean/Sqfs/Props/C02.lean over lean/Sqfs/Model/BlockProc.lean (main-thread state machine of the block
processor over an abstract pool) composed with lean/Sqfs/Props/C09.lean (threaded pool refines the serial pool).

Tie (every run):
 1. unit level — harness/h_c02.c: the real frontend.c/backend.c/block_processor.c + block_writer.c + frag_table.c on
    the real threadpool.c under the controlled cooperative scheduler (harness/sched.c), 10 scheduling policies
    (random, client first, workers first, slow / starved worker, LIFO, round robin, spurious wake-ups, data blocks
    held back so that fragment blocks finish first, completion reports held back) x workers x max_backlog x
    generated workloads; the logged write_data_block calls, the fragment table, the inodes and the output file are
    compared (a) with `sqfsmodel c02 run` on the same workload and backlog, (b) with the same program linked against
    threadpool_serial.c, (c) among all configurations.
 1b. API scripts (files, sqfs_block_processor_submit_block, sync between files) and a compressor that FAILS on marked blocks
    (codec `toyf` of harness/h_c02.c) against `sqfsmodel c02 runx` (Sqfs/Model/BlockProcFail.lean): the serial-pool build must
    equal the model of the current code (sync() ends with get_status, /repo 69db961; runx variant 1); a build that equals the
    model of the sync() before 69db961 (variant 0) is reported as such; when some block's work fails every backlog / worker
    count / schedule must end in an error (determinism of failure).
 1c. compressor level — harness/h_c02_comp.c: every compiled-in compressor x a seeded sample of its option space: the
    configured compressor is sqfs_copy'd into k worker copies as sqfs_block_processor_create_ex does, seeded block sequences are
    fed to the copies under seeded assignments; every result must equal a fresh compressor's result for that block alone
    (history independence of do_block, the purity hypothesis of the theorems), copies must behave like the original, and what
    was compressed must uncompress to the block (CodecOk).  Monitor: `sqfsmodel c02 hi` (obsIndependent).
 2. tool level — gensquashfs (pack file, --pack-dir) and tar2sqfs from the working tree at many -j / -Q / environments
    (TZ, LC_ALL, umask, cwd, CPU affinity, faked clock, scheduling perturbation shim), ASan and TSan builds, against
    the serial-pool build of the same tool: sha256 of the image must be the same.
"""
import hashlib, json, os, re, shutil, subprocess, time
from pathlib import Path
import vlib
from checks.c09 import run_parallel, jobs

LEVEL = "proof"
MODULE = "Sqfs.Props.C02"
EXTRA_THEOREMS = ("stateful_pool_is_pure", "schedule_independent_stateful", "stateful_worker_schedule_dependent",
                  "script_schedule_independent", "failure_deterministic_partial", "failure_backlog_independent", "healthy_run_status_zero",
                  "failed_item_back_status_nonzero",
                  "run_eq_specPack", "threaded_eq_specPack", "threaded_readback", "threaded_directives", "tree_order_bytewise")
REQUIRED = ["Sqfs.C02." + t for t in (
    "run_eq_spec", "backlog_independent", "run_ok", "dequeue_never_internal_error", "finish_writes_everything",
    "realised_eq_serial", "schedule_independent", "jobs_independent", "times_depend_only_on_source_date_epoch",
    "source_date_epoch_default", "run_eq_specPack_partial", "run_sync_eq_spec", "exCodec_ok", "exP_side",
    "pool_last_answer_is_serial", "realised_unique") + EXTRA_THEOREMS]

NPOLICY = 10
FL = {"dc": 1, "dh": 2, "df": 4, "dd": 8, "is": 16}


# --------------------------------------------------------------------------------------------------- workloads
def hx(b):
    return b.hex() if b else "-"


def gen_bytes(rng, n, kind, B):
    if kind == "z":
        return bytes(n)
    if kind == "c":                       # long runs: the toy codec compresses them
        out = bytearray()
        while len(out) < n:
            out += bytes([rng.choice(b"ABC\x00")]) * rng.randint(3, max(3, B))
        return bytes(out[:n])
    if kind == "t":                       # text over a tiny alphabet: equal blocks and equal tails by chance
        return bytes(rng.choice(b"ab") for _ in range(n))
    return bytes(rng.randrange(1, 256) for _ in range(n))


def gen_workload(rng, quick, big=False):
    """-> dict(B, bc, hbits, codec, pre, chunk, files=[(flags, bytes)])"""
    B = rng.choice([4, 4, 8, 8, 16, 16, 32, 64] if not big else [64, 128, 256])
    nfiles = rng.choice([1, 2, 3, 4, 5, 6, 8, 12]) if not big else rng.randint(10, 40)
    files = []
    for _ in range(nfiles):
        r = rng.random()
        flags = 0
        if rng.random() < 0.35:
            for k, v in FL.items():
                if rng.random() < (0.08 if k == "dh" else 0.3):
                    flags |= v
        if files and r < 0.15:            # exact duplicate of an earlier file (whole-file dedup, fragment dedup)
            _, d = rng.choice(files)
            files.append((flags, d))
            continue
        k = rng.choice([0, 0, 1, 1, 2, 3, 5] if not big else [0, 1, 2, 4, 9])
        size = max(0, k * B + rng.choice([-1, 0, 0, 1, 1, rng.randint(1, B - 1), rng.randint(1, B - 1)]))
        if rng.random() < 0.04:
            size = 0
        kind = rng.choice("rrrtcczz" if not big else "rrcct")
        d = gen_bytes(rng, size, kind, B)
        if files and r < 0.30 and size > 0:      # shared tail / shared head with an earlier file
            _, o = rng.choice(files)
            if len(o) > 0:
                t = len(o) % B or min(B, len(o))
                if rng.random() < 0.5:
                    d = d[:len(d) - len(d) % B] + o[len(o) - t:][:B - 1 if len(d) % B == 0 and t == B else t]
                else:
                    d = o[:len(o) - len(o) % B] + d[len(d) - len(d) % B:]
        elif r < 0.40 and size > B:              # zero tail / zero block inside
            z = bytearray(d)
            if rng.random() < 0.5:
                z[len(z) - len(z) % B:] = bytes(len(z) % B)
            else:
                j = rng.randrange(0, len(z) // B) * B
                z[j:j + B] = bytes(B)
            d = bytes(z)
        files.append((flags, d))
    return {"B": B, "bc": 0 if rng.random() < 0.1 else 1, "hbits": rng.choice([32, 32, 32, 8, 2, 0]),
            "codec": "none" if rng.random() < 0.15 else "toy",
            "pre": bytes(rng.randrange(256) for _ in range(rng.choice([0, 0, 1, 5, 96]))),
            "chunk": rng.choice([0, 0, 1, 3, B, B + 1, 2 * B - 1, 1000]), "files": files}


def wl_text(w):
    """the part of a line that harness and model share"""
    return "%d %d %d %s %s" % (w["B"], w["bc"], w["hbits"], w["codec"], hx(w["pre"]))


def files_text(w):
    return "%d %s" % (len(w["files"]), " ".join("%d %s" % (f, hx(d)) for f, d in w["files"])) if w["files"] else "0"


def bp_line(w, workers, mb, policy, seed, sync=False):
    return ("%s %d %d %d %d %s %d %s" % ("bps" if sync else "bp", workers, mb, policy, seed, wl_text(w), w["chunk"], files_text(w))).strip()


def model_line(w, mb, op="run"):
    return ("%s %d %d %d %d %s %s %s" % (op, w["B"], mb, w["bc"], w["hbits"], w["codec"], hx(w["pre"]), files_text(w))).strip()


def split_result(line):
    """'<canonical> # k=v ...' -> (canonical, dict)"""
    if " # " not in line:
        return line, {}
    a, b = line.split(" # ", 1)
    return a, dict(kv.split("=", 1) for kv in b.split())


def features(w, canon):
    f = set()
    if not canon.startswith("ok "):
        return f
    m = re.search(r" F=(\d+)", canon)
    nf = int(m.group(1)) if m else 0
    if nf >= 2:
        f.add("fragment-block-overflow")
    inos = canon.split(" I=", 1)[1].split(" Z=")[0].split()[1:]
    locs = [tuple(i.split(":")[2:4]) for i in inos if i.split(":")[2] != "4294967295"]
    if len(set(locs)) < len(locs):
        f.add("fragment-dedup-hit")
    if any(i.split(":")[4] != "0" for i in inos):
        f.add("sparse")
    starts = [i.split(":")[1] for i in inos if i.split(":")[6] != "-" and i.split(":")[1] != "0"]
    if len(set(starts)) < len(starts):
        f.add("file-dedup-hit")
    if any(len(d) > 2 * w["B"] for _, d in w["files"]):
        f.add("multi-block-file")
    if any(fl for fl, _ in w["files"]):
        f.add("user-flags")
    if ":8" in canon.split(" F=")[0] and re.search(r":[0-9a-f]*8[0-9a-f]{3}:", canon.split(" F=")[0]):
        f.add("compressed-block")
    return f


# --------------------------------------------------------------------------------------------------- builds
def build_unit(ctx):
    inc = ["-include", str(vlib.HARNESS / "shim_sched.h")]
    ex = ("lib/util/src/xxhash.c",)
    wrap = ["-Wl,--wrap=thread_pool_create"]
    lib = ctx.build_lib("c02shim", flags=inc, exclude=ex)
    h = ctx.cc("h_c02", ["h_c02.c", "sched.c", "weak_xxh.c"], flags=inc, libs=[str(lib)] + wrap + vlib.CODEC_LIBS)
    libs = ctx.build_lib("c02serial", serial_pool=True, exclude=ex)
    hs = ctx.cc("h_c02s", ["h_c02.c", "sched.c", "weak_xxh.c"], libs=[str(libs)] + wrap + vlib.CODEC_LIBS)
    return h, hs


def model_run(ctx, lines):
    out, problems = run_parallel(ctx, [str(ctx.driver_path()), "c02"], lines, 1200, pin=False)
    if problems:
        raise vlib.CheckFailure("model driver failed: %s" % problems[0])
    return out


# --------------------------------------------------------------------------------------------------- unit level
def unit_level(ctx, stats):
    h, hs = build_unit(ctx)
    rng = ctx.rng
    quick = ctx.quick()
    nwl = 300 if quick else 1500
    wls = [gen_workload(rng, quick) for _ in range(nwl)] + [gen_workload(rng, quick, big=True) for _ in range(6 if quick else 40)]
    corpus = sorted(p for p in (vlib.CORPUS / "C02").glob("*.json") if not p.name.startswith("script_")) if (vlib.CORPUS / "C02").exists() else []
    for p in corpus:
        try:
            c = json.loads(p.read_text())
            wls.insert(0, {"B": c["B"], "bc": c["bc"], "hbits": c["hbits"], "codec": c["codec"], "pre": bytes.fromhex(c["pre"]),
                           "chunk": c["chunk"], "files": [(f, bytes.fromhex(d)) for f, d in c["files"]]})
        except Exception as e:
            ctx.log("corpus entry %s unreadable: %s" % (p, e))
    per = 20 if quick else 40
    maxw = 8 if quick else 63                 # harness/sched.c has room for 64 threads including the client
    lines, meta = [], []
    for wi, w in enumerate(wls):
        for k in range(per):
            policy = k % NPOLICY if k < 2 * NPOLICY else rng.randrange(NPOLICY)
            workers = rng.choice([1, 2, 2, 3, 4, 5, 8, maxw]) if k else 1
            if policy in (3, 4) and workers < 2:
                workers = 2
            mb = rng.choice([0, 1, 3, 3, 4, 5, 6, 8, 10, 16, 40])
            lines.append(bp_line(w, workers, mb, policy, rng.randrange(1 << 30), sync=(rng.random() < 0.25)))
            meta.append((wi, workers, mb, policy))
    mbs_ref = [0, 3, 5, 40]
    ref_lines = [bp_line(w, 1, mb, 0, 0) for w in wls for mb in mbs_ref]
    mod_lines = [model_line(w, mb) for w in wls for mb in mbs_ref]
    spec_lines = [model_line(w, 0, "spec") for w in wls]
    state_lines = [model_line(w, mb, "state") for w in wls for mb in mbs_ref]
    # the same with a `sync` before every `end_file` (serial build, max_backlog 3 and 40)
    mbs_sync = [3, 40]
    sref_lines = [bp_line(w, 1, mb, 0, 0, sync=True) for w in wls for mb in mbs_sync]
    smod_lines = [model_line(w, mb, "runs") for w in wls for mb in mbs_sync]
    sstate_lines = [model_line(w, mb, "states") for w in wls for mb in mbs_sync]
    t0 = time.time()
    impl, problems = run_parallel(ctx, [str(h)], lines, 1500)
    ref, rproblems = run_parallel(ctx, [str(hs)], ref_lines, 900, pin=False)
    sref, srproblems = run_parallel(ctx, [str(hs)], sref_lines, 900, pin=False)
    rproblems = rproblems + srproblems
    t1 = time.time()
    mod = model_run(ctx, mod_lines)
    spec = model_run(ctx, spec_lines)
    state = model_run(ctx, state_lines)
    smod = model_run(ctx, smod_lines)
    sstate = model_run(ctx, sstate_lines)
    t2 = time.time()
    for pb in (problems + rproblems)[:3]:
        ctx.violation("crash:" + vlib.sha(pb["script"])[:12],
                      "block processor harness aborted / hung (rc=%s): %s" % (pb["rc"], pb["stderr"][-400:]),
                      {"kind": "unit", "line": pb["script"], "stderr": pb["stderr"]})
    nref = len(mbs_ref)
    bad = corr_bad = 0
    feat = {}
    orders = {}
    hist = {"policy": {}, "workers": {}, "backlog": {}}
    nontrivial = set()
    for wi, w in enumerate(wls):
        refs = [split_result(r)[0] for r in ref[wi * nref:(wi + 1) * nref]]
        mods = mod[wi * nref:(wi + 1) * nref]
        want = refs[0]
        # (b') the serial build must not depend on the backlog either
        if len(set(refs)) != 1 and not any(r == "<no output>" for r in refs):
            bad += 1
            if bad <= 3:
                k = next(i for i, r in enumerate(refs) if r != want)
                ctx.violation("serial-backlog:" + vlib.sha(ref_lines[wi * nref + k])[:12],
                              "serial-pool build: output depends on max_backlog (%d vs %d)" % (mbs_ref[0], mbs_ref[k]),
                              {"kind": "unit-serial", "lines": [ref_lines[wi * nref], ref_lines[wi * nref + k]],
                               "outputs": [want[:2000], refs[k][:2000]]})
        # (a) model vs serial build
        for k, m in enumerate(mods):
            if m != refs[k] and refs[k] != "<no output>":
                corr_bad += 1
                if corr_bad <= 3:
                    ctx.violation("corr:" + vlib.sha(mod_lines[wi * nref + k])[:12],
                                  "model and real block processor (serial pool) differ: model=%s real=%s" % (m[:600], refs[k][:600]),
                                  {"kind": "unit-model", "model_line": mod_lines[wi * nref + k], "harness_line": ref_lines[wi * nref + k],
                                   "model": m, "real": refs[k]},
                                  # an error return on a workload the theorems say cannot fail is a failing input of the property itself
                                  found_input=(m.startswith("ok ") and refs[k].startswith("err")))
        # (a'') bookkeeping of the serial build: items submitted, largest number of items inside the pool (a function of the
        # workload and max_backlog on the serial pool), everything written at the end
        for k in range(nref):
            _, tr = split_result(ref[wi * nref + k])
            st = dict(kv.split("=") for kv in state[wi * nref + k].split()[1:]) if state[wi * nref + k].startswith("ok ") else {}
            if tr and st and refs[k].startswith("ok "):
                if (tr.get("sub"), tr.get("maxq")) != (st.get("sub"), st.get("maxq")) or (st.get("backlog"), st.get("ioq"), st.get("pending")) != ("0", "0", "0") \
                        or st.get("seq") != st.get("deq"):
                    corr_bad += 1
                    if corr_bad <= 3:
                        ctx.violation("corr-state:" + vlib.sha(state_lines[wi * nref + k])[:12],
                                      "pool bookkeeping differs (max_backlog=%d): real sub=%s maxq=%s, model %s" % (
                                          mbs_ref[k], tr.get("sub"), tr.get("maxq"), state[wi * nref + k]),
                                      {"kind": "unit-state", "model_line": state_lines[wi * nref + k], "harness_line": ref_lines[wi * nref + k],
                                       "model": state[wi * nref + k], "real": ref[wi * nref + k][-300:]}, found_input=False)
        # (a3) sync while the file is open: output and bookkeeping
        for k in range(len(mbs_sync)):
            i = wi * len(mbs_sync) + k
            rc, tr = split_result(sref[i])
            st = dict(kv.split("=") for kv in sstate[i].split()[1:]) if sstate[i].startswith("ok ") else {}
            if rc == "<no output>":
                continue
            if rc != want:
                bad += 1
                if bad <= 3:
                    ctx.violation("serial-sync:" + vlib.sha(sref_lines[i])[:12],
                                  "serial-pool build: output changes when sync() is called before end_file (max_backlog=%d)" % mbs_sync[k],
                                  {"kind": "unit-serial", "lines": [ref_lines[wi * nref], sref_lines[i]], "outputs": [want[:2000], rc[:2000]]})
            elif smod[i] != rc or (rc.startswith("ok ") and tr and (tr.get("sub"), tr.get("maxq")) != (st.get("sub"), st.get("maxq"))):
                corr_bad += 1
                if corr_bad <= 3:
                    ctx.violation("corr-sync:" + vlib.sha(smod_lines[i])[:12],
                                  "model and real block processor differ when sync() is called before end_file: model=%s / %s real=%s" % (
                                      smod[i][:300], sstate[i], sref[i][-300:]),
                                  {"kind": "unit-model", "model_line": smod_lines[i], "harness_line": sref_lines[i], "model": smod[i], "real": rc},
                                  found_input=False)
        # (a') the queue-free reference `packRef` evaluated on the implementation's behaviour
        if spec[wi] != want and want != "<no output>":
            corr_bad += 1
            if corr_bad <= 3:
                ctx.violation("spec:" + vlib.sha(spec_lines[wi])[:12],
                              "reference packRef and real block processor (serial pool) differ: spec=%s real=%s" % (spec[wi][:600], want[:600]),
                              {"kind": "unit-model", "model_line": spec_lines[wi], "harness_line": ref_lines[wi * nref],
                               "model": spec[wi], "real": want}, found_input=False)
        for fx in features(w, want):
            feat[fx] = feat.get(fx, 0) + 1
        if features(w, want) & {"fragment-block-overflow", "fragment-dedup-hit", "file-dedup-hit", "sparse", "multi-block-file"}:
            nontrivial.add(wi)
    TRACE_KEYS = ("steps", "dl", "mtx", "sub", "fifo", "ovt", "ord", "maxq")
    untraced = [l for l, a in list(zip(lines, impl)) + list(zip(ref_lines, ref)) if a != "<no output>" and any(k not in split_result(a)[1] for k in TRACE_KEYS)]
    if untraced:
        # without the trace (the link-time wrapper of thread_pool_create no longer binds, a field was dropped) the FIFO, dead-lock and
        # mutex verdicts below would default to "fine": not a pass
        bad += len(untraced)
        ctx.violation("infra:unit-trace-missing", "%d harness runs came back without the complete pool trace (%s): the instrumentation "
                      "(-Wl,--wrap=thread_pool_create, controlled scheduler) is not in effect" % (len(untraced), ",".join(TRACE_KEYS)),
                      {"kind": "unit", "line": untraced[0], "serial_line": untraced[0]}, found_input=False)
    for l, (wi, workers, mb, policy), a in zip(lines, meta, impl):
        canon, tr = split_result(a)
        want = split_result(ref[wi * nref])[0]
        hist["policy"][policy] = hist["policy"].get(policy, 0) + 1
        hist["workers"][workers] = hist["workers"].get(workers, 0) + 1
        hist["backlog"][mb] = hist["backlog"].get(mb, 0) + 1
        if a == "<no output>" or want == "<no output>":
            continue
        why = None
        if tr.get("mtx", "0") != "0":
            why = "a mutex was held at a scheduling point"
        elif tr.get("dl", "0") != "0":
            why = "dead-lock / livelock under the controlled scheduler (dl=%s)" % tr.get("dl")
        elif tr.get("fifo", "1") != "1":
            why = "the pool handed items back out of submission order"
        elif canon != want:
            why = "output differs from the serial-pool build's: threaded=%s serial=%s" % (canon[:500], want[:500])
        if why:
            bad += 1
            if bad <= 3:
                ctx.violation("unit:" + vlib.sha(l)[:12], "block processor on the controlled pool (workers=%d max_backlog=%d policy=%d): %s" % (
                    workers, mb, policy, why), {"kind": "unit", "line": l, "serial_line": ref_lines[wi * nref], "threaded": a, "serial": want})
            continue
        orders.setdefault(wi, set()).add(tr.get("ord"))
        for k in ("ovt", "fbovt", "spur"):
            if int(tr.get(k, "0")) > 0:
                key = {"ovt": "blocks-overtaking", "fbovt": "fragment-block-overtakes-data-block", "spur": "spurious-wakeup-taken"}[k]
                feat[key] = feat.get(key, 0) + 1
    stats["unit"] = {
        "workloads": len(wls), "corpus": len(corpus), "threaded_runs": len(lines), "serial_runs": len(ref_lines), "model_runs": len(mod_lines) + len(state_lines) + len(smod_lines) + len(sstate_lines), "reference_runs": len(spec_lines),
        "serial_runs_with_sync_in_open_file": len(sref_lines), "threaded_runs_with_sync_in_open_file": sum(1 for l in lines if l.startswith("bps ")),
        "distinct_workload_x_schedule_x_backlog": len(set(lines)), "distinct_nontrivial_workloads": len(nontrivial),
        "distinct_completion_orders_total": sum(len(v) for v in orders.values()),
        "workloads_with_more_than_one_completion_order": sum(1 for v in orders.values() if len(v) > 1),
        "features": dict(sorted(feat.items())), "histogram": {k: dict(sorted(v.items())) for k, v in hist.items()},
        "property_violations": bad, "model_disagreements": corr_bad,
        "wall_s": {"harness": round(t1 - t0, 1), "model": round(t2 - t1, 1)}}
    stats["evaluations"] += len(lines) + len(ref_lines) + len(mod_lines) + len(spec_lines) + len(state_lines) + 3 * len(sref_lines)
    stats["disagreements"] += bad + corr_bad
    stats["samples"] += [lines[0][:300], lines[len(lines) // 2][:300], mod_lines[-1][:300]]
    return h, hs



# --------------------------------------------------------------------------------------------------- API scripts, failing compressor
MB_X = [0, 3, 5, 40]
KEY_SWALLOWED = "failure-swallowed@sqfs_block_processor_sync"


def gen_script(rng, failing):
    """an API script: files, manual submissions, sync calls; with `failing` some blocks start with 0xEE (the fake compressor
    of harness/h_c02.c fails on them).  -> dict(B, bc, hbits, codec, pre, chunk, ops=[('f',flags,data)|('m',flags,data)|('s',)])"""
    w = gen_workload(rng, True)
    B = w["B"]
    ops = []
    for fl, d in w["files"]:
        if failing and len(d) > 0 and rng.random() < 0.3:
            z = bytearray(d)
            k = rng.randrange(0, (len(z) + B - 1) // B) * B          # first byte of some block (or of the tail)
            z[k] = 0xEE
            d = bytes(z)
        ops.append(("f", fl, d))
        r = rng.random()
        if r < 0.12:
            ops.append(("s",))
        elif r < 0.30:
            n = rng.choice([0, 1, B // 2, B - 1, B, B])
            kind = rng.choice("rrccz")
            d2 = gen_bytes(rng, n, kind, B)
            if failing and n > 0 and rng.random() < 0.3:
                d2 = b"\xee" + d2[1:]
            fl2 = rng.choice([0, 0, 0, FL["dc"], FL["dh"], FL["is"], FL["dd"], 0x800 | 0x1000, 0x800 | 0x1000 | FL["dd"]])
            ops.append(("m", fl2, d2))
    if failing and not any(o[0] != "s" and o[2][:1] == b"\xee" for o in ops):
        ops.append(("f", FL["df"], b"\xee" + gen_bytes(rng, 2 * B - 1, "r", B)))
    w["ops"] = ops
    w["codec"] = "toyf" if failing else w["codec"]
    del w["files"]
    return w


def ops_text(w):
    return "%d %s" % (len(w["ops"]), " ".join("s" if o[0] == "s" else "%s %d %s" % (o[0], o[1], hx(o[2])) for o in w["ops"])) if w["ops"] else "0"


def bpx_line(w, workers, mb, policy, seed):
    return ("bpx %d %d %d %d %s %d %s" % (workers, mb, policy, seed, wl_text(w), w["chunk"], ops_text(w))).strip()


def runx_line(w, variant, mb):
    return ("runx %d %d %d %d %d %s %s %s" % (variant, w["B"], mb, w["bc"], w["hbits"], w["codec"], hx(w["pre"]), ops_text(w))).strip()


def script_level(ctx, stats, h, hs):
    rng = ctx.rng
    quick = ctx.quick()
    n = 60 if quick else 400
    scripts = [gen_script(rng, failing=(i % 2 == 1)) for i in range(n)]
    corpus = sorted((vlib.CORPUS / "C02").glob("script_*.json")) if (vlib.CORPUS / "C02").exists() else []
    for p in corpus:
        try:
            c = json.loads(p.read_text())
            scripts.insert(0, {"B": c["B"], "bc": c["bc"], "hbits": c["hbits"], "codec": c["codec"], "pre": bytes.fromhex(c["pre"]), "chunk": c["chunk"],
                               "ops": [tuple(o[:2]) + (bytes.fromhex(o[2]),) if o[0] != "s" else ("s",) for o in c["ops"]]})
        except Exception as e:
            ctx.log("corpus entry %s unreadable: %s" % (p, e))
    per = 8 if quick else 16
    maxw = 8 if quick else 63
    ser_lines = [bpx_line(w, 1, mb, 0, 0) for w in scripts for mb in MB_X]
    m0_lines = [runx_line(w, 0, mb) for w in scripts for mb in MB_X]
    m1_lines = [runx_line(w, 1, mb) for w in scripts for mb in MB_X]
    thr_lines, meta = [], []
    for wi, w in enumerate(scripts):
        for k in range(per):
            policy = k % NPOLICY if k < NPOLICY else rng.randrange(NPOLICY)
            workers = rng.choice([1, 2, 2, 3, 4, 5, 8, maxw])
            if policy in (3, 4) and workers < 2:
                workers = 2
            mb = rng.choice([0, 3, 3, 4, 5, 8, 16, 40])
            thr_lines.append(bpx_line(w, workers, mb, policy, rng.randrange(1 << 30)))
            meta.append((wi, workers, mb, policy))
    ser, p1 = run_parallel(ctx, [str(hs)], ser_lines, 900, pin=False)
    thr, p2 = run_parallel(ctx, [str(h)], thr_lines, 1500)
    m0 = model_run(ctx, m0_lines)
    m1 = model_run(ctx, m1_lines)
    for pb in (p1 + p2)[:3]:
        ctx.violation("crash:" + vlib.sha(pb["script"])[:12], "block processor harness aborted / hung on an API script (rc=%s): %s" % (pb["rc"], pb["stderr"][-400:]),
                      {"kind": "unit", "line": pb["script"], "stderr": pb["stderr"]})
    nm = len(MB_X)
    bad = corr_bad = swallowed = 0
    untraced = [l for l, a in list(zip(thr_lines, thr)) + list(zip(ser_lines, ser))
                if a != "<no output>" and any(k not in split_result(a)[1] for k in ("dl", "mtx", "fifo", "sub", "wfail"))]
    if untraced:
        bad += len(untraced)
        ctx.violation("infra:unit-trace-missing", "%d API script runs came back without the complete pool trace (dl, mtx, fifo, sub, wfail): without it a failed "
                      "callback would go unnoticed" % len(untraced), {"kind": "unit", "line": untraced[0], "serial_line": untraced[0]}, found_input=False)
    variant_seen = {"before_69db961": 0, "current": 0, "either": 0}
    nfail_scripts = ndet = nmanual = 0
    for wi, w in enumerate(scripts):
        sers = [split_result(x)[0] for x in ser[wi * nm:(wi + 1) * nm]]
        v0 = m0[wi * nm:(wi + 1) * nm]
        v1 = m1[wi * nm:(wi + 1) * nm]
        if any(x == "<no output>" for x in sers):
            continue
        if any(o[0] == "m" for o in w["ops"]):
            nmanual += 1
        # (a) correspondence: the serial-pool build is the model of the current code (v1: sync() returns the pool status).  A build
        # that is the model of the sync() before 69db961 (v0) where the two differ lacks that repair: model != code, and (c)
        # below reports the swallowed failure itself.
        for k in range(nm):
            if sers[k] == v0[k] and sers[k] == v1[k]:
                variant_seen["either"] += 1
            elif sers[k] == v1[k]:
                variant_seen["current"] += 1
            else:
                old = sers[k] == v0[k]
                if old:
                    variant_seen["before_69db961"] += 1
                corr_bad += 1
                if corr_bad <= 3:
                    ctx.violation("corr-script:" + vlib.sha(m0_lines[wi * nm + k])[:12],
                                  "model and real block processor (serial pool) differ on an API script%s: real=%s model(current code)=%s model(sync before 69db961)=%s" % (
                                      " - the build behaves like sqfs_block_processor_sync before 69db961 (no get_status at the end)" if old else "",
                                      sers[k][:400], v1[k][:300], v0[k][:100]),
                                  {"kind": "unit-script", "model_lines": [m0_lines[wi * nm + k], m1_lines[wi * nm + k]], "harness_line": ser_lines[wi * nm + k],
                                   "model": [v0[k], v1[k]], "real": sers[k]},
                                  found_input=(v1[k].startswith("ok ") and sers[k].startswith("err") and w["codec"] != "toyf"))
        # does some block's work fail?  (the model reports the pool status at the end of every drain; the trace of the
        # real run counts the failed callbacks)
        fails = any(int(split_result(x)[1].get("wfail", "0")) > 0 for x in ser[wi * nm:(wi + 1) * nm]) or \
            any(int(split_result(a)[1].get("wfail", "0")) > 0 for a, mt in zip(thr, meta) if mt[0] == wi)
        mine = [(l, a, mt) for l, a, mt in zip(thr_lines, thr, meta) if mt[0] == wi and a != "<no output>"]
        for l, a, mt in mine:
            tr = split_result(a)[1]
            if tr.get("mtx", "0") != "0" or tr.get("dl", "0") != "0" or (tr.get("fifo", "1") != "1"):
                bad += 1
                if bad <= 3:
                    ctx.violation("unit-script:" + vlib.sha(l)[:12], "API script on the controlled pool (workers=%d max_backlog=%d policy=%d): dead-lock (dl=%s), "
                                  "mutex held at a scheduling point (mtx=%s) or items handed back out of order (fifo=%s)" % (
                                      mt[1], mt[2], mt[3], tr.get("dl"), tr.get("mtx"), tr.get("fifo")),
                                  {"kind": "unit", "line": l, "serial_line": ser_lines[wi * nm], "threaded": a, "serial": sers[0]})
        mine = [x for x in mine if split_result(x[1])[1].get("dl", "0") == "0"]
        if fails:
            nfail_scripts += 1
            # (c) determinism of failure: no run may report success
            oks = [(ser_lines[wi * nm + k], sers[k], "serial pool, max_backlog=%d" % MB_X[k]) for k in range(nm) if sers[k].startswith("ok ")] + \
                  [(l, split_result(a)[0], "workers=%d max_backlog=%d policy=%d" % mt[1:]) for l, a, mt in mine if split_result(a)[0].startswith("ok ")]
            errs = [x for x in sers if x.startswith("err")] + [split_result(a)[0] for _, a, _ in mine if split_result(a)[0].startswith("err")]
            if oks:
                swallowed += 1
                if swallowed <= 1:
                    ctx.violation(KEY_SWALLOWED,
                                  "a compressor failure (do_block < 0) is swallowed: %d of %d runs of the same API script return 0 from finish() with the failed block "
                                  "stored uncompressed (%s), %d runs return an error (%s) - the outcome depends on max_backlog / worker count / schedule" % (
                                      len(oks), nm + len(mine), oks[0][2], len(errs), errs[0] if errs else "-"),
                                  {"kind": "unit-fail", "ok_line": oks[0][0], "ok_serial": oks[0][2].startswith("serial"),
                                   "err_line": next((l for l, a, _ in mine if split_result(a)[0].startswith("err")), None)})
            else:
                ndet += 1
        else:
            # (b) no failure: every configuration gives the serial build's result
            for l, a, mt in mine:
                canon, tr = split_result(a)
                why = None
                if tr.get("mtx", "0") != "0":
                    why = "a mutex was held at a scheduling point"
                elif tr.get("dl", "0") != "0":
                    why = "dead-lock / livelock under the controlled scheduler (dl=%s)" % tr.get("dl")
                elif tr.get("fifo", "1") != "1":
                    why = "the pool handed items back out of submission order"
                elif canon != sers[0]:
                    why = "output differs from the serial-pool build's: threaded=%s serial=%s" % (canon[:400], sers[0][:400])
                if why:
                    bad += 1
                    if bad <= 3:
                        ctx.violation("unit-script:" + vlib.sha(l)[:12], "API script on the controlled pool (workers=%d max_backlog=%d policy=%d): %s" % (mt[1], mt[2], mt[3], why),
                                      {"kind": "unit", "line": l, "serial_line": ser_lines[wi * nm], "threaded": a, "serial": sers[0]})
            if len(set(sers)) != 1:
                bad += 1
                if bad <= 3:
                    k = next(i for i, r in enumerate(sers) if r != sers[0])
                    ctx.violation("serial-backlog-script:" + vlib.sha(ser_lines[wi * nm + k])[:12],
                                  "serial-pool build: output of an API script depends on max_backlog (%d vs %d)" % (MB_X[0], MB_X[k]),
                                  {"kind": "unit-serial", "lines": [ser_lines[wi * nm], ser_lines[wi * nm + k]], "outputs": [sers[0][:2000], sers[k][:2000]]})
    stats["scripts"] = {"scripts": len(scripts), "corpus": len(corpus), "with_manual_submission": nmanual,
                        "with_sync_between_files": sum(1 for w in scripts if any(o[0] == "s" for o in w["ops"])),
                        "scripts_in_which_a_worker_callback_failed": nfail_scripts, "of_those_every_run_an_error": ndet,
                        "of_those_some_run_reported_success": swallowed,
                        "serial_runs": len(ser_lines), "threaded_runs": len(thr_lines), "model_runs": len(m0_lines) + len(m1_lines),
                        "serial_build_matches_model_of": variant_seen, "property_violations": bad + swallowed, "model_disagreements": corr_bad}
    stats["evaluations"] += len(ser_lines) + len(thr_lines) + len(m0_lines) + len(m1_lines)
    stats["disagreements"] += bad + corr_bad + swallowed
    stats["samples"].append(thr_lines[len(thr_lines) // 3][:300])


# --------------------------------------------------------------------------------------------------- compressor level
def valid_dict_sizes(lo, hi):
    out = []
    n = 1
    while n <= hi:
        for v in (n, n + n // 2):
            if lo <= v <= hi and v not in out:
                out.append(v)
        n *= 2
    return out


def gen_comp_config(rng, comp, B):
    """-> (level, flags, a, b, c, d, -X option string of the tools)"""
    if comp == "gzip":
        level, window = rng.randint(1, 9), rng.randint(8, 15)
        names = ["default", "filtered", "huffman", "rle", "fixed"]
        flags = 0 if rng.random() < 0.15 else rng.choice([1 << rng.randrange(5), rng.randrange(1, 32), rng.randrange(1, 32)])
        return level, flags, window, 0, 0, 0, ",".join(["level=%d" % level, "window=%d" % window] + [n for i, n in enumerate(names) if flags >> i & 1])
    if comp in ("xz", "lzma"):
        level = rng.choice([0, 1, 2, 3, 5, 6, 9]) if B <= 16384 else rng.choice([0, 1, 3, 6])
        dict_size = rng.choice(valid_dict_sizes(8192, max(8192, min(1 << 20, 4 * B))))
        lc = rng.randint(0, 4)
        lp = rng.randint(0, 4 - lc)
        pb = rng.randint(0, 4)
        if comp == "xz":
            names = ["x86", "powerpc", "ia64", "arm", "armthumb", "sparc"]
            flags = 0 if rng.random() < 0.3 else rng.randrange(64) if rng.random() < 0.5 else 1 << rng.randrange(6)
            if rng.random() < 0.3:
                flags |= 0x100
            xs = [n for i, n in enumerate(names) if flags >> i & 1] + (["extreme"] if flags & 0x100 else [])
        else:
            flags = rng.choice([0, 0, 1])
            xs = ["extreme"] if flags else []
            dict_size = max(dict_size, 8192)
        return level, flags, dict_size, lc, lp, pb, ",".join(["level=%d" % level, "dictsize=%d" % dict_size, "lc=%d" % lc, "lp=%d" % lp, "pb=%d" % pb] + xs)
    if comp == "lz4":
        flags = rng.choice([0, 1])
        return 0, flags, 0, 0, 0, 0, "hc" if flags else ""
    if comp == "zstd":
        level = rng.choice([1, 2, 3, 5, 9, 15, 19, 22])
        return level, 0, 0, 0, 0, 0, "level=%d" % level
    raise ValueError(comp)


def gen_comp_block(rng, B):
    size = rng.choice([0, 1, 2, rng.randint(3, 40), rng.randint(41, 1023), rng.randint(41, 1023), 1023, 1024, 1025, rng.randint(1026, B), B - 1, B, B, B])
    size = min(size, B)
    kind = rng.choice("ttttrczbx")
    if kind == "z":
        return bytes(size)
    if kind == "r":
        return rng.randbytes(size)
    if kind == "c":
        out = bytearray()
        while len(out) < size:
            out += bytes([rng.randrange(256)]) * rng.randint(1, 300)
        return bytes(out[:size])
    if kind == "b":                       # small alphabet, no structure (huffman-friendly)
        return bytes(rng.choice(b"abcdefgh") for _ in range(size))
    if kind == "x":                       # something like machine code: call/jump opcodes with 4-byte operands (BCJ filters)
        out = bytearray()
        while len(out) < size:
            out += bytes([rng.choice([0xE8, 0xE9, 0x48, 0x8B, 0x0F])]) + (rng.randrange(1 << 16)).to_bytes(4, "little") + rng.randbytes(rng.randint(0, 3))
        return bytes(out[:size])
    words = [b"the", b"quick", b"brown", b"fox", b"jumps", b"over", b"lazy", b"dog", b"0123456789", b"\n", b"squashfs", b"block"]
    out = bytearray()
    while len(out) < size:
        out += rng.choice(words) + b" "
    return bytes(out[:size])


COMPRESSORS = ("gzip", "xz", "lzma", "lz4", "zstd")


def comp_line(comp, cfg, B, k, blocks):
    return "hi %s %d %x %d %d %d %d %d %d %d %s" % (comp, cfg[0], cfg[1], cfg[2], cfg[3], cfg[4], cfg[5], B, k, len(blocks),
                                                     " ".join("%d %s" % (w, hx(d)) for w, d in blocks))


def gen_comp_case(rng, comp, quick):
    B = rng.choice([4096, 4096, 8192, 16384, 32768] if quick else [4096, 8192, 16384, 32768, 65536, 131072])
    cfg = gen_comp_config(rng, comp, B)
    k = rng.choice([1, 2, 2, 3, 4])
    n = rng.randint(4, 10 if quick else 16)
    mode = rng.choice(["random", "rr", "one", "alt-long-short"])
    blocks = []
    for i in range(n):
        d = gen_comp_block(rng, B)
        if mode == "alt-long-short":          # long block, then short ones: the shape of a file with a short last block
            d = gen_comp_block(rng, B) if i % 3 else (gen_comp_block(rng, B) * 40)[:B]
        w = {"random": rng.randrange(k), "rr": i % k, "one": 0, "alt-long-short": rng.randrange(k)}[mode]
        blocks.append((w, d))
    if rng.random() < 0.3 and blocks:           # the same block again on another worker and on the same one
        w, d = rng.choice(blocks)
        blocks += [((w + 1) % k, d), (w, d)]
    return comp_line(comp, cfg, B, k, blocks), {"comp": comp, "B": B, "opts": cfg[6], "k": k, "mode": mode}


def build_comp(ctx):
    libs = ctx.build_lib("c02serial", serial_pool=True, exclude=("lib/util/src/xxhash.c",))
    return ctx.cc("h_c02_comp", ["h_c02_comp.c", "weak_xxh.c"], libs=[str(libs)] + vlib.CODEC_LIBS)


def comp_check_line(ctx, line, out):
    """-> (verdict of the monitor, list of (hist, fresh, copy, rt) tokens)"""
    if not out.startswith("ok "):
        return out, []
    toks = out.split()[2:]
    m = ctx.driver(["c02"], "hi %d %s\n" % (len(toks), " ".join(toks)))[0]
    return m, toks


def comp_level(ctx, stats):
    rng = ctx.rng
    quick = ctx.quick()
    t0 = time.time()
    hc = build_comp(ctx)
    per = 40 if quick else 250
    lines, meta = [], []
    for p in sorted((vlib.CORPUS / "C02").glob("comp_*.txt")) if (vlib.CORPUS / "C02").exists() else []:
        for l in p.read_text().splitlines():
            if l.startswith("hi "):
                lines.append(l)
                meta.append({"comp": l.split()[1], "B": int(l.split()[8]), "opts": "corpus:" + p.name, "k": int(l.split()[9]), "mode": "corpus"})
    ncorpus = len(lines)
    for comp in COMPRESSORS:
        for _ in range(per):
            l, m = gen_comp_case(rng, comp, quick)
            lines.append(l)
            meta.append(m)
    outs, problems = run_parallel(ctx, [str(hc)], lines, 1200, pin=False)
    for pb in problems[:3]:
        ctx.violation("crash-comp:" + vlib.sha(pb["script"])[:12], "compressor harness aborted / hung (rc=%s): %s" % (pb["rc"], pb["stderr"][-400:]),
                      {"kind": "comp", "line": pb["script"], "stderr": pb["stderr"]})
    mon_in = []
    idx = []
    created = {}
    blocks = short = compressed = 0
    for i, (l, o) in enumerate(zip(lines, outs)):
        c = meta[i]["comp"]
        if o.startswith("ok "):
            toks = o.split()[2:]
            mon_in.append("hi %d %s" % (len(toks), " ".join(toks)))
            idx.append(i)
            created[c] = created.get(c, 0) + 1
            blocks += len(toks)
            compressed += sum(1 for t in toks if not t.startswith("0:") and not t.startswith("-"))
            sizes = [len(x) // 2 if x != "-" else 0 for x in l.split()[12::2]]
            short += sum(1 for z in sizes if 0 < z < 1024)
    verdicts = model_run(ctx, mon_in) if mon_in else []
    bad = 0
    notcreated = {}
    for i, o in enumerate(outs):
        if o.startswith("err create") or o.startswith("err copy"):
            notcreated[meta[i]["comp"]] = notcreated.get(meta[i]["comp"], 0) + 1
        elif not o.startswith("ok ") and o != "<no output>":
            bad += 1
            if bad <= 3:
                ctx.violation("comp-harness:" + vlib.sha(lines[i])[:12], "compressor harness: unexpected answer %r" % o[:200], {"kind": "comp", "line": lines[i]}, found_input=False)
    contract_bad = {}
    for i, v in zip(idx, verdicts):
        if v != "ok":
            toks = outs[i].split()[2:]
            k = int(v.split()[1]) if len(v.split()) == 2 and v.split()[1].isdigit() else -1
            t = toks[k].split("/") if 0 <= k < len(toks) else ["?"] * 4
            m = meta[i]
            where = "%s do_block (-X %s, block size %d, %d worker copies, assignment %s), block #%d of the sequence" % (
                m["comp"], m["opts"] or "-", m["B"], m["k"], m["mode"], k)
            if v.startswith("dep "):
                bad += 1
                if bad <= 3:
                    what = "history dependent: the worker copy returned %s, a fresh compressor %s" % (t[0], t[1]) if t[0] != t[1] else \
                           "a fresh sqfs_copy returned %s, a freshly created compressor %s" % (t[2], t[1])
                    ctx.violation("comp-history:%s:%s" % (m["comp"], vlib.sha(lines[i])[:12]),
                                  "%s: %s - the image depends on which worker thread compresses a block" % (where, what),
                                  {"kind": "comp", "line": lines[i], "verdict": v, "result": outs[i], "options": m["opts"]})
            else:
                # a hypothesis of the theorems (CodecOk) does not hold of this compressor: the property is no longer shown to hold
                contract_bad[m["comp"]] = contract_bad.get(m["comp"], 0) + 1
                if contract_bad[m["comp"]] <= 1:
                    sizes = [len(x) // 2 if x != "-" else 0 for x in lines[i].split()[12::2]]
                    what = "do_block failed (%s)" % t[0] if t[0].startswith("-") else \
                           "a %d byte block is returned as a %s byte compressed block (not shorter), or it does not uncompress to the input" % (
                               sizes[k] if 0 <= k < len(sizes) else -1, t[0].split(":")[0])
                    ctx.violation("codec-contract:%s" % m["comp"],
                                  "%s: %s - the codec contract the theorems assume (CodecOk.smaller / roundTrip) does not hold" % (where, what),
                                  {"kind": "comp", "line": lines[i], "verdict": v, "result": outs[i], "options": m["opts"]}, found_input=False)
    for c in COMPRESSORS:
        if created.get(c, 0) == 0:
            bad += 1
            ctx.violation("comp-missing:" + c, "no configuration of the %s compressor could be created (%d refused)" % (c, notcreated.get(c, 0)),
                          {"kind": "comp-missing", "comp": c}, found_input=False)
    stats["compressors"] = {"cases": len(lines), "corpus": ncorpus, "created": created, "configurations_refused": notcreated, "blocks": blocks,
                            "blocks_shorter_than_1024": short, "blocks_compressed": compressed, "violations": bad,
                            "codec_contract_broken": contract_bad,
                            "sample_options": sorted({m["comp"] + ":" + m["opts"] for m in meta})[:12], "wall_s": round(time.time() - t0, 1)}
    stats["evaluations"] += len(lines) + len(mon_in)
    stats["disagreements"] += bad + sum(contract_bad.values())
    stats["samples"].append(lines[ncorpus][:200] if len(lines) > ncorpus else "")


# --------------------------------------------------------------------------------------------------- tool level
TOOLS = ("gensquashfs", "tar2sqfs")
SDE = "1600000000"


def compile_obj(ctx, src, tag, flags):
    o = ctx.scratch / ("%s_%s.o" % (Path(src).stem, tag))
    if not o.exists():
        cmd = ["gcc", "-O1", "-g", "-w", "-c"] + list(flags) + vlib.include_flags() + vlib.BASE_DEFS + [str(vlib.HARNESS / src), "-o", str(o)]
        r = vlib.sh(cmd)
        if r.returncode != 0:
            raise vlib.CheckFailure("cannot compile %s: %s" % (src, r.stderr[-2000:]))
    return o


def build_tools(ctx, stats):
    """-> {variant: {tool: path}}; variants: san (threaded, ASan+UBSan), serial (NO_THREAD_IMPL, ASan), plain (threaded, no
    sanitizer: used with the LD_PRELOAD clock shim), tsan (threaded, ThreadSanitizer; absent when it does not link)"""
    wrap = ["-Wl,--wrap=thread_pool_create"]
    out = {}
    tr_san = compile_obj(ctx, "c02_pooltrace.c", "san", vlib.SAN)
    tr_plain = compile_obj(ctx, "c02_pooltrace.c", "plain", [])
    out["san"] = {t: ctx.build_tool(t, "san", extra_objs=[str(tr_san)], ldflags=wrap) for t in TOOLS}
    out["serial"] = {t: ctx.build_tool(t, "c02ser", serial_pool=True, extra_objs=[str(tr_san)], ldflags=wrap) for t in TOOLS}
    out["plain"] = {t: ctx.build_tool(t, "c02plain", sanitize=False, extra_objs=[str(tr_plain)], ldflags=wrap) for t in TOOLS}
    try:
        tr_tsan = compile_obj(ctx, "c02_pooltrace.c", "tsan", ["-fsanitize=thread"])
        out["tsan"] = {t: ctx.build_tool(t, "c02tsan", flags=["-fsanitize=thread"], sanitize=False, extra_objs=[str(tr_tsan)], ldflags=wrap)
                       for t in TOOLS}
        stats["tsan_build"] = "ok"
    except vlib.CheckFailure as e:
        # ThreadSanitizer is the only evidence for data-race freedom of the pool's lock-free main-thread fields: no TSan, no pass
        stats["tsan_build"] = "not available: %s" % str(e)[:200]
        ctx.violation("infra:tsan-unavailable", "the ThreadSanitizer build of the packers cannot be produced (%s): data-race freedom is not "
                      "exercised at all" % str(e)[:300], {"kind": "infra", "error": str(e)[:2000]}, found_input=False)
    shim = ctx.scratch / "shim_c02_time.so"
    r = vlib.sh(["gcc", "-O1", "-shared", "-fPIC", "-w", str(vlib.HARNESS / "shim_c02_time.c"), "-o", str(shim), "-ldl"])
    if r.returncode != 0:
        raise vlib.CheckFailure("cannot build shim_c02_time.so: " + r.stderr[-1000:])
    out["timeshim"] = shim
    stats["clock_selftest"] = time_selftest(ctx, shim)
    # locale / time zone / environment shim (harness/shim_c02_locale.c) and the proof that it is bound and answers as documented
    lshim = ctx.scratch / "shim_c02_locale.so"
    r = vlib.sh(["gcc", "-O1", "-shared", "-fPIC", "-w", str(vlib.HARNESS / "shim_c02_locale.c"), "-o", str(lshim), "-ldl"])
    if r.returncode != 0:
        raise vlib.CheckFailure("cannot build shim_c02_locale.so: " + r.stderr[-1000:])
    st = ctx.scratch / "c02_locale_selftest"
    r = vlib.sh(["gcc", "-O1", "-w", str(vlib.HARNESS / "c02_locale_selftest.c"), "-o", str(st)])
    if r.returncode != 0:
        raise vlib.CheckFailure("cannot build c02_locale_selftest: " + r.stderr[-1000:])
    e = dict(os.environ)
    e.update({"LD_PRELOAD": str(lshim), "C02_LOCALE_HOSTILE": "1", "C02_LOCALE_LOG": str(ctx.scratch / "c02_locale_selftest.log"), "TZ": "UTC"})
    r = vlib.sh([str(st)], env=e, timeout=60)
    # fn=06: before setlocale fnmatch is the C locale's ("[a-z]*" does not match "Zeta"), afterwards it folds case
    want = "before=1 ci_before=1 locale=xx_XX.HOSTILE after=0 punct=1 ci_after=0 lowerI=253 alphaE9=1 dp=, hour=13 min=45 tz=UTC fn=06"
    log = read_locale_log(ctx.scratch / "c02_locale_selftest.log")
    if r.stdout.strip() != want or log.get("strcoll") != "3" or log.get("setlocale") != "1" or log.get("active") != "111" or \
            log.get("fnmatch") != "5" or log.get("setlocale_args") != '6:"",':
        raise vlib.CheckFailure("the locale shim is not in effect: self test printed %r (want %r), log %r" % (r.stdout.strip(), want, log))
    out["localeshim"] = lshim
    stats["locale_shim_selftest"] = r.stdout.strip()
    return out


NAME_HEADS = ["f", "F", "a", "B", "Z", "_", "-", ".x", "~", "A", "b", "é", "É", "İ", "ı", "I", "i", "ÿ", "ß", "Ω", "a-", "a_", "ab",
              "\udcff", "\udce9x", "\udcdd", "\udcfd"]          # the last four: raw Latin-1 / Latin-5 bytes (not UTF-8)


def gen_tree(rng, root, B, nfiles):
    """a directory tree of multi-block files (sizes around k*B), short files (fragment blocks that overflow), holes,
    duplicates and shared tails; fixed mtimes.  -> list of (relative path, bytes)"""
    files = []
    names = []
    for i in range(nfiles):
        # names whose strcmp order differs from what a collating / case-folding / Turkish locale would say: mixed case, leading
        # punctuation (ignored at the first collation level), UTF-8 letters, dotted / dotless i, Latin-1 high bytes
        d = rng.choice(["", "a", "a/b", "c", "B", "a/É"])
        name = (d + "/" if d else "") + "%s%03d_%s" % (rng.choice(NAME_HEADS), i, rng.choice(["x", "Y", "zz", "I", "ı"]))
        r = rng.random()
        if files and r < 0.12:
            data = rng.choice(files)[1]
        else:
            k = rng.choice([0, 0, 0, 1, 1, 2, 3, 6])
            size = max(0, k * B + rng.choice([-1, 0, 1, rng.randint(1, B - 1), rng.randint(1, 600), rng.randint(1, 600)]))
            kind = rng.choice("rrrccz")
            if kind == "z":
                data = bytes(size)
            elif kind == "c":
                data = (bytes([rng.randrange(256)]) * rng.randint(50, 400) * (size // 50 + 1))[:size]
            else:
                data = rng.randbytes(size)
            if files and r < 0.3 and size > 0:
                o = rng.choice(files)[1]
                if len(o) % B:
                    data = data[:len(data) - len(data) % B] + o[len(o) - len(o) % B:]
        files.append((name, data))
    for name, data in files:
        p = root / name
        p.parent.mkdir(parents=True, exist_ok=True)
        p.write_bytes(data)
    t = 1500000000
    for dp, dn, fn in os.walk(root):
        for n in fn + [""]:
            q = os.path.join(dp, n) if n else dp
            t += 7
            os.utime(q, (t, t))
    return files


def make_inputs(ctx, rng, quick, idx):
    import io, tarfile
    B = rng.choice([4096, 4096, 8192])
    d = ctx.scratch / ("c02in%d" % idx)
    if d.exists():
        shutil.rmtree(d)
    root = d / "root"
    root.mkdir(parents=True)
    files = gen_tree(rng, root, B, rng.randint(25, 45) if quick else rng.randint(40, 120))
    lines, dirs = [], set()
    for name, _ in files:
        parts = name.split("/")
        for k in range(1, len(parts)):
            dd = "/".join(parts[:k])
            if dd not in dirs:
                dirs.add(dd)
                lines.append("dir /%s 0755 0 0" % dd)
        lines.append("file /%s 0644 %d %d %s" % (name, rng.choice([0, 1000]), rng.choice([0, 100]), root / name))
    (d / "pack.txt").write_bytes(os.fsencode("\n".join(lines) + "\n"))
    bio = io.BytesIO()
    with tarfile.open(fileobj=bio, mode="w", format=tarfile.GNU_FORMAT) as tf:
        t = 1400000000
        for name, data in files:
            ti = tarfile.TarInfo(name)
            ti.size = len(data)
            ti.mode = 0o644
            t += 3
            ti.mtime = t
            tf.addfile(ti, io.BytesIO(data))
    (d / "in.tar").write_bytes(bio.getvalue())
    write_glob_inputs(rng, d)
    return {"dir": d, "B": B, "nfiles": len(files), "bytes": sum(len(x) for _, x in files)}


def write_glob_inputs(rng, d):
    """the two places where the packers hand file names to a locale-sensitive libc function (fnmatch): `glob ... -name <pattern>` lines
    of a pack file (lib/common/src/dir_tree_iterator.c) and `[glob]` / `[glob_no_path]` lines of a sort file
    (bin/gensquashfs/src/sort_by_file.c).  The patterns are chosen so that matching differs between the C locale and a collating /
    case-folding one: bracket ranges over letters (`[a-z]`, `[A-Z]`, `[a-Z]` - empty in the C locale, all letters in en_US -, `[A-z]`),
    ranges over high bytes, a character class.  In the C locale the -name patterns of the pack file partition the names (no file is
    added twice); which line matched a file shows in its mode / uid / gid, which sort line matched it in its position and block flags.
    Drawn from `rng` after everything else, so the other inputs of a seed are what they were."""
    modes = ["0644", "0600", "0640", "0444"]
    rng.shuffle(modes)
    pack = [b"glob / * * * -type d .",
            b"glob / 0604 5 5 -type f -name \"[a-Z]*\" .",
            b"glob / %s * * -type f -name \"[a-z]*\" ." % modes[0].encode(),
            b"glob / %s 1000 100 -type f -name \"[A-Z]*\" ." % modes[1].encode(),
            b"glob / %s 0 7 -type f -name \"[!a-zA-Z]*\" ." % modes[2].encode()]
    (d / "pack_glob.txt").write_bytes(b"\n".join(pack) + b"\n")
    lines = [b"[glob] */[a-Z]*", b"[glob_no_path,dont_fragment] *[\xc0-\xff]*", b"[glob] a/[a-f]*", b"[glob_no_path,dont_compress] *_[x-z]*",
             b"[glob,dont_deduplicate] */[!a-z]*", b"[glob_no_path] *[[:upper:]]", b"[glob,nosparse] [A-z]*", b"[glob] [f-i]*_[H-J]",
             b"[glob_no_path,dont_fragment] *\xc3[\x80-\x9f]*"]
    rng.shuffle(lines)
    prios = sorted(rng.sample(range(-500, 500), len(lines)))
    rng.shuffle(prios)
    (d / "sort.txt").write_bytes(b"".join(b"%d %s\n" % (pr, ln) for pr, ln in zip(prios, lines)))


def input_rng(seed, tier, ci):
    """the input sets have their own random stream, so that a replay can regenerate one of them"""
    import random
    return random.Random("C02/tool/%d/%s/%d" % (seed, tier, ci))


def tool_cmd(builds, variant, flavour, inp, out, comp, extra):
    d = inp["dir"]
    if flavour == "tar":
        return [str(builds[variant]["tar2sqfs"]), "-q", "-f", "-b", str(inp["B"]), "-c", comp] + extra + [str(out)], str(d / "in.tar")
    cmd = [str(builds[variant]["gensquashfs"]), "-q", "-f", "-b", str(inp["B"]), "-c", comp] + extra
    if flavour == "packdir":
        cmd += ["-D", str(d / "root")]
    elif flavour == "packdir-sort":                 # fnmatch on the `[glob]` lines of a sort file
        cmd += ["-D", str(d / "root"), "-S", str(d / "sort.txt")]
    elif flavour == "globfile-sort":                # fnmatch on `glob ... -name` lines of a pack file, and on the sort file
        cmd += ["-F", str(d / "pack_glob.txt"), "-D", str(d / "root"), "-S", str(d / "sort.txt")]
    elif flavour == "packdir-k":
        cmd += ["-D", str(d / "root"), "-k"]
    else:
        cmd += ["-F", str(d / "pack.txt")]
    return cmd + [str(out)], None


def run_tool(ctx, cmd, stdin_path, env, cwd, umask, prefix, timeout=300):
    e = ctx.san_env(env)
    e.setdefault("TSAN_OPTIONS", "halt_on_error=0:exitcode=0")
    def pre():
        os.umask(umask)
    f = open(stdin_path, "rb") if stdin_path else subprocess.DEVNULL
    try:
        r = subprocess.run(prefix + cmd, stdin=f, stdout=subprocess.PIPE, stderr=subprocess.PIPE, env=e, cwd=cwd, preexec_fn=pre,
                           timeout=timeout)
        rc, err = r.returncode, r.stderr.decode("utf-8", "replace")
    except subprocess.TimeoutExpired:
        rc, err = -999, "TIMEOUT"
    finally:
        if stdin_path:
            f.close()
    return rc, err


def sha_file(p):
    try:
        return hashlib.sha256(Path(p).read_bytes()).hexdigest()
    except OSError:
        return "<no image>"


TIME_SELFTEST_CALLS = ["time", "time", "gettimeofday", "clock_gettime", "clock_gettime", "timespec_get", "ftime"]


def read_time_log(p):
    """record file of harness/shim_c02_time.c -> {"bound": [exe names], "reads": [entry points read by a process that is not
    taskset]}; None when the file is missing, unreadable or holds a line that is not a record (never "0 reads")"""
    try:
        text = Path(p).read_text()
    except (OSError, UnicodeDecodeError):
        return None
    res = {"bound": [], "reads": []}
    for line in text.splitlines():
        tok = line.split()
        try:
            kv = dict(t.split("=", 1) for t in tok[1:])
            if tok[0] == "bound":
                res["bound"].append(kv["exe"])
            elif tok[0] == "read":
                if kv["exe"] != "taskset":
                    res["reads"].append(kv["fn"])
            else:
                return None
        except (IndexError, KeyError, ValueError):
            return None
    return res


def time_selftest(ctx, shim):
    """the proof that the clock shim is bound and answers the faked wall clock behind every entry point it hooks: harness/
    c02_time_selftest.c under the packers' LD_PRELOAD / C02_FAKE_TIME / C02_TIME_LOG environment, at two different fake times"""
    st = ctx.scratch / "c02_time_selftest"
    r = vlib.sh(["gcc", "-O1", "-w", str(vlib.HARNESS / "c02_time_selftest.c"), "-o", str(st)])
    if r.returncode != 0:
        raise vlib.CheckFailure("cannot build c02_time_selftest: " + r.stderr[-1000:])
    log = ctx.scratch / "c02_time_selftest.log"
    outs = []
    for ft in ("86399", "4102444800"):
        if log.exists():
            log.unlink()
        e = dict(os.environ)
        e.update({"LD_PRELOAD": str(shim), "C02_FAKE_TIME": ft, "C02_TIME_LOG": str(log), "TZ": "UTC"})
        r = vlib.sh([str(st)], env=e, timeout=60)
        want = ("time=%s time_arg=%s gettimeofday=%s.000000 clock_gettime=%s.000000000 clock_gettime_coarse=%s timespec_get=%s.000000000 "
                "base_ok=1 ftime=%s monotonic_advances=1" % ((ft,) * 7))
        tl = read_time_log(log)
        if r.returncode != 0 or r.stdout.strip() != want or tl is None or tl["bound"] != ["c02_time_selftest"] or tl["reads"] != TIME_SELFTEST_CALLS:
            raise vlib.CheckFailure("the clock shim is not in effect: self test (C02_FAKE_TIME=%s) printed %r (want %r), record file %r (want one "
                                    "bound record of c02_time_selftest and the reads %r)" % (ft, r.stdout.strip(), want, tl, TIME_SELFTEST_CALLS))
        outs.append(r.stdout.strip())
    # and without the library the program sees the real clock: the expected text above is not what an unbound run prints
    e = dict(os.environ)
    e.pop("LD_PRELOAD", None)
    r = vlib.sh([str(st)], env=e, timeout=60)
    if r.stdout.strip() in outs or "time=" not in r.stdout:
        raise vlib.CheckFailure("c02_time_selftest without the clock shim printed %r: the self test does not tell a bound shim from none" % r.stdout.strip())
    return {"fake_times": ["86399", "4102444800"], "output": outs[0], "records_per_run": 1 + len(TIME_SELFTEST_CALLS), "entry_points": sorted(set(TIME_SELFTEST_CALLS)),
            "monotonic_clock_stays_real": True}


def read_locale_log(p):
    try:
        return dict(kv.split("=", 1) for kv in Path(p).read_text().split())
    except Exception:
        return {}


def installed_locales():
    try:
        return sorted(set(subprocess.run(["locale", "-a"], capture_output=True, text=True, timeout=30).stdout.split()))
    except Exception:
        return []


def read_trace(p):
    try:
        return dict(kv.split("=") for kv in Path(p).read_text().split())
    except Exception:
        return {}


ENV_CHOICES = {
    "TZ": ["UTC", "America/New_York", "Asia/Tokyo", "Pacific/Kiritimati"],
    "LC_ALL": ["C", "en_US.UTF-8", "tr_TR.UTF-8", "POSIX"],
    "umask": [0o022, 0o077, 0o000, 0o027],
}


def tool_level(ctx, stats):
    rng = ctx.rng
    quick = ctx.quick()
    t0 = time.time()
    builds = build_tools(ctx, stats)
    ncases = 3 if quick else 6
    flavours = ["packdir", "packfile", "tar", "packdir-k", "packdir-sort", "globfile-sort"]
    jobs_list = [1, 2, 3, 4, 7, 16, 64, None]
    q_list = [1, 2, 3, 10, 1000, None]
    runs = bad = 0
    orders = {}
    overtakes = 0
    worker_counts = set()
    xopts_seen = set()
    comps_seen = set()
    handoffs = delays = untraced = unperturbed = 0
    loc = {"runs": 0, "image_mismatches": 0, "calls": {}, "setlocale_args": set(), "env_names": set(), "log_missing": 0}
    tsan_runs = tsan_reports = 0
    tlog = ctx.scratch / "c02_time.log"
    clock = {"runs": 0, "bound": 0, "log_unreadable": 0, "unbound": 0, "reads": {}}

    def clock_account(log, exe):
        """one packer run under the clock shim: the record file must be readable and hold the `bound` record of that packer"""
        clock["runs"] += 1
        tl = read_time_log(log)
        if tl is None:
            clock["log_unreadable"] += 1
            return
        if exe in tl["bound"]:
            clock["bound"] += 1
        else:
            clock["unbound"] += 1
        for fn in tl["reads"]:
            clock["reads"][fn] = clock["reads"].get(fn, 0) + 1
    samples = []
    ncpu = len(os.sched_getaffinity(0))
    for ci in range(ncases):
        inp = make_inputs(ctx, input_rng(ctx.seed, ctx.tier, ci), quick, ci)
        # quick: one compressor per (input set, flavour), rotating so that every compiled-in compressor is used (gzip three times);
        # thorough: gzip and a second, rotating compressor on every flavour
        plan = [(COMPRESSORS[(ci * len(flavours) + fi) % len(COMPRESSORS)], fl) for fi, fl in enumerate(flavours)] if quick else \
               [(c, fl) for c in ("gzip", COMPRESSORS[1 + ci % (len(COMPRESSORS) - 1)]) for fl in flavours]
        for comp, flavour in plan:
            if True:                                  # (one compressor per flavour; keeps the body's indentation)
                comps_seen.add(comp)
                # compressor options (-X: gzip strategies / level / window, xz filters / dictsize / lc lp pb, lz4 hc, zstd level) and -T
                # (a file larger than a block gets a short last *data* block instead of a tail end): per-worker compressor state
                # can only leak where the options make do_block do something that depends on them
                xopt = gen_comp_config(rng, comp, inp["B"])[6] if rng.random() < 0.85 else ""
                common = (["-X", xopt] if xopt else []) + (["-T"] if rng.random() < 0.5 else [])
                xopts_seen.add(comp + ":" + (xopt or "-") + (" -T" if "-T" in common else ""))
                ref_out = ctx.scratch / "c02_ref.sqfs"
                cmd, stdin = tool_cmd(builds, "serial", flavour, inp, ref_out, comp, common)
                rc, err = run_tool(ctx, cmd, stdin, {"SOURCE_DATE_EPOCH": SDE}, str(ctx.scratch), 0o022, [])
                ref = sha_file(ref_out)
                runs += 1
                if rc != 0:
                    bad += 1
                    if bad <= 3:
                        ctx.violation("tool-serial:" + vlib.sha(" ".join(cmd))[:12], "serial-pool build of the packer failed (rc=%s): %s" % (rc, err[-400:]),
                                      {"kind": "tool", "seed": ctx.seed, "tier": ctx.tier, "case": ci, "flavour": flavour, "comp": comp,
                                       "variant": "serial", "extra": [], "common": common, "env": {"SOURCE_DATE_EPOCH": SDE}, "umask": 0o022, "cwd": str(ctx.scratch),
                                       "prefix": [], "stderr": err[-2000:]})
                    continue
                combos = []
                n_this = (10 if quick else 32)
                for k in range(n_this):
                    j = jobs_list[k % len(jobs_list)] if k < len(jobs_list) else rng.choice(jobs_list)
                    q = q_list[k % len(q_list)] if k < len(q_list) else rng.choice(q_list)
                    combos.append((j, q))
                for k, (j, q) in enumerate(combos):
                    variant = "san"
                    env = {"SOURCE_DATE_EPOCH": SDE, "TZ": rng.choice(ENV_CHOICES["TZ"]), "LC_ALL": rng.choice(ENV_CHOICES["LC_ALL"]),
                           "C02_PERTURB_SEED": str(rng.randrange(1 << 30)), "C02_PERTURB_US": str(rng.choice([50, 200, 1000])),
                           # 0: seeded delays (completion order); 1: the worker that takes the first block is held back, the others
                           # compress what follows; 2: round robin, consecutive blocks go to different workers
                           "C02_PERTURB_MODE": str(k % 3), "C02_PERTURB_FIRST_MS": str(rng.choice([20, 60]))}
                    # LANG / LC_COLLATE / LC_CTYPE vary as well; every fourth run has no LC_ALL, so that they are what counts (no draw from
                    # rng: the cases of a seed stay what they were)
                    env["LANG"] = ["C", "tr_TR.UTF-8", "en_US.UTF-8", "de_DE.ISO-8859-1"][k % 4]
                    env["LC_COLLATE"] = ["en_US.UTF-8", "C", "cs_CZ.UTF-8"][k % 3]
                    env["LC_CTYPE"] = ["tr_TR.ISO-8859-9", "C.UTF-8"][k % 2]
                    if k % 4 == 3:
                        env["LC_ALL"] = ""
                    umask = rng.choice(ENV_CHOICES["umask"])
                    cwd = rng.choice([str(ctx.scratch), "/", str(inp["dir"])])
                    prefix = []
                    extra = []
                    if j is not None:
                        extra += ["-j", str(j)]
                    elif ncpu > 1 and rng.random() < 0.7:
                        ncp = rng.randint(1, min(ncpu, 6))
                        cpus = sorted(rng.sample(sorted(os.sched_getaffinity(0)), ncp))
                        prefix = ["taskset", "-c", ",".join(str(c) for c in cpus)]
                    if q is not None:
                        extra += ["-Q", str(q)]
                    if k % 5 == 4:                      # faked wall clock (uninstrumented build + LD_PRELOAD)
                        variant = "plain"
                        env["LD_PRELOAD"] = str(builds["timeshim"])
                        env["C02_FAKE_TIME"] = str(rng.choice([0, 86399, 1234567890, 4102444800]))
                        env["C02_TIME_LOG"] = str(tlog)
                        if tlog.exists():
                            tlog.unlink()
                    trace = ctx.scratch / "c02_trace.txt"
                    if trace.exists():
                        trace.unlink()
                    env["C02_TRACE_FILE"] = str(trace)
                    out = ctx.scratch / "c02_out.sqfs"
                    if out.exists():
                        out.unlink()
                    cmd, stdin = tool_cmd(builds, variant, flavour, inp, out, comp, common + extra)
                    rc, err = run_tool(ctx, cmd, stdin, env, cwd, umask, prefix)
                    got = sha_file(out)
                    runs += 1
                    tr = read_trace(trace)
                    if rc == 0 and not all(k in tr for k in ("submitted", "fifo", "workers", "perturb", "delays")):
                        untraced += 1
                    elif rc == 0 and tr.get("perturb") != "1":
                        unperturbed += 1
                    if tr:
                        handoffs += int(tr.get("handoffs", "0"))
                        delays += int(tr.get("delays", "0"))
                        orders.setdefault((ci, comp, flavour), set()).add(tr.get("order"))
                        if int(tr.get("overtakes", "0")) > 0:
                            overtakes += 1
                        worker_counts.add(tr.get("workers"))
                    if variant == "plain":
                        clock_account(tlog, Path(cmd[0]).name)
                    why = None
                    if rc != 0:
                        why = "packer failed (rc=%s): %s" % (rc, err[-300:])
                    elif tr and tr.get("fifo") == "0":
                        why = "the pool handed items back out of submission order"
                    elif got != ref:
                        why = "image differs from the serial-pool build's image (sha256 %s… vs %s…)" % (got[:16], ref[:16])
                    if why:
                        bad += 1
                        if bad <= 3:
                            ctx.violation("tool:" + vlib.sha(" ".join(cmd) + json.dumps(env, sort_keys=True))[:12],
                                          "%s -j %s -Q %s (%s, %s): %s" % (Path(cmd[0]).name, j, q, flavour, comp, why),
                                          {"kind": "tool", "seed": ctx.seed, "tier": ctx.tier, "case": ci, "flavour": flavour, "comp": comp,
                                           "variant": variant, "extra": extra, "common": common, "env": env, "umask": umask, "cwd": cwd, "prefix": prefix,
                                           "stderr": err[-1500:]})
                    if len(samples) < 3:
                        samples.append("%s | env TZ=%s LC_ALL=%s umask=%o cwd=%s %s" % (" ".join(prefix + cmd)[-200:], env["TZ"], env["LC_ALL"], umask, cwd,
                                                                                        "faketime=" + env.get("C02_FAKE_TIME", "-")))
                # a hostile locale / time zone behind the locale-sensitive entry points of libc (harness/shim_c02_locale.c): the image must
                # not change, whatever setlocale / strcoll / strcasecmp / the ctype tables / localeconv / localtime answer
                out = ctx.scratch / "c02_out.sqfs"
                if out.exists():
                    out.unlink()
                llog = ctx.scratch / "c02_locale.log"
                if llog.exists():
                    llog.unlink()
                lextra = ["-j", str(rng.choice([1, 2, 4]))]
                cmd, stdin = tool_cmd(builds, "plain", flavour, inp, out, comp, common + lextra)
                lenv = {"SOURCE_DATE_EPOCH": SDE, "LD_PRELOAD": str(builds["localeshim"]), "C02_LOCALE_HOSTILE": "1", "C02_LOCALE_LOG": str(llog),
                        "LC_ALL": "tr_TR.ISO-8859-9", "LANG": "tr_TR.ISO-8859-9", "LC_COLLATE": "de_DE.UTF-8", "TZ": "Pacific/Chatham"}
                rc, err = run_tool(ctx, cmd, stdin, lenv, str(ctx.scratch), 0o022, [])
                got = sha_file(out)
                runs += 1
                loc["runs"] += 1
                ll = read_locale_log(llog)
                if not ll or "strcoll" not in ll:
                    loc["log_missing"] += 1
                elif flavour in ("packdir-sort", "globfile-sort") and rc == 0 and int(ll.get("fnmatch", "0") or 0) == 0:
                    loc["log_missing"] += 1               # the glob inputs did not reach fnmatch (or the shim no longer sees it)
                for k, v in ll.items():
                    if v.isdigit() and k not in ("hostile", "active"):
                        loc["calls"][k] = loc["calls"].get(k, 0) + int(v)
                loc["setlocale_args"].update(x for x in ll.get("setlocale_args", "-").split(",") if x and x != "-")
                # a packer that selects a locale other than "C" / "POSIX" (setlocale(cat, "") takes it from LANG / LC_*) makes fnmatch, the
                # ctype tables, strcoll, strtod ... answer by the environment: a violation whether or not this input's image changes
                sl_bad = sorted(x for x in ll.get("setlocale_args", "-").split(",")
                                if x and x != "-" and x.split(":", 1)[-1] not in ("NULL", "C", "POSIX"))
                if sl_bad:
                    loc["setlocale_violations"] = loc.get("setlocale_violations", 0) + 1
                    bad += 1
                    first = ("sl", Path(cmd[0]).name) not in loc
                    loc[("sl", Path(cmd[0]).name)] = True
                    if first: ctx.violation("tool-setlocale:" + Path(cmd[0]).name,
                                  "%s (%s) selects a locale from the environment: setlocale/newlocale called with %s (category:locale; \"\" = take it "
                                  "from LANG/LC_*) - from then on fnmatch (glob -name, sort file globs), the ctype tables, strcoll and the number "
                                  "parsers answer by the caller's environment; image %s the reference image under the hostile locale shim" % (
                                      Path(cmd[0]).name, flavour, sl_bad, "equals" if (rc == 0 and got == ref) else "DIFFERS from"),
                                  {"kind": "tool", "seed": ctx.seed, "tier": ctx.tier, "case": ci, "flavour": flavour, "comp": comp,
                                   "variant": "plain", "extra": lextra, "common": common, "env": lenv, "umask": 0o022, "cwd": str(ctx.scratch),
                                   "prefix": [], "stderr": err[-1500:], "setlocale_args": sl_bad}, found_input=(rc != 0 or got != ref))
                loc["env_names"].update(x for x in ll.get("env_names", "-").split(",") if x and x != "-")
                if rc != 0 or got != ref:
                    loc["image_mismatches"] += 1
                    bad += 1
                    if bad <= 6:
                        ctx.violation("tool-locale:" + vlib.sha(" ".join(cmd))[:12],
                                      "%s (%s, %s) under a hostile locale / time zone (LD_PRELOAD shim: setlocale accepted, strcoll reversed and case folded, "
                                      "Turkish case mapping, ',' as decimal point, UTC+13:45): %s; locale-sensitive calls made: %s" % (
                                          Path(cmd[0]).name, flavour, comp,
                                          "packer failed (rc=%s): %s" % (rc, err[-300:]) if rc != 0 else "image differs from the reference image",
                                          {k: v for k, v in ll.items() if v.isdigit() and int(v) > 0 and k not in ("getenv", "hostile", "active")}),
                                      {"kind": "tool", "seed": ctx.seed, "tier": ctx.tier, "case": ci, "flavour": flavour, "comp": comp,
                                       "variant": "plain", "extra": lextra, "common": common, "env": lenv, "umask": 0o022, "cwd": str(ctx.scratch),
                                       "prefix": [], "stderr": err[-1500:]})
                # SOURCE_DATE_EPOCH unset, two different wall clocks: the images must not differ (nothing reads the clock)
                shas = []
                for ft in ("1", "2000000000"):
                    out = ctx.scratch / "c02_out.sqfs"
                    if out.exists():
                        out.unlink()
                    cmd, stdin = tool_cmd(builds, "plain", flavour, inp, out, comp, common + ["-j", "3"])
                    if tlog.exists():
                        tlog.unlink()
                    e = {"LD_PRELOAD": str(builds["timeshim"]), "C02_FAKE_TIME": ft, "C02_TIME_LOG": str(tlog), "TZ": rng.choice(ENV_CHOICES["TZ"])}
                    env_full = ctx.san_env(e)
                    env_full.pop("SOURCE_DATE_EPOCH", None)
                    f = open(stdin, "rb") if stdin else subprocess.DEVNULL
                    try:
                        r = subprocess.run(cmd, stdin=f, stdout=subprocess.PIPE, stderr=subprocess.PIPE, env=env_full, cwd=str(ctx.scratch), timeout=600)
                        rc_clock = r.returncode
                    except subprocess.TimeoutExpired:
                        rc_clock = -999
                    if stdin:
                        f.close()
                    shas.append((rc_clock, sha_file(out)))
                    clock_account(tlog, Path(cmd[0]).name)
                    runs += 1
                if shas[0] != shas[1] or shas[0][0] != 0:
                    bad += 1
                    if bad <= 6:
                      ctx.violation("tool-clock:%s:%s:%d" % (flavour, comp, ci), "with SOURCE_DATE_EPOCH unset the image depends on the wall clock "
                                  "(time 1 vs 2000000000): %s vs %s" % (shas[0], shas[1]),
                                  {"kind": "tool", "seed": ctx.seed, "tier": ctx.tier, "case": ci, "flavour": flavour, "comp": comp,
                                   "variant": "plain", "extra": ["-j", "3"], "common": common, "env": {"LD_PRELOAD": "x", "C02_FAKE_TIME": "2000000000", "SOURCE_DATE_EPOCH": SDE},
                                   "umask": 0o022, "cwd": str(ctx.scratch), "prefix": [], "stderr": ""})
                # ThreadSanitizer build: reports are results
                if "tsan" in builds and (flavour in ("packdir", "tar")):
                    for (j, q) in ([(4, 3)] if quick else [(4, 3), (8, None), (2, 1)]):
                        out = ctx.scratch / "c02_out.sqfs"
                        if out.exists():
                            out.unlink()
                        extra = ["-j", str(j)] + (["-Q", str(q)] if q else [])
                        cmd, stdin = tool_cmd(builds, "tsan", flavour, inp, out, comp, common + extra)
                        env = {"SOURCE_DATE_EPOCH": SDE, "C02_PERTURB_SEED": str(rng.randrange(1 << 30)), "C02_PERTURB_US": "100"}
                        rc, err = run_tool(ctx, cmd, stdin, env, str(ctx.scratch), 0o022, [], timeout=600)
                        tsan_runs += 1
                        runs += 1
                        got = sha_file(out)
                        if "ThreadSanitizer" in err:
                            tsan_reports += 1
                            m = re.search(r"WARNING: ThreadSanitizer: ([^\n]*)\n((?:.*\n){0,14})", err)
                            ctx.violation("tsan:" + vlib.sha(m.group(0) if m else err[:300])[:12],
                                          "ThreadSanitizer report in %s -j %d: %s" % (Path(cmd[0]).name, j, (m.group(0) if m else err[:600])[:900]),
                                          {"kind": "tool", "seed": ctx.seed, "tier": ctx.tier, "case": ci, "flavour": flavour, "comp": comp,
                                           "variant": "tsan", "extra": extra, "common": common, "env": env, "umask": 0o022, "cwd": str(ctx.scratch), "prefix": [],
                                           "stderr": err[-3000:]})
                        elif rc != 0 or got != ref:
                            bad += 1
                            if bad <= 6:
                              ctx.violation("tool-tsan:" + vlib.sha(" ".join(cmd))[:12],
                                          "TSan build: rc=%s, image %s the serial build's" % (rc, "equals" if got == ref else "differs from"),
                                          {"kind": "tool", "seed": ctx.seed, "tier": ctx.tier, "case": ci, "flavour": flavour, "comp": comp,
                                           "variant": "tsan", "extra": extra, "common": common, "env": env, "umask": 0o022, "cwd": str(ctx.scratch), "prefix": [],
                                           "stderr": err[-1500:]})
        shutil.rmtree(inp["dir"], ignore_errors=True)
    # instrumentation that silently stopped working is not a pass
    if untraced or unperturbed or (runs and delays == 0) or loc["log_missing"]:
        bad += 1
        ctx.violation("infra:tool-instrumentation-missing",
                      "tool level: %d successful runs left no complete pool trace (the -Wl,--wrap=thread_pool_create wrapper is not bound), %d runs did "
                      "not see the scheduling perturbation, %d delays were applied in total, %d runs under the locale shim left no call log" % (
                          untraced, unperturbed, delays, loc["log_missing"]),
                      {"kind": "infra", "untraced": untraced, "unperturbed": unperturbed, "delays": delays, "locale_log_missing": loc["log_missing"]},
                      found_input=False)
    if clock["runs"] == 0 or clock["bound"] != clock["runs"]:
        bad += 1
        ctx.violation("infra:tool-instrumentation-missing",
                      "tool level: of %d packer runs under the clock shim (LD_PRELOAD harness/shim_c02_time.c) %d left no readable record file and %d "
                      "record files lack the `bound` record of the packer process: the faked wall clock was not in effect there, `0 clock reads` "
                      "says nothing" % (clock["runs"], clock["log_unreadable"], clock["unbound"]),
                      {"kind": "infra", "clock_shim_runs": clock["runs"], "clock_shim_bound_runs": clock["bound"],
                       "clock_log_unreadable": clock["log_unreadable"], "clock_shim_unbound": clock["unbound"]}, found_input=False)
    missing = [c for c in COMPRESSORS if c not in comps_seen]
    if missing:
        bad += 1
        ctx.violation("infra:compressor-not-covered", "tool level: compressors never used: %s" % missing, {"kind": "infra", "missing": missing}, found_input=False)
    avail = installed_locales()
    stats["locale"] = {
        "installed_locales": avail,
        "LC_ALL_values_that_are_really_another_locale": [v for v in ENV_CHOICES["LC_ALL"] if v in avail and v not in ("C", "POSIX", "C.utf8", "C.UTF-8")],
        "note": "LC_ALL values that are not installed fall back to the C locale; a non-C locale is therefore emulated by harness/shim_c02_locale.c "
                "(hostile collation / case mapping / ctype / decimal point / time zone behind setlocale, strcoll, strxfrm, strcasecmp, the ctype "
                "tables, localeconv, localtime, mktime)",
        "selftest": stats.get("locale_shim_selftest"), "runs_under_hostile_shim": loc["runs"], "image_mismatches": loc["image_mismatches"],
        "calls_recorded": dict(sorted(loc["calls"].items())),
        "locale_sensitive_calls_made": {k: v for k, v in sorted(loc["calls"].items()) if v > 0 and k not in ("getenv", "umask", "getcwd")},
        "setlocale_arguments": sorted(loc["setlocale_args"]), "runs_in_which_a_locale_was_selected": loc.get("setlocale_violations", 0),
        "fnmatch_calls_under_the_shim": loc["calls"].get("fnmatch", 0),
        "glob_inputs": "flavours packdir-sort (-S sort file with [glob] / [glob_no_path] lines) and globfile-sort (pack file of `glob ... -name` "
                       "lines + the sort file): bracket ranges [a-z] [A-Z] [a-Z] [A-z] [f-i]*_[H-J], high-byte ranges, [[:upper:]]",
        "environment_variables_asked_for": sorted(loc["env_names"]),
        "name_heads": NAME_HEADS}
    bad += scale_cases(ctx, builds, stats)
    runs += 6
    if not quick:
        bad += big_case(ctx, builds, stats)
        runs += 3
    sde_bad = sde_level(ctx, builds, stats)
    stats["tool"] = {
        "runs": runs, "input_sets": ncases, "flavours": flavours, "jobs": [str(j) for j in jobs_list], "backlogs": [str(q) for q in q_list],
        "image_mismatches": bad, "distinct_completion_orders": sum(len(v) for v in orders.values()),
        "configurations_with_more_than_one_completion_order": sum(1 for v in orders.values() if len(v) > 1),
        "runs_with_overtaking_blocks": overtakes, "consecutive_blocks_started_by_different_workers": handoffs,
        "compressor_options": sorted(xopts_seen)[:40], "compressors_used": sorted(comps_seen), "perturbation_delays_applied": delays,
        "locale": stats.get("locale", {}), "data_area_beyond_4GiB": stats.get("big", "thorough tier only"),
        "scale_cases": stats.get("scale_cases"), "worker_counts_seen": sorted(worker_counts, key=lambda x: int(x or 0)),
        "tsan_build": stats.get("tsan_build"), "tsan_runs": tsan_runs, "tsan_reports": tsan_reports,
        "clock_reads_intercepted": sum(clock["reads"].values()), "clock_reads_by_entry_point": dict(sorted(clock["reads"].items())),
        "clock_shim_runs": clock["runs"], "clock_shim_bound_runs": clock["bound"], "clock_shim_logs_unreadable": clock["log_unreadable"],
        "clock_selftest": stats.get("clock_selftest"),
        "clock_shim_scope": "time, gettimeofday, clock_gettime(CLOCK_REALTIME/_COARSE/TAI), timespec_get, ftime; a raw syscall or a direct vDSO "
                            "call is not intercepted (the packers contain neither)",
        "source_date_epoch_cases": stats.get("sde_cases", 0),
        "environment": "TZ x LC_ALL (set / empty) x LANG x LC_COLLATE x LC_CTYPE x umask x cwd x CPU affinity (taskset) x faked clock (LD_PRELOAD) x SOURCE_DATE_EPOCH fixed",
        "wall_s": round(time.time() - t0, 1)}
    stats["evaluations"] += runs
    stats["disagreements"] += bad + tsan_reports + sde_bad
    stats["samples"] += samples



def sha_file_big(p):
    try:
        h = hashlib.sha256()
        with open(p, "rb") as f:
            while True:
                b = f.read(1 << 24)
                if not b:
                    break
                h.update(b)
        return h.hexdigest()
    except OSError:
        return "<no image>"


SCALE_WORDS = ("block", "pool", "worker", "fragment", "inode", "table", "squash", "deflate", "queue", "ticket", "backlog", "super",
               "xattr", "dir", "index", "sparse", "tail", "hash", "export", "id", "the", "of", "and", "a", "to", "in", "is", "0x", "==", "->")


def scale_input(path, nblocks, tail, seed):
    """a text-like, compressible file of nblocks * 4096 + tail bytes without a zero block and without two equal 4096 byte blocks: every
    4 KiB starts with a line that holds its number, the rest is a window into 4 MiB of seeded pseudo-random words whose offset moves
    with the block number.  Written 256 blocks at a time (bytes operations only)"""
    import random
    rng = random.Random("C02/scale/%d" % seed)
    words = [w.encode() for w in SCALE_WORDS] + [b"%x" % rng.getrandbits(24) for _ in range(400)]
    parts, n = [], 0
    while n < (4 << 20) + 8192:
        w = rng.choice(words) + (b"\n" if rng.random() < 0.12 else b" ")
        parts.append(w)
        n += len(w)
    pool = b"".join(parts)
    span = len(pool) - 4096
    with open(path, "wb") as f:
        for base in range(0, nblocks, 256):
            chunk = []
            for i in range(base, min(base + 256, nblocks)):
                head = b"== block %08d ==\n" % i
                off = (i * 4099) % span
                chunk.append(head + pool[off:off + 4096 - len(head)])
            f.write(b"".join(chunk))
        f.write((b"tail of %d blocks\n" % nblocks + pool)[:tail])
    return nblocks * 4096 + tail


def scale_cases(ctx, builds, stats, only=None):
    """quick and thorough tier: block counts the small input sets never reach.  One ~300 MiB file packed with -b 4096 (more than 2^16
    blocks: every 16 bit block counter / index would wrap) and with -b 1M (300 blocks and a tail end), -c lz4; the serial-pool build's
    image against threaded builds (-j 4 under seeded delays, -j 16 -Q 3 with the first worker held back).  -> number of mismatches"""
    import struct
    t_all = time.time()
    d = ctx.scratch / "c02scale"
    if d.exists():
        shutil.rmtree(d)
    (d / "root").mkdir(parents=True)
    nblocks, tail = 76800, 1234
    t0 = time.time()
    size = scale_input(d / "root" / "a_text", nblocks, tail, ctx.seed)
    (d / "root" / "b_small").write_bytes(b"a second file, so that the fragment block holds two tail ends\n" * 20)
    for n, t in (("a_text", 1500000001), ("b_small", 1500000002), ("", 1500000003)):
        os.utime(d / "root" / n if n else d / "root", (t, t))
    gen_s = round(time.time() - t0, 1)
    # no zero block, no two equal blocks (otherwise the sparse / de-duplication paths would shrink the case)
    seen, zero, dup = set(), 0, 0
    with open(d / "root" / "a_text", "rb") as f:
        while True:
            b = f.read(4096)
            if len(b) < 4096:
                break
            h = hash(b)
            dup += h in seen
            seen.add(h)
            zero += b.count(0) == 4096
    cases = [("blocks-64k", 4096, size // 4096), ("block-1M", 1 << 20, size >> 20)]
    configs = [("serial", [], {}),
               ("plain", ["-j", "4"], {"C02_PERTURB_SEED": str(7 + ctx.seed), "C02_PERTURB_MODE": "0", "C02_PERTURB_US": "20"}),
               ("plain", ["-j", "16", "-Q", "3"], {"C02_PERTURB_SEED": str(8 + ctx.seed), "C02_PERTURB_MODE": "1", "C02_PERTURB_FIRST_MS": "20"})]
    bad, res = 0, []
    for name, B, want_blocks in cases:
        if only and name != only:
            continue
        t0 = time.time()
        shas, submitted, bytes_used = [], [], None
        for variant, extra, env in configs:
            out, trace = d / "out.sqfs", d / "trace.txt"
            for p in (out, trace):
                if p.exists():
                    p.unlink()
            cmd = [str(builds[variant]["gensquashfs"]), "-q", "-f", "-c", "lz4", "-b", str(B), "-D", str(d / "root")] + extra + [str(out)]
            e = {"SOURCE_DATE_EPOCH": SDE, "C02_TRACE_FILE": str(trace)}
            e.update(env)
            rc, err = run_tool(ctx, cmd, None, e, str(ctx.scratch), 0o022, [], timeout=300)
            sha = sha_file_big(out)
            shas.append((rc, sha))
            tr = read_trace(trace)
            submitted.append(int(tr.get("submitted", "-1")) if tr.get("submitted", "").isdigit() else -1)
            try:
                with open(out, "rb") as f:
                    f.seek(40)
                    bytes_used = struct.unpack("<Q", f.read(8))[0]
            except Exception:
                bytes_used = None
            why = None
            if rc != 0:
                why = "packer failed (rc=%s): %s" % (rc, err[-300:])
            elif tr.get("fifo") == "0":
                why = "the pool handed items back out of submission order"
            elif sha != shas[0][1]:
                why = "image differs from the serial-pool build's image (sha256 %s… vs %s…)" % (sha[:16], shas[0][1][:16])
            if why:
                bad += 1
                ctx.violation("tool-scale:%s:%s" % (name, vlib.sha(" ".join(extra) + variant)[:12]),
                              "gensquashfs -c lz4 -b %d %s (%s build) on one %d byte text file (%d blocks): %s" % (B, " ".join(extra), variant, size, want_blocks, why),
                              {"kind": "tool-scale", "case": name, "seed": ctx.seed, "variant": variant, "extra": extra, "env": env, "stderr": err[-1500:]})
        # the case is only worth its name if that many blocks really went through the pool and the data was neither stored nor folded away
        if zero or dup or min(submitted) < want_blocks or (name == "blocks-64k" and min(submitted) <= 65536) or \
                bytes_used is None or not (size // 20 < bytes_used < size * 9 // 10):
            bad += 1
            ctx.violation("infra:tool-scale-not-reached", "tool level, scale case %s: the input has %d zero and %d repeated blocks, the pool saw %s blocks "
                          "(wanted: at least %d%s), image size %s for %d bytes of input (wanted: compressed, between 5%% and 90%%)" % (
                              name, zero, dup, submitted, want_blocks, " and more than 65536" if name == "blocks-64k" else "", bytes_used, size),
                          {"kind": "infra", "case": name, "submitted": submitted, "bytes_used": bytes_used}, found_input=False)
        res.append({"case": name, "block_size": B, "blocks": want_blocks, "blocks_through_the_pool": submitted, "bytes": size, "image_bytes": bytes_used,
                    "configs": ["%s %s" % (v, " ".join(x)) for v, x, _ in configs], "sha256": shas[0][1][:16], "seconds": round(time.time() - t0, 1)})
    shutil.rmtree(d, ignore_errors=True)
    stats["scale_cases"] = {"input": "one file of %d blocks of 4096 bytes + %d bytes, seeded word text, no zero block, no two equal blocks; a 1300 byte second "
                                     "file" % (nblocks, tail), "generation_s": gen_s, "cases": res, "mismatches": bad, "wall_s": round(time.time() - t_all, 1)}
    return bad


def big_case(ctx, builds, stats, replay_only=None):
    """thorough tier: a data area beyond 4 GiB.  One 4.3 GiB file of incompressible data (a 64 MiB pseudo-random chunk repeated: there is
    no block-level de-duplication, lz4 stores every block raw), then a two-block file whose blocks start beyond 2^32 and a tail end whose
    fragment block lies beyond 2^32; serial-pool build vs. threaded runs.  -> number of mismatches"""
    import random, struct
    t0 = time.time()
    d = ctx.scratch / "c02big"
    if d.exists():
        shutil.rmtree(d)
    (d / "root").mkdir(parents=True)
    rng = random.Random("C02/big")
    chunk = rng.randbytes(64 << 20)
    with open(d / "root" / "a_big", "wb") as f:
        for _ in range(69):
            f.write(chunk)
        f.write(chunk[:12345])
    (d / "root" / "b_small").write_bytes(rng.randbytes(200000))
    (d / "root" / "c_tail").write_bytes(b"tail end beyond four gigabytes\n")
    for n, t in (("a_big", 1500000001), ("b_small", 1500000002), ("c_tail", 1500000003), ("", 1500000004)):
        os.utime(d / "root" / n if n else d / "root", (t, t))
    size = os.path.getsize(d / "root" / "a_big")
    configs = [("serial", [], {}), ("plain", ["-j", "4"], {"C02_PERTURB_SEED": "7", "C02_PERTURB_MODE": "2"}),
               ("plain", ["-j", "2", "-Q", "3"], {"C02_PERTURB_SEED": "8", "C02_PERTURB_MODE": "0", "C02_PERTURB_US": "200"})]
    shas, bad = [], 0
    bytes_used = None
    for variant, extra, env in configs:
        out = d / "out.sqfs"
        if out.exists():
            out.unlink()
        cmd = [str(builds[variant]["gensquashfs"]), "-q", "-f", "-c", "lz4", "-b", "1048576", "-D", str(d / "root")] + extra + [str(out)]
        e = {"SOURCE_DATE_EPOCH": SDE}
        e.update(env)
        rc, err = run_tool(ctx, cmd, None, e, str(ctx.scratch), 0o022, [], timeout=1800)
        sha = sha_file_big(out)
        shas.append((rc, sha))
        try:
            with open(out, "rb") as f:
                f.seek(40)
                bytes_used = struct.unpack("<Q", f.read(8))[0]
        except Exception:
            bytes_used = None
        if rc != 0 or sha != shas[0][1] or bytes_used is None or bytes_used <= (1 << 32):
            bad += 1
            ctx.violation("tool-big:" + vlib.sha(" ".join(extra) + variant)[:12],
                          "data area beyond 4 GiB (one %d byte file of incompressible data, -c lz4 -b 1M): %s %s: rc=%s, image %s, bytes_used=%s" % (
                              size, variant, " ".join(extra), rc, "equals the serial-pool build's" if sha == shas[0][1] else "differs from the serial-pool build's", bytes_used),
                          {"kind": "tool-big", "variant": variant, "extra": extra, "env": env, "stderr": err[-1500:]})
    shutil.rmtree(d, ignore_errors=True)
    stats["big"] = {"input_bytes": size, "bytes_used": bytes_used, "runs": len(configs), "mismatches": bad, "sha256": shas[0][1][:16], "wall_s": round(time.time() - t0, 1),
                    "what": "4.3 GiB of stored data; the second file's blocks and the fragment block lie beyond 2^32"}
    return bad


def sde_level(ctx, builds, stats):
    """`get_source_date_epoch` / `--defaults mtime=` against Sqfs/Model/BuildEnv.lean: the super block's modification_time"""
    import struct
    d = ctx.scratch / "c02sde"
    (d / "root").mkdir(parents=True, exist_ok=True)
    (d / "root" / "f").write_bytes(b"hello")
    cases = [(None, None), ("", None), ("0", None), ("12", None), ("007", None), ("4294967295", None), ("4294967296", None),
             ("99999999999999999999", None), ("12a", None), ("-5", None), (" 7", None), ("1600000000", None),
             ("1600000000", "77"), (None, "4294967295"), ("abc", "5")]
    lines = []
    for sde, dm in cases:
        lines.append("mtime %s %s 0 0" % ("none" if sde is None else hx(sde.encode()), "-" if dm is None else dm))
    model = ctx.driver(["c02"], "\n".join(lines) + "\n")
    bad = 0
    for (sde, dm), m in zip(cases, model):
        out = d / "o.sqfs"
        env = {}
        if sde is not None:
            env["SOURCE_DATE_EPOCH"] = sde
        cmd = [str(builds["san"]["gensquashfs"]), "-q", "-f", "-D", str(d / "root")] + (["-d", "mtime=%s" % dm] if dm else []) + [str(out)]
        e = ctx.san_env(env)
        if sde is None:
            e.pop("SOURCE_DATE_EPOCH", None)
        r = subprocess.run(cmd, stdout=subprocess.PIPE, stderr=subprocess.PIPE, env=e)
        try:
            got = struct.unpack("<I", out.read_bytes()[8:12])[0]
        except Exception:
            got = None
        want = int(m.split()[0]) if m and m.split()[0].isdigit() else None
        if r.returncode != 0 or got != want:
            bad += 1
            if bad <= 3:
              ctx.violation("sde:%s:%s" % (sde, dm), "super block modification_time with SOURCE_DATE_EPOCH=%r --defaults mtime=%r: real %r, model %r (rc=%d)" % (
                sde, dm, got, want, r.returncode), {"kind": "sde", "sde": sde, "defaults_mtime": dm, "real": got, "model": m}, found_input=False)
    stats["sde_cases"] = len(cases)
    shutil.rmtree(d, ignore_errors=True)
    return bad


# --------------------------------------------------------------------------------------------------- run / replay
def run(ctx):
    ok, problems = vlib.proof_gate(ctx, MODULE, REQUIRED)
    if not ok:
        ctx.violation("proof:C02", "the Lean development of C02 does not check: %s" % "; ".join(p[:300] for p in problems)[:1500],
                      {"broken": problems}, found_input=False)
    stats = {"evaluations": 0, "disagreements": 0, "samples": []}
    h, hs = unit_level(ctx, stats)
    script_level(ctx, stats, h, hs)
    comp_level(ctx, stats)
    tool_level(ctx, stats)
    ctx.cov.update({
        "evaluations": stats["evaluations"],
        "distinct_nontrivial": stats["unit"]["distinct_nontrivial_workloads"],
        "rule": "a workload is non-trivial when it has a fragment-block overflow, a fragment or whole-file deduplication hit, a sparse "
                "block or a file of more than two blocks (measured on the serial build's output)",
        "samples": stats["samples"], "disagreements_checked": stats["disagreements"], "unit_level": stats["unit"],
        "tool_level": stats.get("tool", {}), "api_scripts_and_failing_compressor": stats.get("scripts", {}),
        "compressor_level": stats.get("compressors", {}),
        "input_distribution": "block sizes 4..64 (big: 64..256), 1..12 (big: 10..40) files of k*B-1/k*B/k*B+1 bytes and short tails, "
                              "random / run-length-compressible / two-letter / all-zero contents, duplicates, shared heads and tails, "
                              "zero blocks and zero tails, all 32 user flag sets, xxh32 truncated to 32/8/2/0 bits, toy codec or none, "
                              "append chunk sizes 1..whole file"})
    return ctx.finish(LEVEL, trusted_extra=[
        "harness/sched.c + shim_sched.h (cooperative scheduler standing in for libpthread), harness/h_c02.c (toy codec, fake failing "
        "codec, memory file, logging block writer, link-time wrapper of thread_pool_create that records submit/completion/dequeue order), "
        "harness/h_c02_comp.c, harness/c02_pooltrace.c, harness/weak_xxh.c",
        "the block codec contract (what the compressor produced, the uncompressor restores; a compressed block is shorter), block sizes "
        "below 2^24 and the PURITY of do_block (its result is a function of the block alone, whatever the compressor object compressed "
        "before: Sqfs.BlockProc.StatefulCodec.HistoryIndependent) are hypotheses of the theorems; zlib, liblzma, liblz4 and libzstd are "
        "third-party code: their history independence is observed on seeded samples (compressor level), not proved"],
        assumptions=["schedule_independent / jobs_independent: worker callbacks do not fail (a failing compressor is covered by "
                     "failure_deterministic_partial and the failing-codec runs: sync() ends with get_status since /repo 69db961; a tree without it is reported)",
                     "no allocation failure (C13)"])


def replay(ctx, path):
    body = json.loads(open(path).read())
    rp = body.get("replay", {})
    kind = rp.get("kind")
    if kind == "unit-state":
        h, hs = build_unit(ctx)
        a = ctx.driver(["c02"], rp["model_line"] + "\n")[0]
        b = vlib.sh([str(hs)], input=rp["harness_line"] + "\n", env=ctx.san_env(), timeout=600).stdout.strip()
        _, tr = split_result(b)
        st = dict(kv.split("=") for kv in a.split()[1:]) if a.startswith("ok ") else {}
        print("model:", a)
        print("real: ", b[-300:])
        fail = (tr.get("sub"), tr.get("maxq")) != (st.get("sub"), st.get("maxq"))
        print("REPRODUCED" if fail else "not reproduced")
        return 1 if fail else 0
    if kind in ("unit", "unit-serial", "unit-model"):
        h, hs = build_unit(ctx)
        if kind == "unit":
            a = vlib.sh([str(h)], input=rp["line"] + "\n", env=ctx.san_env(), timeout=600).stdout.strip()
            b = vlib.sh([str(hs)], input=rp["serial_line"] + "\n", env=ctx.san_env(), timeout=600).stdout.strip()
            ca, tr = split_result(a)
            cb, _ = split_result(b)
            print("threaded:", a[:3000])
            print("serial:  ", b[:3000])
            fail = ca != cb or tr.get("dl", "0") != "0" or tr.get("mtx", "0") != "0" or tr.get("fifo", "1") != "1"
        elif kind == "unit-serial":
            outs = [split_result(vlib.sh([str(hs)], input=l + "\n", env=ctx.san_env(), timeout=600).stdout.strip())[0] for l in rp["lines"]]
            for o in outs:
                print("serial:", o[:3000])
            fail = len(set(outs)) != 1
        else:
            a = ctx.driver(["c02"], rp["model_line"] + "\n")[0]
            b = split_result(vlib.sh([str(hs)], input=rp["harness_line"] + "\n", env=ctx.san_env(), timeout=600).stdout.strip())[0]
            print("model:", a[:3000])
            print("real: ", b[:3000])
            fail = a != b
        print("REPRODUCED" if fail else "not reproduced")
        return 1 if fail else 0
    if kind == "comp":
        hc = build_comp(ctx)
        o = vlib.sh([str(hc)], input=rp["line"] + "\n", env=ctx.san_env(), timeout=600).stdout.strip()
        v, toks = comp_check_line(ctx, rp["line"], o)
        print("compressor %s, options %s" % (rp["line"].split()[1], rp.get("options")))
        for i, t in enumerate(toks):
            print("  block %d: worker copy with history / fresh compressor / fresh copy / round trip: %s" % (i, t))
        print("monitor (obsIndependent):", v)
        print("REPRODUCED" if v != "ok" else "not reproduced")
        return 1 if v != "ok" else 0
    if kind == "unit-script":
        h, hs = build_unit(ctx)
        b = split_result(vlib.sh([str(hs)], input=rp["harness_line"] + "\n", env=ctx.san_env(), timeout=600).stdout.strip())[0]
        ms = [ctx.driver(["c02"], l + "\n")[0] for l in rp["model_lines"]]
        print("real (serial pool):     ", b[:3000])
        print("model, sync() before 69db961 (drain only):  ", ms[0][:3000])
        print("model, current code (sync() ends with get_status): ", ms[1][:3000])
        fail = b not in ms
        print("REPRODUCED" if fail else "not reproduced")
        return 1 if fail else 0
    if kind == "unit-fail":
        h, hs = build_unit(ctx)
        a = vlib.sh([str(hs if rp.get("ok_serial") else h)], input=rp["ok_line"] + "\n", env=ctx.san_env(), timeout=600).stdout.strip()
        print("run that reported success:", a[:1500])
        if rp.get("err_line"):
            print("run that reported an error:", vlib.sh([str(h)], input=rp["err_line"] + "\n", env=ctx.san_env(), timeout=600).stdout.strip()[:600])
        ca, tr = split_result(a)
        fail = ca.startswith("ok ") and int(tr.get("wfail", "0")) > 0
        print("REPRODUCED: a worker callback failed (wfail=%s) and finish() returned 0" % tr.get("wfail") if fail else "not reproduced")
        return 1 if fail else 0
    if kind == "tool":
        stats = {}
        builds = build_tools(ctx, stats)
        if rp["variant"] not in builds:
            print("variant %s cannot be built here: %s" % (rp["variant"], stats.get("tsan_build")))
            return 0
        quick = rp.get("tier", "quick") == "quick"
        inp = make_inputs(ctx, input_rng(rp["seed"], rp.get("tier", "quick"), rp["case"]), quick, rp["case"])
        ref_out, out = ctx.scratch / "c02_ref.sqfs", ctx.scratch / "c02_out.sqfs"
        common = rp.get("common", [])
        cmd, stdin = tool_cmd(builds, "serial", rp["flavour"], inp, ref_out, rp["comp"], common)
        rc0, err0 = run_tool(ctx, cmd, stdin, {"SOURCE_DATE_EPOCH": SDE}, str(ctx.scratch), 0o022, [])
        env = dict(rp["env"])
        if "LD_PRELOAD" in env:
            env["LD_PRELOAD"] = str(builds["timeshim"])
            env["C02_TIME_LOG"] = str(ctx.scratch / "c02_time.log")
        env["C02_TRACE_FILE"] = str(ctx.scratch / "c02_trace.txt")
        cwd = rp["cwd"] if os.path.isdir(rp["cwd"]) else str(ctx.scratch)
        cmd, stdin = tool_cmd(builds, rp["variant"], rp["flavour"], inp, out, rp["comp"], common + rp["extra"])
        rc, err = run_tool(ctx, cmd, stdin, env, cwd, rp["umask"], rp["prefix"], timeout=600)
        a, b = sha_file(ref_out), sha_file(out)
        print("serial build  rc=%s sha256=%s" % (rc0, a))
        print("this config   rc=%s sha256=%s  (%s)" % (rc, b, " ".join(rp["prefix"] + cmd[1:])))
        print("pool trace:", read_trace(ctx.scratch / "c02_trace.txt"))
        if "ThreadSanitizer" in err:
            print(err[-3000:])
        fail = rc != 0 or a != b or "ThreadSanitizer" in err
        print("REPRODUCED" if fail else "not reproduced (the failure may need another schedule: repeat, or vary C02_PERTURB_SEED)")
        return 1 if fail else 0
    if kind == "tool-big":
        stats = {}
        builds = build_tools(ctx, stats)
        n = len(ctx.violations)
        big_case(ctx, builds, stats)
        print(stats.get("big"))
        fail = len(ctx.violations) > n
        print("REPRODUCED" if fail else "not reproduced")
        return 1 if fail else 0
    if kind == "tool-scale":
        stats = {}
        builds = build_tools(ctx, stats)
        ctx.seed = rp.get("seed", ctx.seed)
        n = len(ctx.violations)
        scale_cases(ctx, builds, stats, only=rp.get("case"))
        print(stats.get("scale_cases"))
        fail = len(ctx.violations) > n
        print("REPRODUCED" if fail else "not reproduced (the failure may need another schedule: repeat)")
        return 1 if fail else 0
    if kind == "sde":
        stats = {}
        builds = build_tools(ctx, stats)
        bad = sde_level(ctx, builds, stats)
        print("REPRODUCED" if bad else "not reproduced")
        return 1 if bad else 0
    print("nothing to replay for kind %r" % kind)
    return 0
