"""
C18, funnel clause: "all tools funnel archive member names, link targets, command line paths and unpack paths
through canonicalize_name / is_filename_sane" - and test the result correctly.

For every call site that checks/c18_ast.py finds in the clang AST of the working tree there must be a probe
below (COVER); a site without one, or a probe that evaluated nothing, is an infrastructure failure.  A probe drives
the real tool (ASan+UBSan build of the working tree) or the real library entry (harness/h_c18_lib.c) that leads to
that call site with inputs taken from the model's reject set (a ".." component in every position, plain and
decorated with "//", "./", leading and trailing slashes) and accept set (decorations of a clean path, and the
near misses "...", "..a", "a..", ".a"), and compares
  * accept / reject                     with `canonicalize s = none`            (Lean model, via `sqfsmodel c18`)
  * the name the tool stored / used     with `canonicalize s = some r`          (= specCanon s by canon_eq_spec)
The stored name is read back without code of the tree under verification wherever an image is produced
(checks/c18_sqfsls.py) and from the tool's own report otherwise (documented per probe).

Site classes
  A  fed by external input (tar member, pack/sort/xattr file line, command line option): reject and accept sets
  B  fed by fstree_get_path()/sqfs_tree_node_get_path() of an already validated tree: input is always "/" + clean
     path, the reject set is unreachable (the guards that make it so are the S sites and the A sites); the probe
     compares the used name with `canonicalize ("/" ++ p)` = p for every node of a reference tree
  S  is_filename_sane on names read from an image: forged images (tools/sqfs_forge.py) with entry names from the
     reject set {".", "..", "a/b", "/", "x/", "/x"} and the accept set {"...", "..a", "a..", ".a", "a"}
     The same images are given to sqfs2tar (probe sane_s2t; archive parsed from its raw records): on the pinned tree
     it has no such call and writes the forged names into member names - known finding, fixes/C18-sqfs2tar-entry-names.patch
Next to COVER (site -> probes), SHAPES holds the expected AST use shape of every call's result.
"""
import collections, io, itertools, os, subprocess, tarfile, threading
from concurrent.futures import ThreadPoolExecutor
import vlib
from checks import c18_sqfsls
import sqfs_forge

JOBS = 4
DOTDOT = b".."
NEAR_MISS = [b"...", b"..a", b"a..", b".a", b"a.", b"...."]

# reference tree used by most probes (canonical paths; d = directory, f = file with that content)
REF = [(b"c18x", "d", None), (b"c18x/y", "d", None), (b"c18x/y/z", "f", b"content-of-c18x/y/z\n"), (b"c18x/w", "f", b"content-of-c18x/w\n"),
       (b"c18x/...", "d", None), (b"c18x/.../..a", "f", b"content-of-c18x/.../..a\n"), (b"c18q", "d", None), (b"c18q/v", "f", b"content-of-c18q/v\n")]
REF_PATHS = [p for p, _, _ in REF]
REF_FILES = [p for p, k, _ in REF if k == "f"]
REF_DIRS = [p for p, k, _ in REF if k == "d"]


class Tree:
    """a clean tree: entries = [(canonical path, 'd' | 'f', content)] in an order where parents come first"""

    def __init__(self, name, entries):
        self.name, self.entries = name, entries
        self.paths = [p for p, _, _ in entries]
        self.files = [p for p, k, _ in entries if k == "f"]
        self.dirs = [p for p, k, _ in entries if k == "d"]
        self.txt = self.img = self.src_dir = None


def random_tree(rng, name, k):
    """seeded tree for the class B probes: names include the near misses of '.' and '..'"""
    names = [b"a", b"b", b"c", b"dd", b"e.f", b"...", b"..a", b"a..", b".a", b"a.", b"....", b"zz"]
    top = b"c18" + name.encode()        # one distinctive top-level name: a broken rdsquashfs that unpacks to an absolute path is traceable
    dirs, entries, seen = [top], [(top, "d", None)], {top}
    guard = 0
    while len(entries) < k and guard < 40 * k:
        guard += 1
        parent = rng.choice(dirs)
        path = parent + b"/" + rng.choice(names)
        if path in seen or path.count(b"/") > 5:
            continue
        seen.add(path)
        if rng.random() < 0.45:
            entries.append((path, "d", None))
            dirs.append(path)
        else:
            entries.append((path, "f", b"content-of-" + path + b"\n"))
    return Tree(name, entries)


def tok(b):
    return b.hex() if b else "-"


def comps_of(p):
    return p.split(b"/") if p else []


def prefixes(p):
    c = comps_of(p)
    return [b"/".join(c[:i]) for i in range(1, len(c) + 1)]


# ------------------------------------------------------------------------------------------------ input generation
def decorate(rng, comps):
    """a spelling that the specification maps to '/'.join(comps) (the model is asked, never assumed)"""
    out = bytearray(rng.choice([b"", b"", b"/", b"//", b"./", b"/./", b".//", b"././"]))
    for i, c in enumerate(comps):
        out += c
        if i + 1 < len(comps):
            out += rng.choice([b"/", b"/", b"//", b"/./", b"/.//", b"///", b"/././"])
    if comps:
        out += rng.choice([b"", b"", b"/", b"//", b"/.", b"/./", b"//.", b"/././/"])
    return bytes(out) or b"."


def noncanonical(p, kind="f"):
    """a fixed non-canonical spelling of the canonical path p: './' in front, the last separator doubled, './' before
    the last component, a trailing slash on directories"""
    c = comps_of(p)
    return b"./" + (b"/".join(c[:-1]) + b"//./" if len(c) > 1 else b"") + c[-1] + (b"/" if kind == "d" else b"")


def accept_set(rng, bases, n):
    """decorated spellings of the given canonical paths: every base plain once, then random decorations"""
    out = [b for b in bases if b]
    guard = 0
    while len(out) < n and guard < 50 * n:
        guard += 1
        s = decorate(rng, comps_of(rng.choice(bases)))
        if s not in out:
            out.append(s)
    return out


def reject_set(rng, bases, n):
    """'..' as a component in every position of every base: plain ('x/../y') first, then decorated spellings"""
    plain, fancy = [], []
    for b in bases:
        c = comps_of(b)
        for k in range(len(c) + 1):
            cc = c[:k] + [DOTDOT] + c[k:]
            plain.append(b"/".join(cc))
            fancy.append(decorate(rng, cc))
    plain += [DOTDOT]
    fancy += [b"../", b"/..", b"./..", b"../..", b"/../", b".//..//"]
    out = []
    for s in plain + fancy:
        if s not in out:
            out.append(s)
    if len(out) > n:
        # keep one plain spelling per position of the first base, fill up with a seeded sample of the rest
        first = len(comps_of(bases[0])) + 1
        keep = out[:first]
        rest = out[first:]
        rng.shuffle(rest)
        out = keep + rest[:max(0, n - first)]
    return out


def near_miss_set(rng, bases, n):
    """paths with a component that merely looks like '..' ('...', '..a', ...): must be accepted and kept"""
    out = []
    guard = 0
    while len(out) < n and guard < 50 * n:
        guard += 1
        c = comps_of(rng.choice(bases))
        k = rng.randint(0, len(c))
        cc = c[:k] + [rng.choice(NEAR_MISS)] + c[k:]
        s = decorate(rng, cc) if rng.random() < 0.6 else b"/".join(cc)
        if s not in out:
            out.append(s)
    return out


# ------------------------------------------------------------------------------------------------ raw tar read-back
def raw_tar_members(raw):
    """[(member name bytes exactly as stored, type flag byte)] parsed from the 512-byte records themselves: no
    normalisation of any kind (tarfile strips trailing slashes and decodes names).  ustar prefix field, GNU 'L'
    long-name records and the pax 'path' keyword are honoured.  Raises ValueError on a damaged archive."""
    out, off, longname, paxpath = [], 0, None, None
    while off + 512 <= len(raw):
        h = raw[off:off + 512]
        if h == b"\0" * 512:
            break
        stored = int(h[148:156].strip(b"\0 ") or b"0", 8)
        if sum(h[:148]) + 8 * 32 + sum(h[156:]) != stored:
            raise ValueError("bad header checksum at offset %d" % off)
        name = h[0:100].split(b"\0", 1)[0]
        prefix = h[345:500].split(b"\0", 1)[0] if h[257:263] == b"ustar\0" else b""
        typ = h[156:157]
        size = int.from_bytes(h[125:136], "big") if h[124] & 0x80 else int(h[124:136].strip(b"\0 ") or b"0", 8)
        data = raw[off + 512:off + 512 + size]
        if len(data) != size:
            raise ValueError("truncated member at offset %d" % off)
        off += 512 + ((size + 511) // 512) * 512
        if typ == b"L":
            longname = data.split(b"\0", 1)[0]
            continue
        if typ in (b"x", b"X"):
            pos = 0
            while pos < len(data):
                sp = data.index(b" ", pos)
                ln = int(data[pos:sp])
                rec = data[sp + 1:pos + ln - 1]
                pos += ln
                k, _, v = rec.partition(b"=")
                if k == b"path":
                    paxpath = v
            continue
        if typ in (b"g", b"K"):
            continue
        full = paxpath if paxpath is not None else longname if longname is not None else (prefix + b"/" + name if prefix else name)
        out.append((full, typ))
        longname = paxpath = None
    else:
        raise ValueError("no end-of-archive record")
    return out


def hostile_member(name, typ):
    """the property's clauses on an emitted member name: a clean relative path, i.e. no '..', '.' or empty component
    (= the name differs from its canonical form or canonicalisation refuses it; specCanon in plain Python, the same
    function ask_model cross-checks against the Lean model).  A directory member carries one trailing slash."""
    if typ == b"5" and name.endswith(b"/"):
        name = name[:-1]
    cs = name.split(b"/")
    return name == b"" or any(c in (b"", b".", b"..") for c in cs)


# ------------------------------------------------------------------------------------------------ evaluation record
class Eval:
    def __init__(self, probe, kind, inp, expected, observed, ok, detail=""):
        self.probe, self.kind, self.inp, self.expected, self.observed, self.ok, self.detail = probe, kind, inp, expected, observed, ok, detail

    def as_dict(self):
        return {"probe": self.probe, "kind": self.kind, "input": repr(self.inp), "input_hex": tok(self.inp) if isinstance(self.inp, bytes) else None,
                "expected": repr(self.expected), "observed": repr(self.observed), "ok": self.ok, "detail": self.detail[-300:]}


class Funnel:
    def __init__(self, ctx):
        self.ctx = ctx
        self.rng = ctx.rng
        self.d = ctx.scratch / "funnel"
        self.d.mkdir(exist_ok=True)
        self.env = ctx.san_env()
        self.env.pop("SOURCE_DATE_EPOCH", None)        # the reference images carry time stamp 0
        self.n = 10 if ctx.quick() else 40            # inputs per set and site
        self.model = {}                                # bytes -> None | bytes   (canonicalize of the Lean model)
        self.sane = {}                                 # bytes -> bool           (isFilenameSane of the Lean model)
        self._tmp = 0
        self._lock = threading.Lock()
        self.evals = []
        self.counts = collections.Counter()            # (probe, kind) -> evaluations
        self.failed = collections.Counter()            # probe -> failed evaluations
        self.runs = 0
        self.fixture_note = "not run"

    # ---------------------------------------------------------------- plumbing
    def build(self):
        ctx = self.ctx
        shim = self.d / "c18_xshim.o"
        r = vlib.sh(["gcc", "-O1", "-c", str(vlib.HARNESS / "h_c18_xattr_shim.c"), "-o", str(shim)])
        if r.returncode != 0:
            raise vlib.CheckFailure("C18 funnel: xattr shim does not compile: " + r.stderr[-1000:])
        p = ctx.build_tool("gensquashfs", extra_objs=[str(shim)])
        self.gen_shim = p.with_name("gensquashfs_c18xshim")
        p.rename(self.gen_shim)
        self.gen = ctx.build_tool("gensquashfs")
        self.t2s = ctx.build_tool("tar2sqfs")
        self.rd = ctx.build_tool("rdsquashfs")
        self.s2t = ctx.build_tool("sqfs2tar")
        self.diff = ctx.build_tool("sqfsdiff")
        self.lib = ctx.cc("h_c18_lib", ["h_c18_lib.c"], libs=[str(ctx.build_lib())] + vlib.CODEC_LIBS)

    def tmp(self, suffix=""):
        with self._lock:
            self._tmp += 1
            return self.d / ("t%05d%s" % (self._tmp, suffix))

    def run(self, cmd, stdin=None, cwd=None, binary=False):
        """run a tool of the working tree; returns (rc, stdout, stderr); rc 124 = timeout (a result, not a crash of the check)"""
        with self._lock:
            self.runs += 1
        kw = dict(env=self.env, timeout=300, cwd=str(cwd) if cwd else None)
        try:
            if stdin is not None:
                with open(stdin, "rb") as f:
                    r = vlib.sh([os.fsencode(c) if isinstance(c, bytes) else str(c) for c in cmd], stdin=f, text=False, **kw)
            else:
                r = vlib.sh([os.fsencode(c) if isinstance(c, bytes) else str(c) for c in cmd], stdin=subprocess.DEVNULL, text=False, **kw)
        except subprocess.TimeoutExpired as e:
            return 124, b"", ("timeout: %s" % e).encode()
        return r.returncode, r.stdout, r.stderr

    @staticmethod
    def refused(rc):
        return rc != 0 and 0 < rc < 90

    @staticmethod
    def crashed(rc):
        return rc < 0 or rc >= 90

    def listing(self, img):
        """independent read-back of the stored names; None when the image cannot be parsed"""
        try:
            return c18_sqfsls.entries(open(img, "rb").read())
        except (c18_sqfsls.BadImage, OSError, ValueError, subprocess.SubprocessError) as e:
            return "unreadable: %s" % e

    def add(self, probe, kind, inp, expected, observed, ok, detail=b"", keep=True):
        if isinstance(detail, bytes):
            detail = detail.decode(errors="replace")
        with self._lock:
            self.counts[(probe, kind)] += 1
            if not ok:
                self.failed[probe] += 1
            if keep or not ok:
                self.evals.append(Eval(probe, kind, inp, expected, observed, bool(ok), detail.replace("\n", " | ")))

    # ---------------------------------------------------------------- the model's answers
    def ask_model(self, paths, names):
        paths, names = sorted(set(paths)), sorted(set(names))
        lines = ["canon " + tok(p) for p in paths] + ["sane " + tok(n) for n in names]
        if not lines:
            raise vlib.CheckFailure("C18 funnel: no probe input was generated")
        out = self.ctx.driver(["c18"], "\n".join(lines) + "\n")
        if len(out) != len(lines):
            raise vlib.CheckFailure("C18 funnel: model driver answered %d of %d lines" % (len(out), len(lines)))
        for p, l in zip(paths, out[:len(paths)]):
            if l == "fail":
                self.model[p] = None
            elif l.startswith("ok "):
                self.model[p] = b"" if l[3:] == "-" else bytes.fromhex(l[3:])
            else:
                raise vlib.CheckFailure("C18 funnel: model driver answered %r for canon %r" % (l, p))
            # the specification in plain Python must agree (canon_eq_spec); a difference is a broken obligation, not an input
            cs = p.split(b"/")
            want = None if DOTDOT in cs else b"/".join(c for c in cs if c not in (b"", b"."))
            if want != self.model[p]:
                raise vlib.CheckFailure("C18 funnel: Lean model and specification differ on %r: %r vs %r" % (p, self.model[p], want))
        for n, l in zip(names, out[len(paths):]):
            if l not in ("0", "1"):
                raise vlib.CheckFailure("C18 funnel: model driver answered %r for sane %r" % (l, n))
            self.sane[n] = l == "1"
            if self.sane[n] != (n not in (b".", b"..") and b"/" not in n):
                raise vlib.CheckFailure("C18 funnel: Lean model and specification differ on the name %r" % n)

    # ---------------------------------------------------------------- reference material
    def build_tree(self, T):
        """pack-file, image (built by gensquashfs of the working tree, verified with the independent lister) and a
        directory on disk for the clean tree T"""
        d = self.d / ("tree_" + T.name)
        d.mkdir(exist_ok=True)
        lines = []
        T.src_dir = d / "srcdir"
        T.src_dir.mkdir(exist_ok=True)
        for i, (p, k, data) in enumerate(T.entries):
            q = T.src_dir / os.fsdecode(p)
            if k == "d":
                lines.append(b"dir " + p + b" 0755 0 0")
                q.mkdir(parents=True, exist_ok=True)
            else:
                q.parent.mkdir(parents=True, exist_ok=True)
                q.write_bytes(data)
                lines.append(b"file " + p + b" 0644 0 0 " + os.fsencode(str(q)))
        T.txt = d / "tree.txt"
        T.txt.write_bytes(b"\n".join(lines) + b"\n")
        T.img = d / "tree.sqfs"
        rc, out, err = self.run([self.gen, "-F", T.txt, "-f", "-q", T.img])
        ls = self.listing(T.img) if rc == 0 else None
        got = [p for p, _, _, _ in ls] if isinstance(ls, list) else ls
        good = rc == 0 and isinstance(got, list) and sorted(got) == sorted(T.paths)
        self.add("reference", "setup", T.name.encode(), sorted(T.paths), sorted(got) if isinstance(got, list) else got, good, err)
        if not good:
            raise vlib.CheckFailure("C18 funnel: gensquashfs does not build the clean reference tree %s (rc=%s): %s" % (T.name, rc, err[-500:]))
        return T

    def make_reference(self):
        self.T0 = self.build_tree(Tree("ref", REF))
        self.ref_txt, self.ref_img, self.src_dir = self.T0.txt, self.T0.img, self.T0.src_dir
        self.ref_tar = self.d / "ref.tar"
        self.mktar(self.ref_tar, [(p, tarfile.DIRTYPE if k == "d" else tarfile.REGTYPE, None, data or b"") for p, k, data in REF])
        # the same members under non-canonical names ('./c18x//y/'): what tar2sqfs stores, and what --exclude is matched
        # against, must be the canonical name whatever the archive spells
        self.ref_tar_nc = self.d / "ref_nc.tar"
        self.mktar(self.ref_tar_nc, [(noncanonical(p, k), tarfile.DIRTYPE if k == "d" else tarfile.REGTYPE, None, data or b"") for p, k, data in REF])
        self.trees = [self.T0]
        for i in range(3 if self.ctx.quick() else 12):
            T = random_tree(self.rng, "rnd%d" % i, self.rng.randint(4, 14))
            if T.files and T.dirs:
                self.trees.append(self.build_tree(T))

    @staticmethod
    def mktar(path, members):
        """members: (name bytes, type, linkname bytes or None, data)"""
        with tarfile.open(path, "w", format=tarfile.GNU_FORMAT, encoding="utf-8", errors="surrogateescape") as tf:
            for name, typ, link, data in members:
                ti = tarfile.TarInfo(name.decode("utf-8", "surrogateescape"))
                ti.type = typ
                ti.linkname = link.decode("utf-8", "surrogateescape") if link else ""
                ti.size = len(data) if typ == tarfile.REGTYPE else 0
                ti.mode = 0o755 if typ == tarfile.DIRTYPE else 0o644
                tf.addfile(ti, io.BytesIO(data) if typ == tarfile.REGTYPE else None)

    # ================================================================ probes (class A)
    # each `cases_*` returns [(kind, input)], each `probe_*` evaluates one case

    def cases_packfile(self):
        bases = [b"m/n/k", b"m", b"p/q"]
        return ([("reject", s) for s in reject_set(self.rng, bases, self.n)] +
                [("accept", s) for s in accept_set(self.rng, bases, self.n // 2 + 2)] +
                [("accept", s) for s in near_miss_set(self.rng, bases, self.n // 2 + 1)] +
                [("accept", s) for s in (b"/", b".", b"./", b"//.")])

    def probe_packfile(self, kind, s):
        """bin/gensquashfs/src/fstree_from_file.c handle_line: `dir <s> 0755 0 0`; stored name = directories of the image"""
        t = self.tmp()
        (t.with_suffix(".txt")).write_bytes(b"dir " + s + b" 0755 0 0\n")
        rc, out, err = self.run([self.gen, "-F", t.with_suffix(".txt"), "-f", "-q", t.with_suffix(".sqfs")])
        m = self.model[s]
        if self.crashed(rc):
            return self.add("packfile", kind, s, m, "crash rc=%d" % rc, False, err)
        if m is None:
            return self.add("packfile", kind, s, "refused", "refused" if self.refused(rc) else "accepted rc=%d" % rc, self.refused(rc), err)
        ls = self.listing(t.with_suffix(".sqfs")) if rc == 0 else "refused rc=%d" % rc
        got = sorted(p for p, k, _, _ in ls) if isinstance(ls, list) else ls
        self.add("packfile", kind, s, sorted(prefixes(m)), got, got == sorted(prefixes(m)), err)

    def cases_sortfile(self):
        return ([("reject", s) for s in reject_set(self.rng, [b"c18x/y/z", b"c18x/w"], self.n)] +
                [("accept", s) for s in accept_set(self.rng, REF_FILES, self.n)] +
                [("accept", s) for s in near_miss_set(self.rng, [b"c18x/y/z", b"c18q"], self.n // 2)])

    def probe_sortfile(self, kind, s):
        """sort_by_file.c decode_filename (the line) and fstree_sort_files (the node path it is compared with):
        `10 <s>`; stored name = the tool's own 'no match for' report, or a silent match with the reference file"""
        t = self.tmp(".sort")
        t.write_bytes(b"10 " + s + b"\n")
        rc, out, err = self.run([self.gen, "-F", self.ref_txt, "-S", t, "-f", "-q", t.with_suffix(".sqfs")])
        m = self.model[s]
        if self.crashed(rc):
            return self.add("sortfile", kind, s, m, "crash rc=%d" % rc, False, err)
        if m is None:
            return self.add("sortfile", kind, s, "refused", "refused" if self.refused(rc) else "accepted rc=%d" % rc, self.refused(rc), err)
        warn = [l for l in err.splitlines() if b"no match for" in l]
        if m in REF_FILES:
            exp, got = "matches " + repr(m), ("matches " + repr(m)) if rc == 0 and not warn else "rc=%d warn=%r" % (rc, warn)
        else:
            exp = "no match for " + repr(m)
            got = ("no match for " + repr(m)) if rc == 0 and len(warn) == 1 and warn[0].endswith(b"'" + m + b"'.") else "rc=%d warn=%r" % (rc, warn)
        self.add("sortfile", kind, s, exp, got, exp == got, err)

    def cases_xattrfile(self):
        return ([("reject", s) for s in reject_set(self.rng, [b"c18x/y/z", b"c18q"], self.n)] +
                [("accept", s) for s in accept_set(self.rng, REF_PATHS, self.n)] +
                [("accept", s) for s in near_miss_set(self.rng, [b"c18x/y/z", b"c18q"], self.n // 2)] +
                [("accept", b"/"), ("accept", b"/./")])

    def probe_xattrfile(self, kind, s):
        """filemap_xattr.c parse_file_name: `# file: <s>`; stored name = the node the pattern is applied to
        ('Applying xattrs for <path>' on stdout) - applied exactly to the node whose path is the model's result"""
        t = self.tmp(".xattr")
        t.write_bytes(b"# file: " + s + b"\nuser.c18=\"v\"\n")
        rc, out, err = self.run([self.gen, "-F", self.ref_txt, "-A", t, "-f", "-q", t.with_suffix(".sqfs")])
        m = self.model[s]
        if self.crashed(rc):
            return self.add("xattrfile", kind, s, m, "crash rc=%d" % rc, False, err)
        if m is None:
            return self.add("xattrfile", kind, s, "refused", "refused" if self.refused(rc) else "accepted rc=%d" % rc, self.refused(rc), err)
        applied = [l.split(b"Applying xattrs for ", 1)[1].split(b"  ")[0] for l in out.splitlines() if b"Applying xattrs for " in l]
        exp = [b"/" + m] if (m in REF_PATHS or m == b"") else []
        self.add("xattrfile", kind, s, exp, applied if rc == 0 else "rc=%d" % rc, rc == 0 and applied == exp, err)

    def cases_tarmember(self):
        bases = [b"m/n/k", b"m", b"p/q"]
        return ([("reject", s) for s in reject_set(self.rng, bases, self.n)] +
                [("accept", s) for s in accept_set(self.rng, bases, self.n // 2 + 2)] +
                [("accept", s) for s in near_miss_set(self.rng, bases, self.n // 2 + 1)])

    def probe_tarmember(self, kind, s):
        """lib/tar/src/iterator.c it_next via tar2sqfs: one regular member named <s>; stored name = path in the image"""
        t = self.tmp(".tar")
        self.mktar(t, [(s, tarfile.REGTYPE, None, b"data")])
        rc, out, err = self.run([self.t2s, "-f", "-q", t.with_suffix(".sqfs")], stdin=t)
        m = self.model[s]
        if self.crashed(rc):
            return self.add("tarmember", kind, s, m, "crash rc=%d" % rc, False, err)
        if m is None:
            return self.add("tarmember", kind, s, "refused", "refused" if self.refused(rc) else "accepted rc=%d" % rc, self.refused(rc), err)
        ls = self.listing(t.with_suffix(".sqfs")) if rc == 0 else "refused rc=%d" % rc
        got = sorted((p, k) for p, k, _, _ in ls) if isinstance(ls, list) else ls
        exp = sorted([(p, "d") for p in prefixes(m)[:-1]] + [(m, "f")])
        self.add("tarmember", kind, s, exp, got, got == exp, err)

    def cases_tarhardlink(self):
        return ([("reject", s) for s in reject_set(self.rng, [b"c18x/y/z"], self.n)] +
                [("accept", s) for s in accept_set(self.rng, [b"c18x/y/z", b"c18x/.../..a", b"c18q/v"], self.n)])

    def probe_tarhardlink(self, kind, s):
        """lib/fstree/src/fstree.c mknode via tar2sqfs: hard link member 'hl' -> <s>; stored target = the inode 'hl' shares"""
        t = self.tmp(".tar")
        self.mktar(t, [(p, tarfile.DIRTYPE if k == "d" else tarfile.REGTYPE, None, data or b"") for p, k, data in REF] +
                   [(b"hl", tarfile.LNKTYPE, s, b"")])
        rc, out, err = self.run([self.t2s, "-f", "-q", t.with_suffix(".sqfs")], stdin=t)
        m = self.model[s]
        if self.crashed(rc):
            return self.add("tarhardlink", kind, s, m, "crash rc=%d" % rc, False, err)
        if m is None:
            return self.add("tarhardlink", kind, s, "refused", "refused" if self.refused(rc) else "accepted rc=%d" % rc, self.refused(rc), err)
        ls = self.listing(t.with_suffix(".sqfs")) if rc == 0 else "refused rc=%d" % rc
        got = "rc=%d" % rc
        if isinstance(ls, list):
            refs = {p: r for p, _, r, _ in ls}
            same = sorted(p for p, r in refs.items() if p != b"hl" and r == refs.get(b"hl"))
            got = same
        self.add("tarhardlink", kind, s, [m], got, got == [m], err)

    def cases_s2t_root(self):
        bases = [b"p/r", b"p", b"new/root/dir"]
        return ([("reject", s) for s in reject_set(self.rng, bases, self.n)] + [("reject-empty", b"/"), ("reject-empty", b".//"), ("reject-empty", b"/./")] +
                [("accept", s) for s in accept_set(self.rng, bases, self.n // 2 + 1) if s not in (b".", b"./")] +
                [("accept", s) for s in near_miss_set(self.rng, bases, self.n // 2)])

    def probe_s2t_root(self, kind, s):
        """bin/sqfs2tar/src/options.c --root-becomes: refused when the model refuses or the result is empty;
        stored name = prefix of every member name of the archive written"""
        rc, out, err = self.run([self.s2t, "-r", s, self.ref_img])
        m = self.model[s]
        if self.crashed(rc):
            return self.add("s2t_root", kind, s, m, "crash rc=%d" % rc, False, err)
        if m is None or m == b"":
            return self.add("s2t_root", kind, s, "refused", "refused" if self.refused(rc) else "accepted rc=%d" % rc, self.refused(rc), err)
        got = self.tar_names(out) if rc == 0 else "rc=%d" % rc
        exp = sorted([m] + [m + b"/" + p for p in REF_PATHS])
        self.add("s2t_root", kind, s, exp, got, got == exp, err)

    @staticmethod
    def tar_names(raw):
        try:
            with tarfile.open(fileobj=io.BytesIO(raw), mode="r:", encoding="utf-8", errors="surrogateescape") as tf:
                return sorted(ti.name.encode("utf-8", "surrogateescape").rstrip(b"/") for ti in tf.getmembers())
        except tarfile.TarError as e:
            return "unreadable tar: %s" % e

    def cases_s2t_subdir(self):
        return ([("reject", s) for s in reject_set(self.rng, [b"c18x/y", b"c18q"], self.n)] +
                [("accept", s) for s in accept_set(self.rng, [b"c18x/y", b"c18x", b"c18q", b"c18x/..."], self.n)] +
                [("accept", s) for s in near_miss_set(self.rng, [b"c18x/y"], 3)])

    def probe_s2t_subdir(self, kind, s):
        """bin/sqfs2tar/src/options.c --subdir: stored name = the sub-directory whose content is written
        (member names relative to it); a clean path that names no directory of the image selects nothing"""
        rc, out, err = self.run([self.s2t, "-d", s, self.ref_img])
        m = self.model[s]
        if self.crashed(rc):
            return self.add("s2t_subdir", kind, s, m, "crash rc=%d" % rc, False, err)
        if m is None:
            return self.add("s2t_subdir", kind, s, "refused", "refused" if self.refused(rc) else "accepted rc=%d" % rc, self.refused(rc), err)
        got = self.tar_names(out) if rc == 0 else "rc=%d" % rc
        exp = sorted(p[len(m) + 1:] for p in REF_PATHS if p.startswith(m + b"/"))
        self.add("s2t_subdir", kind, s, exp, got, got == exp, err)

    S2T_SUBDIR_FIRST = b".//c18q/./"              # first value of the two-value runs: a decorated spelling of c18q

    def probe_s2t_subdir2(self, kind, s):
        """the option is repeatable: `-d .//c18q/./ -d <s>`.  Every value must be canonicalised: refused when the model
        refuses the second; otherwise (two sub-directories: nothing is stripped) the archive holds each selected
        directory, what leads to it and what is below it"""
        rc, out, err = self.run([self.s2t, "-d", self.S2T_SUBDIR_FIRST, "-d", s, self.ref_img])
        m = self.model[s]
        if self.crashed(rc):
            return self.add("s2t_subdir2", kind, s, m, "crash rc=%d" % rc, False, err)
        if m is None:
            return self.add("s2t_subdir2", kind, s, "refused", "refused" if self.refused(rc) else "accepted rc=%d" % rc, self.refused(rc), err)
        got = self.tar_names(out) if rc == 0 else "rc=%d" % rc
        sel = [self.model[self.S2T_SUBDIR_FIRST], m]
        exp = sorted(p for p in REF_PATHS if any(p == d or d.startswith(p + b"/") or p.startswith(d + b"/") for d in sel))
        self.add("s2t_subdir2", kind, s, exp, got, got == exp, err)

    def cases_t2s_root(self):
        return ([("reject", s) for s in reject_set(self.rng, [b"c18x/y", b"c18x"], self.n)] + [("reject-empty", b"/"), ("reject-empty", b"."), ("reject-empty", b"./")] +
                [("accept", s) for s in accept_set(self.rng, [b"c18x/y", b"c18x", b"c18q", b"c18x/..."], self.n)] +
                [("accept", s) for s in near_miss_set(self.rng, [b"c18x"], 3)])

    def probe_t2s_root(self, kind, s):
        """bin/tar2sqfs/src/options.c --root-becomes: refused when the model refuses or the result is empty;
        stored name = the directory whose members (and only those) appear in the image, re-rooted"""
        t = self.tmp(".sqfs")
        rc, out, err = self.run([self.t2s, "-r", s, "-f", "-q", t], stdin=self.ref_tar)
        m = self.model[s]
        if self.crashed(rc):
            return self.add("t2s_root", kind, s, m, "crash rc=%d" % rc, False, err)
        if m is None or m == b"":
            return self.add("t2s_root", kind, s, "refused", "refused" if self.refused(rc) else "accepted rc=%d" % rc, self.refused(rc), err)
        ls = self.listing(t) if rc == 0 else "rc=%d" % rc
        got = sorted(p for p, _, _, _ in ls) if isinstance(ls, list) else ls
        exp = sorted(p[len(m) + 1:] for p in REF_PATHS if p.startswith(m + b"/"))
        self.add("t2s_root", kind, s, exp, got, got == exp, err)

    def cases_t2s_exclude(self):
        return ([("reject", s) for s in reject_set(self.rng, [b"c18x/y/z", b"c18x/w"], self.n)] +
                [("accept", s) for s in accept_set(self.rng, REF_FILES, self.n)] +
                [("accept", s) for s in near_miss_set(self.rng, [b"c18x/w"], 3)])

    def probe_t2s_exclude(self, kind, s):
        """bin/tar2sqfs/src/options.c --exclude (M6 of the review): stored name = the one member that is left out
        (the option value is an fnmatch pattern over canonical member names; the probe alphabet has no wildcard)"""
        t = self.tmp(".sqfs")
        rc, out, err = self.run([self.t2s, "-E", s, "-f", "-q", t], stdin=self.ref_tar)
        m = self.model[s]
        if self.crashed(rc):
            return self.add("t2s_exclude", kind, s, m, "crash rc=%d" % rc, False, err)
        if m is None:
            return self.add("t2s_exclude", kind, s, "refused", "refused" if self.refused(rc) else "accepted rc=%d" % rc, self.refused(rc), err)
        ls = self.listing(t) if rc == 0 else "rc=%d" % rc
        got = sorted(p for p, _, _, _ in ls) if isinstance(ls, list) else ls
        exp = sorted(p for p in REF_PATHS if not (p == m and p in REF_FILES))
        self.add("t2s_exclude", kind, s, exp, got, got == exp, err)

    T2S_EXCLUDE_FIRST = b".//c18q/./v"            # first value of the two-value runs: a decorated spelling of c18q/v

    def probe_t2s_exclude2(self, kind, s):
        """the option is repeatable and the archive need not spell names canonically: `-E .//c18q/./v -E <s>` on an
        archive whose members are named './c18x//./w' etc.  Every value must be canonicalised (refused when the model
        refuses the second one; both members left out otherwise) and the match must be against the canonical member
        name (lib/tar/src/iterator.c: the exclude loop comes after canonicalize_name)."""
        t = self.tmp(".sqfs")
        rc, out, err = self.run([self.t2s, "-E", self.T2S_EXCLUDE_FIRST, "-E", s, "-f", "-q", t], stdin=self.ref_tar_nc)
        m = self.model[s]
        if self.crashed(rc):
            return self.add("t2s_exclude2", kind, s, m, "crash rc=%d" % rc, False, err)
        if m is None:
            return self.add("t2s_exclude2", kind, s, "refused", "refused" if self.refused(rc) else "accepted rc=%d" % rc, self.refused(rc), err)
        ls = self.listing(t) if rc == 0 else "rc=%d" % rc
        got = sorted(p for p, _, _, _ in ls) if isinstance(ls, list) else ls
        gone = {self.model[self.T2S_EXCLUDE_FIRST]} | ({m} if m in REF_FILES else set())
        exp = sorted(p for p in REF_PATHS if p not in gone)
        self.add("t2s_exclude2", kind, s, exp, got, got == exp, err)

    def cases_t2s_retarget(self):
        ins = (reject_set(self.rng, [b"c18x/y/z", b"c18q/v"], self.n) + accept_set(self.rng, [b"c18x/y/z", b"c18x/w", b"c18q/v", b"c18x"], self.n) +
               near_miss_set(self.rng, [b"c18x/y"], 3))
        return [("batch", tuple(dict.fromkeys(ins)))]

    def probe_t2s_retarget(self, kind, batch):
        """bin/tar2sqfs/src/process_tarball.c: with --root-becomes x a symlink target is rewritten to what follows the
        prefix exactly when the model accepts it and the result lies below x; otherwise it is left untouched
        (here a refusal of canonicalize_name is not a refusal of the member).  Stored name = the link target."""
        t = self.tmp(".tar")
        members = [(b"c18x", tarfile.DIRTYPE, None, b"")] + [(b"c18x/s%03d" % i, tarfile.SYMTYPE, s, b"") for i, s in enumerate(batch)]
        self.mktar(t, members)
        rc, out, err = self.run([self.t2s, "-r", "c18x", "-f", "-q", t.with_suffix(".sqfs")], stdin=t)
        ls = self.listing(t.with_suffix(".sqfs")) if rc == 0 else "rc=%d" % rc
        tg = {p: x for p, k, _, x in ls if k == "l"} if isinstance(ls, list) else {}
        for i, s in enumerate(batch):
            m = self.model[s]
            exp = m[len(b"c18x"):] if (m is not None and m.startswith(b"c18x/")) else s
            got = tg.get(b"s%03d" % i, ls if not isinstance(ls, list) else "missing")
            self.add("t2s_retarget", "reject" if m is None else "accept", s, exp, got, got == exp, err)

    def chain_image(self, s):
        """forged image that really contains the chain of entries a refused path spells ('x', '..', 'y' ...), with the
        file leak-marker (content 'leaked', xattr user.c18leak) at its end"""
        chain = [c for c in s.split(b"/") if c not in (b"", b".")]
        node = sqfs_forge.Node(b"leak-marker", "f", payload=b"leaked\n", xattrs=[(b"user.c18leak", b"leaked-x")])
        for c in reversed(chain):
            node = sqfs_forge.Node(c, "d", children=[node])
        img = self.tmp(".sqfs")
        img.write_bytes(sqfs_forge.forge(sqfs_forge.Node(b"", "d", children=[node])))
        return img

    def cases_rd_path(self):
        rej = reject_set(self.rng, [b"c18x/y/z", b"c18q"], self.n)
        acc_f = accept_set(self.rng, REF_FILES, self.n // 2 + 2)
        acc_d = accept_set(self.rng, REF_DIRS, self.n // 2 + 2) + [b"/", b".", b"./", b"//."]
        return ([("reject", s) for s in rej] + [("cat", s) for s in acc_f] + [("ls", s) for s in acc_d] +
                [("reject-op", (op, s + (b"" if op == "-u" else b"/leak-marker"))) for op, s in zip(["-c", "-s", "-x", "-u"] * 2, self.plain_rejects(rej))])

    @staticmethod
    def plain_rejects(rej):
        """the refused paths that are spelled without decoration ('x/../y'): looked up component by component they
        resolve in the forged chain image, so that only the refusal in get_path keeps the marker from being reached.
        Two rounds over the four operations, '..' in a different position each time."""
        plain = [s for s in rej if s and all(c not in (b"", b".") for c in s.split(b"/"))]
        if len(plain) < 4:
            raise vlib.CheckFailure("C18 funnel: only %d undecorated refused paths for the rdsquashfs reject-op probes" % len(plain))
        return (plain + plain[::-1])[:8]

    def probe_rd_path(self, kind, s):
        """bin/rdsquashfs/src/options.c get_path (-l -c -s -x -u).  A refused path is looked up in a *forged* image
        that really contains that chain of entries ('x', '..', 'y' ...), so that a path which is not refused would
        resolve; stored name = the node that is listed (-l: its children) or printed (-c: its content)."""
        if kind == "reject-op":
            # -c/-s/-x: <chain>/leak-marker is a file with content 'leaked' and the xattr user.c18leak; -u: the chain
            # itself.  All of them against the forged image that has these entries (as -l below): a path that is not
            # refused by get_path resolves, and prints the content / the name / the xattr key.  For -u nothing else is
            # observable - restore_fstree.c refuses a tree with a '..' node on its own - so the diagnostic must be
            # about the path argument (a refusal for any other reason names something else)
            op, p = s
            img = self.chain_image(p[:-len(b"/leak-marker")] if op != "-u" else p)
            jail = self.tmp(".jail")
            (jail / "R").mkdir(parents=True)
            rc, out, err = self.run([self.rd, op, p, img], cwd=jail / "R")
            marker = {"-c": b"leaked", "-s": b"leak-marker", "-x": b"c18leak", "-u": b"leak-marker"}[op]
            tree = sorted(os.listdir(str(jail / "R"))) + sorted(x for x in os.listdir(str(jail)) if x != "R")
            ok = self.refused(rc) and self.model[p] is None and marker not in out and not tree and (op != "-u" or p in err)
            got = "refused" if ok else "rc=%d out=%r created=%r err=%r" % (rc, out[:80], tree, err[-120:])
            return self.add("rd_path", "reject", p, "refused", got, ok, err)
        m = self.model[s]
        if kind == "reject":
            img = self.chain_image(s)
            rc, out, err = self.run([self.rd, "-l", s, img])
            ok = m is None and self.refused(rc) and b"leak-marker" not in out
            return self.add("rd_path", kind, s, "refused", "refused" if self.refused(rc) else "rc=%d out=%r" % (rc, out[:80]), ok, err)
        if m is None:
            raise vlib.CheckFailure("C18 funnel: generator produced a refused path %r for an accept case" % s)
        if kind == "cat":
            rc, out, err = self.run([self.rd, "-c", s, self.ref_img])
            exp = dict((p, d) for p, k, d in REF if k == "f").get(m)
            return self.add("rd_path", "accept", s, exp, out if rc == 0 else "rc=%d" % rc, rc == 0 and exp is not None and out == exp, err)
        rc, out, err = self.run([self.rd, "-l", s, self.ref_img])
        exp = sorted(p[len(m) + 1 if m else 0:] for p in REF_PATHS if (p.startswith(m + b"/") if m else True) and b"/" not in p[len(m) + 1 if m else 0:])
        got = sorted(l.split()[-1] for l in out.splitlines() if l.strip()) if rc == 0 else "rc=%d" % rc
        self.add("rd_path", "accept", s, exp, got, got == exp, err)

    # ================================================================ library entries (class A, many inputs)
    def lib_inputs(self):
        alpha = [0x2f, 0x2e, 0x61]
        exh = [bytes(t) for n in range(1, 7 if self.ctx.quick() else 9) for t in itertools.product(alpha, repeat=n)]
        pool = [b"/", b"//", b".", b"..", b"./", b"../", b"/.", b"/..", b"...", b"a", b"bc", b"\xc3\xa4", b" ", b"..a", b".a", b"a.", b"a.."]
        rnd = []
        for _ in range(600 if self.ctx.quick() else 6000):
            k = self.rng.randint(1, 24)
            s = b"".join(self.rng.choice(pool) for _ in range(k))
            rnd.append(s[:self.rng.choice([90, 99, 100, 101, 180, 300])])
        return exh + [s for s in rnd if s]

    def probe_lib(self, inputs):
        """fstree.c mknode (hard link target) and tar/iterator.c it_next (member name; ustar name field, and a GNU
        long-name record above 100 bytes) through harness/h_c18_lib.c: answer must be the model's `canon` answer"""
        def tarhex(name):
            ti = tarfile.TarInfo(name.decode("utf-8", "surrogateescape"))
            ti.size = 0
            return ti.tobuf(format=tarfile.GNU_FORMAT, encoding="utf-8", errors="surrogateescape").hex()
        lines = []
        for s in inputs:
            lines.append("hlink " + tok(s))
            lines.append("tar " + tarhex(s))
        r = vlib.sh([str(self.lib)], input="\n".join(lines) + "\n", env=self.env, timeout=1800)
        got = r.stdout.splitlines()
        if r.returncode != 0 or len(got) != len(lines):
            k = min(len(got), len(lines) - 1)
            self.add("lib", "crash", inputs[k // 2], "an answer per line", "rc=%d after %d of %d lines" % (r.returncode, len(got), len(lines)), False, r.stderr[-600:])
            return
        for i, s in enumerate(inputs):
            m = self.model[s]
            for j, name in ((0, "lib_hlink"), (1, "lib_tar")):
                a = got[2 * i + j]
                if m is None:
                    ok = a.startswith("fail ")
                else:
                    ok = a == "ok " + tok(m)
                self.add(name, "reject" if m is None else "accept", s, "fail" if m is None else "ok " + tok(m), a, ok, keep=i < 3)

    # ================================================================ probes (class B)
    def probe_b_gensquashfs_dir(self, T):
        """mkfs.c pack_files ('packing <path>' + the file is opened under that name relative to the pack directory)
        and apply_xattr.c get_full_path (path handed to llistxattr, recorded by harness/h_c18_xattr_shim.c);
        gensquashfs --pack-dir <srcdir> --keep-xattr"""
        img = self.tmp(".sqfs")
        rc, out, err = self.run([self.gen_shim, "-D", T.src_dir, "-x", "-f", img])
        packing = sorted(l[len(b"packing "):] for l in out.splitlines() if l.startswith(b"packing "))
        ls = self.listing(img) if rc == 0 else "rc=%d" % rc
        stored = sorted(p for p, _, _, _ in ls) if isinstance(ls, list) else ls
        self.add("b_packing", "accept", T.name.encode(), sorted(T.files), packing if rc == 0 else "rc=%d" % rc,
                 rc == 0 and packing == sorted(T.files) and stored == sorted(T.paths), err)
        seen = sorted(l[len(b"C18-LLISTXATTR "):] for l in err.splitlines() if l.startswith(b"C18-LLISTXATTR "))
        pre = os.fsencode(str(T.src_dir)) + b"/"
        exp = sorted([pre] + [pre + p for p in T.paths])
        self.add("b_scan_xattr", "accept", T.name.encode(), exp, seen if rc == 0 else "rc=%d" % rc, rc == 0 and seen == exp, err)

    def probe_b_glob(self, T):
        """glob.c glob_files: prefix of the globbed entries = canonical path of the target directory"""
        t = self.tmp(".txt")
        t.write_bytes(b"dir /p//q/ 0755 0 0\nglob /p//./q/ 0644 0 0 -- .\n")
        img = t.with_suffix(".sqfs")
        rc, out, err = self.run([self.gen, "-D", T.src_dir, "-F", t, "-f", "-q", img])
        ls = self.listing(img) if rc == 0 else "rc=%d" % rc
        got = sorted(p for p, _, _, _ in ls) if isinstance(ls, list) else ls
        exp = sorted([b"p", b"p/q"] + [b"p/q/" + p for p in T.paths])
        self.add("b_glob", "accept", T.name.encode(), exp, got, got == exp, err)

    def probe_b_sortmatch(self, T):
        """sort_by_file.c fstree_sort_files: every file of the tree is matched by its clean path"""
        t = self.tmp(".sort")
        t.write_bytes(b"".join(b"%d %s\n" % (i + 1, p) for i, p in enumerate(T.files)))
        rc, out, err = self.run([self.gen, "-F", T.txt, "-S", t, "-f", "-q", t.with_suffix(".sqfs")])
        warn = [l for l in err.splitlines() if b"no match" in l]
        self.add("b_sortmatch", "accept", T.name.encode(), "all matched", "all matched" if rc == 0 and not warn else "rc=%d %r" % (rc, warn), rc == 0 and not warn, err)

    def probe_b_unpack(self, T):
        """rdsquashfs -u / -T: restore_fstree.c create_node_dfs ('creating <p>' and the node created), fill_files.c
        add_file ('unpacking <p>' and the content written), restore_fstree.c set_attribs (time stamp set on <p>)"""
        jail = self.tmp(".jail")
        (jail / "R").mkdir(parents=True)
        rc, out, err = self.run([self.rd, "-u", "/", "-T", T.img], cwd=jail / "R")
        creating = [l[len(b"creating "):] for l in out.splitlines() if l.startswith(b"creating ")]
        unpacking = [l[len(b"unpacking "):] for l in out.splitlines() if l.startswith(b"unpacking ")]
        self.add("b_create", "accept", T.name.encode(), sorted(T.paths), sorted(creating) if rc == 0 else "rc=%d" % rc, rc == 0 and sorted(creating) == sorted(T.paths), err)
        self.add("b_fill", "accept", T.name.encode(), sorted(T.files), sorted(unpacking) if rc == 0 else "rc=%d" % rc, rc == 0 and sorted(unpacking) == sorted(T.files), err)
        tree, bad = [], []
        for root, dirs, files in os.walk(os.fsencode(str(jail))):
            for n in dirs + files:
                tree.append(os.path.relpath(os.path.join(root, n), os.fsencode(str(jail))))
        exp_tree = sorted([b"R"] + [b"R/" + p for p in T.paths])
        for p, k, data in T.entries:
            q = jail / "R" / os.fsdecode(p)
            if k == "f" and (not q.is_file() or q.read_bytes() != data):
                bad.append(("content", p))
            if q.exists() and int(q.lstat().st_mtime) != 0:
                bad.append(("mtime", p))
        self.add("b_attribs", "accept", T.name.encode(), (exp_tree, []), (sorted(tree), bad) if rc == 0 else "rc=%d" % rc, rc == 0 and sorted(tree) == exp_tree and not bad, err)

    def probe_b_describe(self, T):
        """describe.c print_name: names printed by rdsquashfs -d"""
        rc, out, err = self.run([self.rd, "-d", T.img])
        got = sorted(l.split()[1] for l in out.splitlines() if len(l.split()) > 1)
        exp = sorted([b"/"] + T.paths)
        self.add("b_describe", "accept", T.name.encode(), exp, got if rc == 0 else "rc=%d" % rc, rc == 0 and got == exp, err)

    def probe_b_sqfsdiff(self, T):
        """sqfsdiff/util.c node_path: paths reported for entries present in only one image"""
        t = self.tmp(".txt")
        extra = [T.dirs[0] + b"/only-here", T.dirs[-1] + b"/..new/deep"]     # names no tree of this module uses
        t.write_bytes(T.txt.read_bytes() + b"".join(b"dir " + e + b" 0755 0 0\n" for e in extra))
        img = t.with_suffix(".sqfs")
        rc0, _, err0 = self.run([self.gen, "-F", t, "-f", "-q", img])
        rc, out, err = self.run([self.diff, "-a", T.img, "-b", img])
        got = sorted(l for l in out.splitlines() if l[:2] in (b"> ", b"< "))
        new = {extra[0], extra[1], extra[1][:-len(b"/deep")]} - set(T.paths)
        exp = sorted(b"> " + e for e in new)
        self.add("b_sqfsdiff", "accept", T.name.encode(), exp, got if rc0 == 0 and not self.crashed(rc) else "rc=%d/%d" % (rc0, rc),
                 rc0 == 0 and not self.crashed(rc) and got == exp, err0 + err)

    # ================================================================ probes (class S): is_filename_sane on image names
    S_NAMES = [b".", b"..", b"a/b", b"/", b"x/", b"/x", b"../x", b"./x", b"...", b"..a", b"a..", b".a", b"a", b"a.b", b"...."]

    def cases_sane(self):
        return [("name", n) for n in self.S_NAMES]

    def probe_sane(self, kind, name):
        """forged image: d1/<name> (file), d2/<name> (directory with a file inside), plus an ordinary sibling.
        rdsquashfs -u / -T (restore_fstree.c create_node_dfs + set_attribs, fill_files.c gen_file_list_dfs) must skip
        exactly the entries the model's isFilenameSane refuses, create the others, and touch nothing outside R;
        rdsquashfs -d (describe.c describe_tree) must fail exactly when the model refuses the name."""
        N = sqfs_forge.Node
        sane = self.sane[name]
        root = N(b"", "d", children=[N(b"c18d1", "d", children=[N(name, "f", payload=b"payload\n"), N(b"sib", "f", payload=b"s\n")]),
                                     N(b"c18d2", "d", children=[N(name, "d", children=[N(b"in", "f", payload=b"i\n")]), N(b"sib", "f", payload=b"s\n")])])
        img = self.tmp(".sqfs")
        img.write_bytes(sqfs_forge.forge(root))
        jail = self.tmp(".jail")
        (jail / "R").mkdir(parents=True)
        (jail / "canary").write_bytes(b"canary")
        rc, out, err = self.run([self.rd, "-u", "/", "-T", img], cwd=jail / "R")
        tree = []
        for r_, dirs, files in os.walk(os.fsencode(str(jail))):
            for n in dirs + files:
                tree.append(os.path.relpath(os.path.join(r_, n), os.fsencode(str(jail))))
        base = [b"R", b"canary", b"R/c18d1", b"R/c18d2", b"R/c18d1/sib", b"R/c18d2/sib"]
        exp_tree = sorted(base + ([b"R/c18d1/" + name, b"R/c18d2/" + name, b"R/c18d2/" + name + b"/in"] if sane else []))
        skips = err.count(b"Found an entry named '" + name + b"', skipping.")
        exp_skips = 0 if sane else 4            # create_node_dfs and gen_file_list_dfs, for the file and for the directory
        canary_ok = (jail / "canary").read_bytes() == b"canary"
        ok = rc == 0 and sorted(tree) == exp_tree and skips == exp_skips and canary_ok
        self.add("sane_unpack", "accept" if sane else "reject", name, (exp_tree, exp_skips), (sorted(tree), skips) if rc == 0 else "rc=%d" % rc, ok, err)
        # describe: one image per kind of entry so that the first offending name decides
        img2 = self.tmp(".sqfs")
        img2.write_bytes(sqfs_forge.forge(N(b"", "d", children=[N(name, "f", payload=b"p\n")])))
        rc, out, err = self.run([self.rd, "-d", img2])
        if self.crashed(rc):
            return self.add("sane_describe", "accept" if sane else "reject", name, sane, "crash rc=%d" % rc, False, err)
        names = [l.split()[1] for l in out.splitlines() if l.startswith(b"file ") and len(l.split()) > 1]
        partial = [l for l in out.splitlines() if len(l.split()) < 5]       # a refused name must not be half printed either
        if partial:
            return self.add("sane_describe", "accept" if sane else "reject", name, "complete lines only", "truncated output line(s) %r rc=%d" % (partial, rc), False, err)
        if sane:
            self.add("sane_describe", "accept", name, [name], names if rc == 0 else "rc=%d" % rc, rc == 0 and names == [name], err)
        else:
            self.add("sane_describe", "reject", name, "refused", "refused" if self.refused(rc) and not names else "rc=%d names=%r" % (rc, names),
                     self.refused(rc) and not names, err)

    def probe_sane_s2t(self, kind, name):
        """sqfs2tar on the same forged image as probe_sane (d1/<name> file, d2/<name>/in directory): three runs - plain,
        `-r c18r/t` (prefix prepended), `-d c18d2` (prefix stripped).  The archive is parsed from its raw records.
        Oracle 1 (hostile): no emitted member name has a '..', '.' or empty component.  Oracle 2: the tool either
        refuses the image, or writes exactly the entries whose names the model's isFilenameSane accepts (whether it says
        so on stderr is recorded, not judged: lib/sqfs/src/io/dir_rec.c drops a literal '.'/'..' silently)."""
        N = sqfs_forge.Node
        sane = self.sane[name]
        root = N(b"", "d", children=[N(b"c18d1", "d", children=[N(name, "f", payload=b"payload\n"), N(b"sib", "f", payload=b"s\n")]),
                                     N(b"c18d2", "d", children=[N(name, "d", children=[N(b"in", "f", payload=b"i\n")]), N(b"sib", "f", payload=b"s\n")])])
        img = self.tmp(".sqfs")
        img.write_bytes(sqfs_forge.forge(root))
        d1 = [(b"c18d1/", b"5"), (b"c18d1/sib", b"0")] + ([(b"c18d1/" + name, b"0")] if sane else [])
        d2 = [(b"c18d2/", b"5"), (b"c18d2/sib", b"0")] + ([(b"c18d2/" + name + b"/", b"5"), (b"c18d2/" + name + b"/in", b"0")] if sane else [])
        runs = [("plain", [], sorted(d1 + d2)),
                ("root", ["-r", "c18r/t"], sorted([(b"c18r/t/", b"5")] + [(b"c18r/t/" + n, t) for n, t in d1 + d2])),
                ("subdir", ["-d", "c18d2"], sorted((n[len(b"c18d2/"):], t) for n, t in d2 if n != b"c18d2/"))]
        bad, seen = [], {}
        for tag, opts, exp in runs:
            rc, out, err = self.run([self.s2t] + opts + [img])
            if self.crashed(rc):
                bad.append("%s: crash rc=%d" % (tag, rc))
                seen[tag] = "crash rc=%d %s" % (rc, err[-200:].decode(errors="replace"))
                continue
            try:
                mem = raw_tar_members(out)
            except ValueError as e:
                if rc == 0:
                    bad.append("%s: unreadable archive (%s)" % (tag, e))
                mem = []
            seen[tag] = (rc, sorted(mem), err[-120:])
            host = sorted(n for n, t in mem if hostile_member(n, t))
            if host:
                bad.append("%s: hostile member name(s) %r" % (tag, host))
            if self.refused(rc) and not sane:
                continue                                    # refusing a forged image is a correct answer
            if rc != 0 or sorted(mem) != exp:
                bad.append("%s: rc=%d members %r, expected %r" % (tag, rc, sorted(mem), exp))
        self.add("sane_s2t", "accept" if sane else "reject", name, "no hostile member name; exactly the sane entries, or refused",
                 "ok" if not bad else "; ".join(bad), not bad, repr(seen))

    def probe_fixture(self):
        """corpus: the repository's own hostile image bin/rdsquashfs/test/pathtraversal.sqfs, when the working tree
        still has it (its absence is recorded, not hidden: the forged images above carry the S-site probes)"""
        hostile = vlib.REPO / "bin" / "rdsquashfs" / "test" / "pathtraversal.sqfs"
        if not hostile.exists():
            self.fixture_note = "absent from the working tree: %s" % hostile
            self.ctx.log("C18 funnel: repository fixture pathtraversal.sqfs is absent; only the forged images probe the S sites")
            return
        jail = self.tmp(".jail")
        (jail / "R").mkdir(parents=True)
        (jail / "canary").write_bytes(b"canary")
        rc, out, err = self.run([self.rd, "-u", "/", hostile], cwd=jail / "R")
        outside = sorted(os.listdir(str(jail)))
        ok = not self.crashed(rc) and outside == ["R", "canary"] and not os.path.exists("/tmp/gotcha.txt")
        self.add("fixture_unpack", "reject", b"pathtraversal.sqfs", ["R", "canary"], outside, ok, err)
        rc, out, err = self.run([self.rd, "-d", hostile])
        bad = [l for l in out.splitlines() if len(l.split()) > 1 and any(c in (b"..", b".") for c in l.split()[1].split(b"/"))]
        self.add("fixture_describe", "reject", b"pathtraversal.sqfs", [], bad, not self.crashed(rc) and not bad, err)
        self.fixture_note = "probed"

    def replay(self, probe, kind, inp):
        """re-run one recorded evaluation against the current tree"""
        self.build()
        if probe in ("lib_hlink", "lib_tar"):
            self.ask_model([inp], [])
            self.probe_lib([inp])
            return [e for e in self.evals if e.probe == probe]
        if probe.startswith("sane_"):
            self.ask_model([b"x"], [inp])
            (self.probe_sane_s2t if probe == "sane_s2t" else self.probe_sane)("name", inp)
            return [e for e in self.evals if e.probe == probe]
        self.ask_model(([inp] if not probe.startswith("b_") and not probe.startswith("fixture") else [b"x"]) +
                       [self.T2S_EXCLUDE_FIRST, self.S2T_SUBDIR_FIRST], [])
        self.make_reference()
        bmap = {"b_packing": self.probe_b_gensquashfs_dir, "b_scan_xattr": self.probe_b_gensquashfs_dir, "b_glob": self.probe_b_glob,
                "b_sortmatch": self.probe_b_sortmatch, "b_create": self.probe_b_unpack, "b_fill": self.probe_b_unpack,
                "b_attribs": self.probe_b_unpack, "b_describe": self.probe_b_describe, "b_sqfsdiff": self.probe_b_sqfsdiff,
                "fixture_unpack": self.probe_fixture, "fixture_describe": self.probe_fixture}
        if probe.startswith("fixture"):
            self.probe_fixture()
        elif probe in bmap:
            # the seeded trees are regenerated in the same order as in the recorded run (same ctx.rng stream is not
            # available here): replay every tree of this seed that carries the recorded name, else the fixed tree
            for T in [t for t in self.trees if t.name.encode() == inp] or [self.T0]:
                bmap[probe](T)
        elif probe == "t2s_retarget":
            self.probe_t2s_retarget("batch", (inp,))
        elif probe == "rd_path":
            m = self.model[inp]
            if m is None:
                # the record does not say which operation refused: re-run every operation that takes this kind of path
                for op in (["-c", "-s", "-x"] if inp.endswith(b"/leak-marker") else ["-u"]):
                    self.probe_rd_path("reject-op", (op, inp))
            self.probe_rd_path("reject" if m is None else "cat" if m in REF_FILES else "ls", inp)
        elif probe in self.A_PROBES or probe[:-1] in self.PAIRED:
            getattr(self, "probe_" + probe)(kind, inp)
        else:
            raise vlib.CheckFailure("C18 funnel: unknown probe %r in replay file" % probe)
        return [e for e in self.evals if e.probe == probe]

    # ================================================================ driver
    A_PROBES = ["packfile", "sortfile", "xattrfile", "tarmember", "tarhardlink", "s2t_root", "s2t_subdir", "t2s_root", "t2s_exclude",
                "t2s_retarget", "rd_path"]

    PAIRED = ["t2s_exclude", "s2t_subdir"]        # repeatable options: a second run per case with two values

    def run_all(self):
        self.build()
        cases = {}
        for name in self.A_PROBES:
            cases[name] = getattr(self, "cases_" + name)()
        cases["sane"] = self.cases_sane()
        libin = self.lib_inputs()
        paths = list(libin)
        for name in self.A_PROBES:
            for kind, s in cases[name]:
                if kind == "batch":
                    paths += list(s)
                elif kind == "reject-op":
                    paths.append(s[1])
                else:
                    paths.append(s)
        paths += [self.T2S_EXCLUDE_FIRST, self.S2T_SUBDIR_FIRST] + [noncanonical(p, k) for p, k, _ in REF]
        self.ask_model(paths, [n for _, n in cases["sane"]])
        if self.model[self.T2S_EXCLUDE_FIRST] != b"c18q/v" or self.model[self.S2T_SUBDIR_FIRST] != b"c18q" or \
                any(self.model[noncanonical(p, k)] != p or noncanonical(p, k) == p for p, k, _ in REF):
            raise vlib.CheckFailure("C18 funnel: the fixed non-canonical spellings do not canonicalise to the reference paths")
        # the generators must deliver what they promise: a probe whose reject or accept set is empty proves nothing
        for name in self.A_PROBES:
            kinds = [k for k, _ in cases[name]]
            flat = [s for k, s in cases[name] if k not in ("batch", "reject-op")] + [x for k, s in cases[name] if k == "batch" for x in s]
            nrej = sum(1 for s in flat if self.model[s] is None)
            if nrej == 0 or nrej == len(flat):
                raise vlib.CheckFailure("C18 funnel: probe %s has %d refused of %d inputs" % (name, nrej, len(flat)))
            for k, s in cases[name]:
                if k == "reject" and self.model[s] is not None:
                    raise vlib.CheckFailure("C18 funnel: %r was generated as a refused path but the model accepts it" % s)
                if k == "reject-empty" and self.model[s] != b"":
                    raise vlib.CheckFailure("C18 funnel: %r was generated as a path with an empty result but the model says %r" % (s, self.model[s]))
                if k in ("accept", "cat", "ls") and self.model[s] is None:
                    raise vlib.CheckFailure("C18 funnel: %r was generated as an accepted path but the model refuses it" % s)
        self.make_reference()
        jobs = [(self.probe_lib, (libin,))]
        for name in self.A_PROBES + ["sane"]:
            for kind, s in cases[name]:
                jobs.append((getattr(self, "probe_" + name), (kind, s)))
        for kind, s in cases["sane"]:
            jobs.append((self.probe_sane_s2t, (kind, s)))
        for name in self.PAIRED:
            for kind, s in cases[name]:
                jobs.append((getattr(self, "probe_" + name + "2"), (kind, s)))
        for T in self.trees:
            for b in ("probe_b_gensquashfs_dir", "probe_b_glob", "probe_b_sortmatch", "probe_b_unpack", "probe_b_describe", "probe_b_sqfsdiff"):
                jobs.append((getattr(self, b), (T,)))
        jobs.append((self.probe_fixture, ()))
        with ThreadPoolExecutor(JOBS) as ex:
            futs = [ex.submit(f, *a) for f, a in jobs]
            for fu in futs:
                fu.result()                      # re-raises: an exception inside a probe is an infrastructure failure
        return self.evals


# call site (AST key) -> probes that drive it.  `need` = evaluation kinds that must each have occurred at least once.
COVER = {
    "lib/fstree/src/fstree.c:mknode:canonicalize_name#0": (["lib_hlink", "tarhardlink"], "A"),
    "lib/tar/src/iterator.c:it_next:canonicalize_name#0": (["lib_tar", "tarmember", "t2s_exclude2"], "A"),
    "bin/gensquashfs/src/fstree_from_file.c:handle_line:canonicalize_name#0": (["packfile"], "A"),
    "bin/gensquashfs/src/sort_by_file.c:decode_filename:canonicalize_name#0": (["sortfile"], "A"),
    "bin/gensquashfs/src/filemap_xattr.c:parse_file_name:canonicalize_name#0": (["xattrfile"], "A"),
    "bin/sqfs2tar/src/options.c:process_args:canonicalize_name#0": (["s2t_root"], "A"),
    "bin/sqfs2tar/src/options.c:process_args:canonicalize_name#1": (["s2t_subdir", "s2t_subdir2"], "A"),
    "bin/tar2sqfs/src/options.c:process_args:canonicalize_name#0": (["t2s_root"], "A"),
    "bin/tar2sqfs/src/options.c:process_args:canonicalize_name#1": (["t2s_exclude", "t2s_exclude2"], "A"),
    "bin/tar2sqfs/src/process_tarball.c:process_tarball:canonicalize_name#0": (["t2s_retarget"], "A"),
    "bin/rdsquashfs/src/options.c:get_path:canonicalize_name#0": (["rd_path"], "A"),
    "bin/gensquashfs/src/sort_by_file.c:fstree_sort_files:canonicalize_name#0": (["b_sortmatch", "sortfile"], "B"),
    "bin/gensquashfs/src/apply_xattr.c:get_full_path:canonicalize_name#0": (["b_scan_xattr"], "B"),
    "bin/gensquashfs/src/mkfs.c:pack_files:canonicalize_name#0": (["b_packing"], "B"),
    "bin/gensquashfs/src/glob.c:glob_files:canonicalize_name#0": (["b_glob"], "B"),
    "bin/rdsquashfs/src/fill_files.c:add_file:canonicalize_name#0": (["b_fill"], "B"),
    "bin/rdsquashfs/src/restore_fstree.c:create_node_dfs:canonicalize_name#0": (["b_create"], "B"),
    "bin/rdsquashfs/src/restore_fstree.c:set_attribs:canonicalize_name#0": (["b_attribs"], "B"),
    "bin/rdsquashfs/src/describe.c:print_name:canonicalize_name#0": (["b_describe"], "B"),
    "bin/sqfsdiff/src/util.c:node_path:canonicalize_name#0": (["b_sqfsdiff"], "B"),
    "bin/rdsquashfs/src/fill_files.c:gen_file_list_dfs:is_filename_sane#0": (["sane_unpack"], "S"),
    "bin/rdsquashfs/src/restore_fstree.c:create_node_dfs:is_filename_sane#0": (["sane_unpack"], "S"),
    "bin/rdsquashfs/src/restore_fstree.c:set_attribs:is_filename_sane#0": (["sane_unpack"], "S"),
    "bin/rdsquashfs/src/describe.c:describe_tree:is_filename_sane#0": (["sane_describe"], "S"),
    "bin/sqfs2tar/src/iterator.c:sane_next:is_filename_sane#0": (["sane_s2t"], "S"),
}
# call site (AST key) -> how the result is used there (checks/c18_ast.py `_shape`): `IfStmt(cond)` = the result itself is
# the condition (refuse when non-zero), `UnaryOperator(!)` = negated (is_filename_sane: refuse when false), a comparison
# with its operator and literal, `BinaryOperator(=)` = assigned (class B: `ret = ...; assert(ret == 0)` - what happens to
# the variable afterwards is not part of the shape).  A different shape (`!= 0` turned into `> 0` or `< 0`, a dropped
# negation, a result that is no longer tested) is reported as `funnel-shape:<key>` even where no probe input shows it.
SHAPES = {
    "lib/fstree/src/fstree.c:mknode:canonicalize_name#0": "IfStmt(cond)",
    "lib/tar/src/iterator.c:it_next:canonicalize_name#0": "IfStmt(cond)>BinaryOperator(!= 0)",
    "bin/gensquashfs/src/apply_xattr.c:get_full_path:canonicalize_name#0": "BinaryOperator(=)",
    "bin/gensquashfs/src/filemap_xattr.c:parse_file_name:canonicalize_name#0": "IfStmt(cond)",
    "bin/gensquashfs/src/fstree_from_file.c:handle_line:canonicalize_name#0": "IfStmt(cond)",
    "bin/gensquashfs/src/glob.c:glob_files:canonicalize_name#0": "IfStmt(cond)>BinaryOperator(!= 0)",
    "bin/gensquashfs/src/mkfs.c:pack_files:canonicalize_name#0": "BinaryOperator(=)",
    "bin/gensquashfs/src/sort_by_file.c:decode_filename:canonicalize_name#0": "IfStmt(cond)",
    "bin/gensquashfs/src/sort_by_file.c:fstree_sort_files:canonicalize_name#0": "IfStmt(cond)",
    "bin/rdsquashfs/src/describe.c:print_name:canonicalize_name#0": "IfStmt(cond)>BinaryOperator(!= 0)",
    "bin/rdsquashfs/src/describe.c:describe_tree:is_filename_sane#0": "IfStmt(cond)>UnaryOperator(!)",
    "bin/rdsquashfs/src/fill_files.c:add_file:canonicalize_name#0": "IfStmt(cond)",
    "bin/rdsquashfs/src/fill_files.c:gen_file_list_dfs:is_filename_sane#0": "IfStmt(cond)>UnaryOperator(!)",
    "bin/rdsquashfs/src/options.c:get_path:canonicalize_name#0": "IfStmt(cond)",
    "bin/rdsquashfs/src/restore_fstree.c:create_node_dfs:is_filename_sane#0": "IfStmt(cond)>UnaryOperator(!)",
    "bin/rdsquashfs/src/restore_fstree.c:create_node_dfs:canonicalize_name#0": "BinaryOperator(=)",
    "bin/rdsquashfs/src/restore_fstree.c:set_attribs:is_filename_sane#0": "IfStmt(cond)>UnaryOperator(!)",
    "bin/rdsquashfs/src/restore_fstree.c:set_attribs:canonicalize_name#0": "BinaryOperator(=)",
    "bin/sqfs2tar/src/iterator.c:sane_next:is_filename_sane#0": "IfStmt(cond)",
    "bin/sqfs2tar/src/options.c:process_args:canonicalize_name#0": "IfStmt(cond)>BinaryOperator(||)>BinaryOperator(!= 0)",
    "bin/sqfs2tar/src/options.c:process_args:canonicalize_name#1": "IfStmt(cond)",
    "bin/sqfsdiff/src/util.c:node_path:canonicalize_name#0": "IfStmt(cond)",
    "bin/tar2sqfs/src/options.c:process_args:canonicalize_name#0": "IfStmt(cond)>BinaryOperator(||)>BinaryOperator(!= 0)",
    "bin/tar2sqfs/src/options.c:process_args:canonicalize_name#1": "IfStmt(cond)",
    "bin/tar2sqfs/src/process_tarball.c:process_tarball:canonicalize_name#0": "IfStmt(cond)>BinaryOperator(&&)>BinaryOperator(&&)>BinaryOperator(== 0)",
}
DEFINING_FILES = ("lib/util/src/canonicalize_name.c", "lib/util/src/filename_sane.c")
