"""
C18 helper: libsquashfs-independent listing of a SquashFS 4.0 image (directory walk only).

Used by the funnel probes of tools/checks/c18.py to read back the *stored* names that a tool of the working
tree wrote, without going through any code of the tree under verification (in particular not through
rdsquashfs' describe.c, which is itself one of the probed call sites).  Format constants are the documented
ones (doc/format.adoc); metadata blocks are inflated by tools/sqfsraw.decompress (zlib/lzma/liblz4/libzstd).

    entries(raw) -> [(path: bytes, kind: str, ref: int, extra)]   preorder, root excluded
        kind  'd' dir, 'f' file, 'l' symlink, 'o' other
        ref   inode reference (equal for hard links to the same inode)
        extra symlink target (bytes) for 'l', else None
"""
import struct
import sqfsraw

META = 8192


class BadImage(Exception):
    pass


class _Stream:
    """random access to a metadata table by (block start relative to the table, offset in block)"""

    def __init__(self, raw, comp, table_start, limit):
        self.raw, self.comp, self.base, self.limit = raw, comp, table_start, limit
        self.cache = {}

    def block(self, rel):
        if rel in self.cache:
            return self.cache[rel]
        off = self.base + rel
        if off + 2 > len(self.raw):
            raise BadImage("metadata block header beyond end of image")
        (hdr,) = struct.unpack_from("<H", self.raw, off)
        size = hdr & 0x7FFF
        body = self.raw[off + 2: off + 2 + size]
        if len(body) != size:
            raise BadImage("metadata block truncated")
        data = body if hdr & 0x8000 else sqfsraw.decompress(self.comp, body, META)
        self.cache[rel] = (data, 2 + size)
        return self.cache[rel]

    def read(self, rel, off, n):
        """returns (bytes, rel', off')"""
        out = bytearray()
        while n > 0:
            data, disk = self.block(rel)
            if off > len(data):
                raise BadImage("offset beyond metadata block")
            take = data[off: off + n]
            out += take
            n -= len(take)
            off += len(take)
            if n > 0:
                if off < len(data) or len(data) == 0:
                    raise BadImage("short metadata block")
                rel += disk
                off = 0
        return bytes(out), rel, off


def entries(raw):
    if len(raw) < 96:
        raise BadImage("no super block")
    (magic, inode_count, mtime, block_size, frag_count, comp_id, block_log, flags, id_count, vmaj, vmin, root_ref,
     bytes_used, id_table, xattr_table, inode_table, dir_table, frag_table, export_table) = struct.unpack_from(
        "<IIIIIHHHHHHQQQQQQQQ", raw, 0)
    if magic != 0x73717368 or (vmaj, vmin) != (4, 0):
        raise BadImage("not a SquashFS 4.0 image")
    comp = sqfsraw.COMP.get(comp_id)
    ino = _Stream(raw, comp, inode_table, dir_table)
    dirs = _Stream(raw, comp, dir_table, frag_table)
    out = []

    def inode(ref):
        rel, off = ref >> 16, ref & 0xFFFF
        hdr, rel, off = ino.read(rel, off, 16)
        typ, mode, uid, gid, mt, inum = struct.unpack("<HHHHII", hdr)
        if typ == 1:
            b, _, _ = ino.read(rel, off, 16)
            start, nlink, size, doff, parent = struct.unpack("<IIHHI", b)
            return "d", (start, doff, size)
        if typ == 8:
            b, _, _ = ino.read(rel, off, 24)
            nlink, size, start, parent, icnt, doff, xattr = struct.unpack("<IIIIHHI", b)
            return "d", (start, doff, size)
        if typ in (3, 10):
            b, rel, off = ino.read(rel, off, 8)
            nlink, tsz = struct.unpack("<II", b)
            tgt, _, _ = ino.read(rel, off, tsz)
            return "l", tgt
        if typ in (2, 9):
            return "f", None
        return "o", None

    def walk(prefix, dinfo, depth):
        if depth > 200:
            raise BadImage("directory nesting too deep")
        start, doff, size = dinfo
        remaining = size - 3
        rel, off = start, doff
        while remaining > 0:
            b, rel, off = dirs.read(rel, off, 12)
            remaining -= 12
            count, istart, inum = struct.unpack("<III", b)
            for _ in range(count + 1):
                b, rel, off = dirs.read(rel, off, 8)
                eoff, delta, etype, nsz = struct.unpack("<HhHH", b)
                name, rel, off = dirs.read(rel, off, nsz + 1)
                remaining -= 8 + nsz + 1
                ref = (istart << 16) | eoff
                kind, extra = inode(ref)
                path = prefix + b"/" + name if prefix else name
                out.append((path, kind, ref, extra if kind == "l" else None))
                if kind == "d":
                    walk(path, extra, depth + 1)

    kind, dinfo = inode(root_ref)
    if kind != "d":
        raise BadImage("root inode is not a directory")
    walk(b"", dinfo, 0)
    return out


def paths(raw, kinds=None):
    return [p for p, k, _, _ in entries(raw) if kinds is None or k in kinds]
