"""
Tie of lean/Sqfs/Model/MemPool.lean (proofs: lean/Sqfs/Props/MemPool.lean) to the real lib/util/src/mempool.c, run inside
the C19 check (c19.py calls run_units).

harness/h_mempool.c #includes the working tree's mempool.c (default configuration of /repo: NO_CUSTOM_ALLOC not defined) with
mmap/munmap/calloc redirected; `sqfsmodel mempool` answers the same script.  Per scenario: create <obj_size>, a history of
alloc / free <k> / hostile frees (double free, misaligned, outside every block) / state, destroy; the mmap answers (address
with a random page shift inside a fixed arena, or failure) are part of the script.
Compared: every answer line (block id, offset, bitmap word, obj_free, zeroing, block list; dumped data/limit offsets and all
bitmap words at `state`).  Independently of the model the property is evaluated on the real answers (spec_check): objects
inside their mapping, pairwise disjoint, zeroed; legitimate frees accepted, hostile ones asserted; NULL only when mmap failed
and then with the state unchanged; obj_free = clear bits, set bits = live objects at every `state`.
"""
import re
from concurrent.futures import ThreadPoolExecutor
import vlib

ARENA = 0x200000000000
PAGE = 4096
SLOT = 32 * PAGE
POOL = 65536
HDR = 40
KEY_COUNT0 = "mempool:bitmap-count-0"
KEY_OVERRUN = "mempool:data-area-overrun"
KEY_SHIFT = "mempool:free-shift-31"
REQUIRED_MEMPOOL = ["Sqfs.MemPool." + t for t in (
    "inv_empty", "inv_set", "inv_clear", "inv_link", "createPool_wf", "alloc_step", "alloc_in_bounds", "alloc_fresh", "null_unchanged",
    "live_disjoint", "bitmap_exact", "free_outside_detected", "free_step", "history_inv", "allocate_fuel_enough", "size_layout",
    "createPool_dataOff", "searchCount_spec", "create_spec", "create_count_pos", "create_inv", "data_inside_mapping", "alloc_inside_mapping",
    "alloc_succeeds", "witness_free_shift_31", "witness_bitmap_count_zero", "witness_data_area_overrun")]


def aligned(o):
    return o + (8 - o % 8) % 8


def psz(c, o):
    s = HDR + 4 * c
    if s % o:
        s += o - s % o
    return s + 32 * c * o


def count_old(o):
    o = aligned(o)
    c = 1
    while psz(c, o) <= POOL:
        c += 1
    return c - 1


def count_of(o):
    """only used to AIM the generator (how many objects fill a block); the verdict never depends on it"""
    return max(1, count_old(o))


def pool_of(o):
    """bytes per block (aims the spacing of the mmap addresses the generator hands out)"""
    return POOL if count_old(o) else psz(1, aligned(o))


class Gen:
    def __init__(self, r, obj=8):
        self.r = r
        self.slot = 0
        # room per mmap answer: the block, a fence page on either side, up to 13 pages of shift
        self.stride = max(SLOT, (pool_of(obj) + 16 * PAGE + PAGE - 1) // PAGE * PAGE)

    def base(self, shift=None):
        b = ARENA + PAGE + self.slot * self.stride + (self.r.randrange(14) if shift is None else shift) * PAGE
        self.slot += 1
        return b

    def overrun_base(self, o):
        """a base for which create_pool's padding (absolute address) pushes the data area past the mapping, if any"""
        o = aligned(o)
        c = count_old(o)
        for k in range(self.slot, self.slot + 80):
            for sh in range(14):
                b = ARENA + PAGE + k * SLOT + sh * PAGE
                p = b + HDR + 4 * c
                pad = (o - p % o) % o
                if HDR + 4 * c + pad + 32 * c * o > POOL:
                    self.slot = k + 1
                    return b
        return None


class Sc:
    def __init__(self, tag, kind, obj):
        self.tag, self.kind, self.obj = tag, kind, obj
        self.lines = []
        self.expect_null = set()   # line indices of allocs the generator aimed at a failing mmap

    def text(self):
        return "".join(l + "\n" for l in self.lines)


def size_classes(r):
    return r.choice([
        lambda: r.randrange(1, 65), lambda: r.randrange(1, 65), lambda: r.choice([1, 7, 8, 9, 15, 17, 24, 33, 40, 41, 56, 63, 100, 250]),
        lambda: r.randrange(65, 600), lambda: r.randrange(600, 1990), lambda: r.choice([1 << k for k in range(0, 11)]),
        lambda: r.randrange(1970, 1985), lambda: r.randrange(1985, 4097),
    ])()


def gen_history(r, tag, obj, quick, budget):
    """fill several blocks, free in random order, refill; hostile frees and state dumps in between; mmap failures"""
    g = Gen(r, obj)
    s = Sc(tag, "history", obj)
    per_block = 32 * count_of(obj)
    L = s.lines
    L.append("create %d" % obj)
    nblocks = r.choice([1, 2, 2, 3, 4])
    while nblocks > 1 and nblocks * per_block * 3 > budget:
        nblocks -= 1
    handed, live = 0, []
    q = []

    def maps(entries):
        L.append("maps " + " ".join("F" if e is None else str(e) for e in entries))

    def alloc(will_map_fail=False):
        nonlocal handed
        L.append("alloc")
        if not will_map_fail:
            live.append(handed); handed += 1

    # the mmap queue is refilled before every allocation that can need a block; a failing answer first, sometimes
    blocks = 0
    target = nblocks * per_block + r.randrange(0, 3)
    n_alloc = 0
    freed_once = []
    while n_alloc < min(target, budget):
        if len(live) == blocks * per_block:            # next alloc needs a new block
            if r.random() < 0.5:
                L.append("state"); maps([None]); L.append("alloc"); s.expect_null.add(len(L) - 1); L.append("state")
            if r.random() < 0.3:
                L.append("state"); maps([]); L.append("alloc"); s.expect_null.add(len(L) - 1); L.append("state")
            maps([g.base()] + ([g.base()] if r.random() < 0.2 else []))
            blocks += 1
        alloc(); n_alloc += 1
        x = r.random()
        if x < 0.02 and live:
            k = live.pop(r.randrange(len(live))); L.append("free %d" % k); freed_once.append(k)
        elif x < 0.03 and freed_once:
            L.append("free %d" % r.choice(freed_once))          # double free, unless the slot was handed out again
        elif x < 0.035:
            L.append("freeraw %d %d" % (r.randrange(0, blocks + 2), r.choice([0, 8, 39, 40, HDR + 4 * count_of(obj) - 1, POOL - 1, POOL, POOL + 100, r.randrange(POOL)])))
        if r.random() < 0.004:
            L.append("state")
    L.append("state")
    # free in random order (all, or a part), with double frees in between, then refill
    order = list(live); r.shuffle(order)
    cut = r.choice([len(order), len(order), len(order) // 2, max(1, len(order) // 3)])
    for k in order[:cut]:
        L.append("free %d" % k)
        if r.random() < 0.01:
            L.append("free %d" % k)                         # double free: must assert
        if r.random() < 0.003:
            L.append("state")
    live = order[cut:]
    L.append("state")
    refill = min(cut + r.randrange(0, 40), budget)
    maps([g.base(), None, g.base()])
    for _ in range(refill):
        L.append("alloc")
    L.append("state")
    L.append("destroy")
    return s


def gen_small(r, tag, obj):
    """short scenario with a hostile free of every kind and misaligned pointers inside the data area"""
    g = Gen(r, obj)
    s = Sc(tag, "small", obj)
    L = s.lines
    o = aligned(obj)
    c = count_of(obj)
    L += ["create %d" % obj, "maps %d" % g.base()]
    n = min(r.randrange(1, 70), 32 * c)
    L += ["alloc"] * n
    L.append("state")
    for _ in range(r.randrange(1, 12)):
        x = r.random()
        if x < 0.3:
            L.append("free %d" % r.randrange(n))
        elif x < 0.6:
            L.append("freeraw 0 %d" % r.randrange(HDR + 4 * c, HDR + 4 * c + 3 * o + 40))
        elif x < 0.8:
            L.append("freeraw %d %d" % (r.randrange(1, 4), r.randrange(0, POOL)))
        else:
            L.append("alloc")
    L += ["state", "destroy"]
    return s


def gen_calloc_fail(r, tag, obj):
    s = Sc(tag, "calloc-fail", obj)
    s.lines += ["create %d F" % obj, "create %d" % obj, "destroy"]
    return s


def gen_count0(r, tag, obj):
    """obj_size (after alignment) > 1984: no bitmap word with its 32 objects fits into DEF_POOL_SIZE.  Repaired code: one word per
    block, blocks of pool_size_from_bitmap_count(1, obj_size) bytes.  (Before the repair: bitmap_count 0, mem_pool_allocate
    mapped blocks until mmap failed and returned NULL - reported under KEY_COUNT0 if it shows again.)"""
    g = Gen(r, obj)
    s = Sc(tag, "count0", obj)
    n = r.randrange(1, 4) if obj <= 70000 else r.randrange(1, 3)
    s.nmaps = n
    k = r.choice([1, 5, 32, 33, 40, 64, 65]) if obj <= 70000 else r.choice([1, 3, 33])
    s.lines += ["create %d" % obj, "maps " + " ".join(str(g.base()) for _ in range(n))] + ["alloc"] * min(k, 32 * n) + ["state"]
    if min(k, 32 * n) >= 2:
        s.lines += ["free 0", "free 1", "alloc", "free 0", "state"]
    s.lines += ["destroy"]
    return s


def gen_overrun(r, tag, obj):
    g = Gen(r)
    g.slot = r.randrange(0, 200)
    b = g.overrun_base(obj)
    if b is None:
        return None
    s = Sc(tag, "overrun", obj)
    n = 32 * count_old(obj)
    s.lines += ["create %d" % obj, "maps %d" % b] + ["alloc"] * n + ["state", "destroy"]
    return s


# ----------------------------------------------------------------------------------------------- the property, on real answers
ALLOC = re.compile(r"alloc (\d+) (\d+) word=(\d+):([0-9a-f]{8}) free=(\d+) zero=([01]) inside=([01]) blocks=(\S+)$")
FREE_OK = re.compile(r"free ok word=(\d+):([0-9a-f]{8}) free=(\d+)$")


def spec_check(s, ans):
    """-> list of (line index, what): ways in which the real answers violate the property itself"""
    bad = []
    create = ans[0] if ans else ""
    m = re.match(r"create ok obj=(\d+) pool=(\d+) count=(\d+) hdr=(\d+)$", create)
    if not m:
        return bad
    o, pool, count, hdr = map(int, m.groups())
    if o < s.obj or o % 8 or o - s.obj >= 8:
        bad.append((0, "obj_size %d is not %d rounded up to MEM_ALIGN" % (o, s.obj)))
    live = {}            # (bid, off) -> handed index
    handed = []
    q = []                # pending mmap answers: True = failure
    seen_blocks = set()
    for i, (l, a) in enumerate(zip(s.lines, ans)):
        if l.startswith("maps"):
            toks = l.split()[1:]
            q = [t == "F" for t in toks]
        elif l == "alloc":
            m = ALLOC.match(a)
            if m:
                bid, off, wi, wv, fr, zero, inside = int(m[1]), int(m[2]), int(m[3]), int(m[4], 16), int(m[5]), m[6], m[7]
                if zero != "1":
                    bad.append((i, "object (%d,%d) handed out not zeroed" % (bid, off)))
                if ((inside != "1" or off + o > pool) and s.kind != "overrun") or off < hdr + 4 * count:
                    bad.append((i, "object (%d,%d)+%d is not inside the data area of its %d-byte block (header %d + bitmap %d)" % (bid, off, o, pool, hdr, 4 * count)))
                if (bid, off) in live:
                    bad.append((i, "object (%d,%d) handed out while live" % (bid, off)))
                if bid not in seen_blocks:
                    seen_blocks.add(bid)
                    if not q or q[0]:
                        bad.append((i, "a block appeared without a successful mmap"))
                    q = q[1:]
                live[(bid, off)] = len(handed)
                handed.append((bid, off))
            elif a.startswith("alloc null"):
                if q and not q[0]:
                    bad.append((i, "mem_pool_allocate returned NULL although mmap had an address to give"))
                q = q[1:]
                if i >= 1 and s.lines[i - 2] == "state" and i + 1 < len(ans) and s.lines[i + 1] == "state" and ans[i - 2] != ans[i + 1]:
                    bad.append((i, "a failed mem_pool_allocate changed the pool: %s -> %s" % (ans[i - 2][:120], ans[i + 1][:120])))
            else:
                bad.append((i, "unexpected answer to alloc: %s" % a[:200]))
        elif l.startswith("free "):
            k = int(l.split()[1])
            legit = k < len(handed) and handed[k] in live and live[handed[k]] == k
            if legit:
                if not FREE_OK.match(a):
                    bad.append((i, "mem_pool_free of the live object %s: %s" % (handed[k], a[:100])))
                del live[handed[k]]
            elif k < len(handed) and handed[k] in live:
                # the slot was handed out again under another index: for the allocator this is a valid pointer
                if FREE_OK.match(a):
                    del live[handed[k]]
            elif not a.startswith("free assert"):
                bad.append((i, "double free of %s not detected: %s" % (handed[k] if k < len(handed) else k, a[:100])))
        elif l.startswith("freeraw"):
            bid, off = map(int, l.split()[1:])
            if (bid, off) in live:
                if FREE_OK.match(a):
                    del live[(bid, off)]
                else:
                    bad.append((i, "mem_pool_free of the live object (%d,%d): %s" % (bid, off, a[:100])))
            elif not a.startswith("free assert"):
                bad.append((i, "mem_pool_free of (%d,%d), which is not a live object, not detected: %s" % (bid, off, a[:100])))
        elif l == "state" and a.startswith("state"):
            per = {}
            for (bid, off) in live:
                per.setdefault(bid, set()).add(off)
            for blk in a.split()[1:]:
                if blk == "-":
                    continue
                f = blk.split(":")
                if len(f) != 6:
                    bad.append((i, "unreadable block in state: %s" % blk[:80])); continue
                bid, base, doff, loff, fr = map(int, f[:5])
                words = [] if f[5] == "-" else [int(f[5][j:j + 8], 16) for j in range(0, len(f[5]), 8)]
                setbits = {doff + (32 * wi + j) * o for wi, w in enumerate(words) for j in range(32) if w >> j & 1}
                if len(words) != count:
                    bad.append((i, "block %d has %d bitmap words, bitmap_count is %d" % (bid, len(words), count)))
                if fr != 32 * len(words) - len(setbits):
                    bad.append((i, "block %d: obj_free %d but %d clear bits" % (bid, fr, 32 * len(words) - len(setbits))))
                if setbits != per.get(bid, set()):
                    bad.append((i, "block %d: set bits and live objects differ (%d set, %d live)" % (bid, len(setbits), len(per.get(bid, ())))))
                if s.kind != "overrun" and (doff < hdr + 4 * count or doff % o or (base + doff) % 8 or doff + 32 * count * o > pool):
                    bad.append((i, "block %d: data area [%d, %d) is not an obj_size-aligned area behind the bitmap inside the %d-byte mapping" % (bid, doff, doff + 32 * count * o, pool)))
            # objects of one block pairwise disjoint: all offsets are data + k * obj_size (checked via the bits above)
    return bad


# ----------------------------------------------------------------------------------------------- run
SHIFT_UB = "left shift of 1 by 31 places cannot be represented in type 'int'"


def run_one(ctx, harness, s):
    # UBSan's shift check reports and continues (see build): the report is a result of its own (KEY_SHIFT), the answers still count
    p = vlib.sh([str(harness)], input=s.text(), env=ctx.san_env({"UBSAN_OPTIONS": "print_stacktrace=0:halt_on_error=0:exitcode=98"}), timeout=300)
    ans = p.stdout.splitlines()
    err = p.stderr
    ub = [l for l in err.splitlines() if "runtime error" in l]
    shift = [l for l in ub if SHIFT_UB in l and "mempool.c" in l]
    other = [l for l in ub if l not in shift]
    rc = p.returncode
    if rc == 98 and not other and len(ans) == len(s.lines):
        rc = 0                                   # only the recoverable shift reports
    return ans, rc, ("\n".join(other) + "\n" + err[-1500:]) if other else err[-1500:], shift


def build(ctx):
    return ctx.cc("h_mempool", ["h_mempool.c"], flags=["-UNO_CUSTOM_ALLOC", "-fsanitize-recover=shift"])


def judge(ctx, s, ans, rc, err, mod):
    """-> (key, what, found_input) or None"""
    # a line the MODEL does not understand is a generator error; one that only the harness refuses (`free k` of an object the real
    # code never handed out) is a disagreement and is judged below
    if any(a == "bad-op" for a in mod):
        raise vlib.CheckFailure("mempool scenario %s: a line was not understood (harness %r / model %r)" % (
            s.tag, [l for l, a in zip(s.lines, ans) if a == "bad-op"][:2], [l for l, a in zip(s.lines, mod) if a == "bad-op"][:2]))
    if any("script-error" in a for a in ans):
        raise vlib.CheckFailure("mempool scenario %s: generator error: %s" % (s.tag, [a for a in ans if "script-error" in a][:1]))
    if rc != 0 or len(ans) != len(s.lines):
        i = min(len(ans), len(s.lines) - 1)
        return ("mempool:crash", "mempool.c (obj_size %d): the harness ended with status %s after %d of %d lines (at `%s`): %s" % (
            s.obj, rc, len(ans), len(s.lines), s.lines[i], err[-600:]), True)
    sb = spec_check(s, ans)
    diff = vlib.diff_streams(ans, mod)
    if sb:
        i, what = sb[0]
        return ("mempool:spec", "mempool.c (obj_size %d) violates the allocator property at line %d `%s`: %s%s" % (
            s.obj, i, s.lines[i], what, "" if not diff else "; the model answers `%s`" % mod[diff[0]][:200] if diff[0] < len(mod) else ""), True)
    if diff:
        i = diff[0]
        return ("mempool:model", "mempool.c (obj_size %d) and its model disagree at line %d `%s`: code `%s`, model `%s` (the property evaluated on the real answers is not violated: the theorems no longer speak about this code)" % (
            s.obj, i, s.lines[i] if i < len(s.lines) else "-", ans[i][:300] if i < len(ans) else "-", mod[i][:300] if i < len(mod) else "-"), False)
    return None


def run_units(ctx, stats=None):
    r = ctx.rng
    quick = ctx.quick()
    harness = build(ctx)
    scs = []
    nh = 26 if quick else 400
    budget = 2600 if quick else 30000
    for i in range(nh):
        obj = size_classes(r)
        scs.append(gen_history(r, "h%d" % i, obj, quick, budget))
    # every block full to the last bit, for the smallest object size (252 words) and a mid one
    for i, obj in enumerate([8, 1, 40, 64] if quick else [8, 1, 3, 16, 24, 40, 64, 100, 1000, 1984]):
        scs.append(gen_history(r, "f%d" % i, obj, quick, 9000 if quick else 60000))
    for i in range(40 if quick else 1500):
        scs.append(gen_small(r, "s%d" % i, r.choice([size_classes(r), r.randrange(1, 1985)])))
    for i in range(3 if quick else 30):
        scs.append(gen_calloc_fail(r, "c%d" % i, size_classes(r)))
    n0 = 8 if quick else 120
    for i in range(n0):
        scs.append(gen_count0(r, "z%d" % i, r.choice([1985, 1992, 2000, 2048, 4096, r.randrange(1985, 4097), r.randrange(4097, 65000), 65535, 65536, 65537, 65496, r.randrange(65000, 70000), 1 << 20])))
    for i, obj in enumerate([1001, 1008] + ([] if quick else list(range(1002, 1008)))):
        sc = gen_overrun(r, "o%d" % i, obj)
        if sc is None:
            raise vlib.CheckFailure("generator: no page-aligned base makes obj_size %d overrun its block (the aimed scenario evaluates nothing)" % obj)
        scs.append(sc)

    def work(s):
        ans, rc, err, shift = run_one(ctx, harness, s)
        mod = ctx.driver(["mempool"], s.text())
        return ans, rc, err, mod, shift
    with ThreadPoolExecutor(max_workers=4) as ex:
        res = list(ex.map(work, scs))
    cov = {"scenarios": len(scs), "answer_lines": 0, "allocs": 0, "frees_ok": 0, "asserts": {"noBlock": 0, "misaligned": 0, "notAllocated": 0},
           "null_allocs": 0, "state_dumps": 0, "blocks_max": 0, "obj_sizes": set(), "obj_sizes_not_multiple_of_8": set(), "full_blocks": 0,
           "reused_slots": 0, "count0_scenarios": 0, "overrun_scenarios": 0, "spec_evaluations": 0, "shift_ub_reports": 0, "by_kind": {}, "disagreements": 0}
    reported = set()
    cov["count0_scenarios"] = 0
    for s, (ans, rc, err, mod, shift) in zip(scs, res):
        if shift:
            cov["shift_ub_reports"] += len(shift)
        if shift and KEY_SHIFT not in reported:
            reported.add(KEY_SHIFT)
            ctx.violation(KEY_SHIFT, "mem_pool_free of an object whose allocation bit is bit 31 of its bitmap word evaluates `1 << j` with j = 31 in type int "
                          "(mempool.c:212 and :214): undefined behaviour (UBSan: %s)" % shift[0].strip()[:200], {"scenario": s.text() if len(s.lines) < 3000 else "create 8\nmaps %d\n" % (ARENA + PAGE) + "alloc\n" * 32 + "free 31\ndestroy\n", "obj": s.obj if len(s.lines) < 3000 else 8,
                                      "kind": "history", "report": shift[0], "mempool": True})
        cov["by_kind"][s.kind] = cov["by_kind"].get(s.kind, 0) + 1
        cov["answer_lines"] += len(ans)
        cov["obj_sizes"].add(s.obj)
        if s.obj % 8:
            cov["obj_sizes_not_multiple_of_8"].add(s.obj)
        seen = set()
        for l, a in zip(s.lines, ans):
            if a.startswith("alloc null"):
                cov["null_allocs"] += 1
            elif ALLOC.match(a):
                cov["allocs"] += 1
                w = a.split()
                if (w[1], w[2]) in seen:
                    cov["reused_slots"] += 1
                seen.add((w[1], w[2]))
                cov["blocks_max"] = max(cov["blocks_max"], w[-1].count(",") + 1)
                if " free=0 " in a:
                    cov["full_blocks"] += 1
            elif a.startswith("free ok"):
                cov["frees_ok"] += 1
            elif a.startswith("free assert"):
                k = a.split()[2]
                cov["asserts"][k] = cov["asserts"].get(k, 0) + 1
            elif a.startswith("state"):
                cov["state_dumps"] += 1
        cov["spec_evaluations"] += len(ans)
        # the three defects repaired by fixes/C19-mempool-latent.patch, should they show again (each under its old key)
        if s.kind == "count0" and ans and re.search(r" count=[1-9]\d* ", ans[0]) and len(ans) == len(s.lines) and ALLOC.match(ans[2]):
            cov["count0_scenarios"] += 1                  # an object larger than 1984 bytes was handed out
        if s.kind == "count0" and ans and " count=0 " in ans[0] and KEY_COUNT0 not in reported and len(ans) > 2 and ans[2].startswith("alloc null"):
            reported.add(KEY_COUNT0)
            mapped = 0 if ans[2].endswith("blocks=-") else ans[2].split("blocks=")[1].count(",") + 1
            ctx.violation(KEY_COUNT0, "mem_pool_create(%d): bitmap_count is 0 (no bitmap word fits with 32 objects), mem_pool_allocate then maps a block, finds no slot, "
                          "and maps the next one until mmap fails: it returned NULL after mapping %d of %d available blocks, all of them kept until mem_pool_destroy" % (s.obj, mapped, s.nmaps),
                          {"scenario": s.text(), "obj": s.obj, "kind": s.kind, "nmaps": s.nmaps, "answers": ans[:6], "mempool": True})
        if s.kind == "overrun" and any(" inside=0 " in a for a in ans):
            cov["overrun_scenarios"] += 1
            first = next(a for a in ans if " inside=0 " in a)
            if KEY_OVERRUN not in reported:
                reported.add(KEY_OVERRUN)
                ctx.violation(KEY_OVERRUN, "mem_pool_allocate (obj_size %d): create_pool pads the data area by the ABSOLUTE address modulo obj_size, pool_size_from_bitmap_count by the "
                              "offset: with this mmap address the last object ends beyond the %d-byte mapping: `%s`" % (aligned(s.obj), POOL, first[:160]),
                              {"scenario": s.text(), "obj": s.obj, "kind": s.kind, "answer": first, "mempool": True})
            ans = [a.replace(" inside=0 ", " inside=1 ") for a in ans]          # judged above; compare the rest with the model
            mod = [a.replace(" inside=0 ", " inside=1 ") for a in mod]
        v = judge(ctx, s, ans, rc, err, mod)
        if v is not None:
            cov["disagreements"] += 1
            key, what, found = v
            if key not in reported:
                reported.add(key)
                ctx.violation(key, what, {"scenario": s.text(),
                                          "obj": s.obj, "kind": s.kind, "tag": s.tag, "mempool": True}, found_input=found)
    problems = []
    for name in ("allocs", "frees_ok", "null_allocs", "state_dumps", "full_blocks", "reused_slots", "count0_scenarios"):
        if cov[name] <= 0:
            problems.append("the mempool scenarios evaluated no %s" % name)
    for k, v in cov["asserts"].items():
        if v <= 0:
            problems.append("no hostile mem_pool_free ended in the `%s` assertion" % k)
    if cov["blocks_max"] < 3:
        problems.append("no mempool history grew a pool to 3 blocks")
    if len(cov["obj_sizes_not_multiple_of_8"]) < 10:
        problems.append("fewer than 10 object sizes that are not multiples of 8")
    if problems and not ctx.violations:
        raise vlib.CheckFailure("; ".join(problems))
    cov["obj_sizes"] = len(cov["obj_sizes"])
    cov["obj_sizes_not_multiple_of_8"] = len(cov["obj_sizes_not_multiple_of_8"])
    cov["rule"] = ("obj_size from {1..64, odd picks, 65..599, 600..1989, powers of two, 1970..1984}: histories that fill 1-4 blocks (mmap answers with a random "
                   "page shift; a failing or missing answer before a block is needed, state dumped before and after), frees with prob. 2% during the fill, then "
                   "all / half / a third freed in shuffled order with double frees, refill; small scenarios with hostile frees (double, misaligned inside the data "
                   "area, other blocks, outside); calloc failure; obj_size 1985..2^20 (one bitmap word per block, blocks larger than DEF_POOL_SIZE; 1-65 objects over 1-3 blocks); obj_size 1001..1008 at an mmap address at which the code before the repair overran its block")
    return cov


def replay(ctx, body):
    """re-run a recorded mempool scenario against the current tree; 1 if it still violates the property"""
    rp = body["replay"]
    ctx.lean_build(["sqfsmodel"])
    harness = build(ctx)
    s = Sc("replay", rp.get("kind", "history"), int(rp.get("obj", 8)))
    s.lines = rp["scenario"].splitlines()
    s.nmaps = int(rp.get("nmaps", 0))
    ans, rc, err, shift = run_one(ctx, harness, s)
    mod = ctx.driver(["mempool"], s.text())
    for l, a, m in zip(s.lines[:60], ans, mod):
        print("%-40s | %s%s" % (l[:40], a[:200], "" if a == m else "   MODEL: " + m[:200]))
    if shift:
        print("replay: reproduces -> key=%s: %s" % (KEY_SHIFT, shift[0].strip())); return 1
    if s.kind == "count0" and ans and "count=0" in ans[0] and any(a.startswith("alloc null blocks=") and not a.endswith("blocks=-") for a in ans):
        print("replay: reproduces -> key=%s: bitmap_count 0, allocate mapped every available block and returned NULL" % KEY_COUNT0); return 1
    if any(" inside=0 " in a for a in ans):
        print("replay: reproduces -> key=%s: %s" % (KEY_OVERRUN, next(a for a in ans if " inside=0 " in a))); return 1
    v = judge(ctx, s, ans, rc, err, mod)
    if v is None:
        print("replay: every answer is what the model predicts and the property holds on the answers (no violation)"); return 0
    print("replay: reproduces -> key=%s: %s" % (v[0], v[1][:600]))
    return 1
