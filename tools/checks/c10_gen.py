"""
C10 — generators of toy images for the metadata decoders (dir reader, xattr reader, id table) and of API
histories on them.  Everything is encoded with the toy block codec of harness/h_c10.c so that the real decoders
(read_inode.c, readdir.c, dir_reader.c, xattr_reader.c, read_table.c, id_table.c) run on it; the blocks are
deliberately small and of random size so that almost every record straddles a block boundary.

All randomness comes from the `rng` handed in (ctx.rng).
"""
import struct

U64 = (1 << 64) - 1


def le16(v):
    return struct.pack("<H", v & 0xFFFF)


class MetaStream:
    """a metadata stream cut into toy-coded blocks.  pos(off) -> (block start relative to the stream start, offset)"""

    def __init__(self, rng, data, style=None):
        self.data = bytes(data)
        style = style or rng.choice(["tiny", "small", "small", "mixed", "full"])
        self.style = style
        self.blocks = []          # (rel_start, stream_off, length, disk_bytes)
        disk = bytearray()
        off = 0
        n = len(self.data)
        while off < n or not self.blocks:
            if style == "tiny":
                want = rng.randint(1, 24)
            elif style == "small":
                want = rng.randint(8, 200)
            elif style == "mixed":
                want = rng.choice([1, 7, 64, 300, 1000, 8192])
            else:
                want = 8192
            chunk = self.data[off:off + want]
            raw = self.encode(rng, chunk)
            self.blocks.append((len(disk), off, len(chunk), raw))
            disk += raw
            off += len(chunk)
            if not chunk:
                break
        self.disk = bytes(disk)

    @staticmethod
    def encode(rng, chunk):
        L = len(chunk)
        kinds = ["raw", "raw"]
        if L + 1 <= 8192 and L >= 1:
            kinds.append("id")
        if L + 2 <= 8192 and L >= 1:
            kinds.append("xor")
        if L >= 1 and len(set(chunk)) == 1:
            kinds += ["expand", "expand"]
        k = rng.choice(kinds)
        if k == "raw":
            return le16(0x8000 | L) + chunk
        if k == "id":
            return le16(L + 1) + b"\0" + chunk
        if k == "xor":
            x = rng.randrange(256)
            return le16(L + 2) + bytes([1, x]) + bytes(c ^ x for c in chunk)
        return le16(4) + bytes([3, L & 255, L >> 8, chunk[0]])

    def pos(self, off):
        for rel, soff, ln, _ in self.blocks:
            if soff <= off < soff + ln:
                return rel, off - soff
        # the very end of the stream: "next block" position
        return len(self.disk), 0

    def ref(self, off):
        b, o = self.pos(off)
        return (b << 16) | o


# ------------------------------------------------------------------------------------------------------------------
# inodes and directories

T_DIR, T_FILE, T_SLINK, T_BDEV, T_CDEV, T_FIFO, T_SOCK = 1, 2, 3, 4, 5, 6, 7
MODE_BITS = {1: 0o040000, 2: 0o100000, 3: 0o120000, 4: 0o060000, 5: 0o020000, 6: 0o010000, 7: 0o140000}


def inode_base(rng, typ, inum, mode=None):
    m = mode if mode is not None else (rng.randrange(0o7777 + 1) | rng.choice([0, 0, MODE_BITS[((typ - 1) % 7) + 1], 0o170000]))
    return struct.pack("<HHHHII", typ, m & 0xFFFF, rng.randrange(8), rng.randrange(8), rng.randrange(1 << 32), inum)


def block_count(size, bs, fi, fo):
    c = size // bs
    if size % bs and (fi == 0xFFFFFFFF or fo == 0xFFFFFFFF):
        c += 1
    return c


def make_inode(rng, kind, inum, bs, extra=None):
    """-> (bytes, protected offsets).  kind: one of the 14 type numbers; extra: dict for directories (start_block, offset,
    size, parent).  Protected = the high bytes of size fields: damaging them would make the real code allocate gigabytes
    (SQFS_ERROR_ALLOC depends on the environment and is not modelled)."""
    b, prot = make_inode0(rng, kind, inum, bs, extra)
    return b, prot


def make_inode0(rng, kind, inum, bs, extra=None):
    e = extra or {}
    b = inode_base(rng, kind, inum)
    r32 = lambda: rng.randrange(1 << 32)
    if kind in (2, 9):
        size = rng.choice([0, 1, bs - 1, bs, bs + 1, 3 * bs, rng.randint(0, 6 * bs), rng.randint(0, 40 * bs)])
        huge = rng.random() < 0.03                      # a size whose block list cannot be allocated (SQFS_ERROR_ALLOC)
        fi, fo = rng.choice([(0xFFFFFFFF, 0), (0xFFFFFFFF, 0xFFFFFFFF), (rng.randrange(5), rng.randrange(bs)), (3, 0xFFFFFFFF)])
        cnt = block_count(size, bs, fi, fo)
        blocks = b"".join(struct.pack("<I", rng.choice([0, 1 << 24 | bs, rng.randrange(1, bs)])) for _ in range(cnt))
        if huge:
            size = rng.choice([(1 << 32) - 1, 40 * (1 << 20) * bs, 32 * (1 << 20) * bs + bs * 20])
            size = min(size, (1 << 32) - 1) if kind == 2 else size
        if kind == 2:
            return b + struct.pack("<IIII", r32(), fi, fo, size) + blocks, list(range(16 + 13, 16 + 16))
        return b + struct.pack("<QQQIIII", rng.randrange(1 << 40), size, rng.randrange(size + 1), rng.randint(1, 9), fi, fo,
                               rng.choice([0xFFFFFFFF, rng.randrange(9)])) + blocks, list(range(16 + 9, 16 + 16))
    if kind in (3, 10):
        tgt = bytes(rng.choice(b"abc/.-_xyz") for _ in range(rng.choice([1, 2, 9, 40, 300])))
        tsz = len(tgt) if rng.random() > 0.03 else rng.choice([134217728 - 65, 134217728 - 64, 200000000, (1 << 32) - 1])
        out = b + struct.pack("<II", rng.randint(1, 4), tsz) + tgt
        if kind == 10:
            out += struct.pack("<I", rng.choice([0xFFFFFFFF, rng.randrange(9)]))
        return out, list(range(16 + 5, 16 + 8))
    if kind == 1:
        return b + struct.pack("<IIHHI", e.get("start_block", 0), rng.randint(2, 9), e.get("size", 3) & 0xFFFF, e.get("offset", 0),
                               e.get("parent", 0)), []
    if kind == 8:
        idx = b""
        nidx = e.get("nidx", 0)
        prot = []
        for i in range(nidx):
            nm = bytes(rng.choice(b"abcdefgh") for _ in range(rng.randint(1, 20)))
            prot += list(range(16 + 24 + len(idx) + 9, 16 + 24 + len(idx) + 12))
            idx += struct.pack("<III", rng.randrange(1 << 20), rng.randrange(1 << 16), len(nm) - 1) + nm
        return b + struct.pack("<IIIIHHI", rng.randint(2, 9), e.get("size", 3), e.get("start_block", 0), e.get("parent", 0), nidx,
                               e.get("offset", 0), rng.choice([0xFFFFFFFF, 2])) + idx, prot
    if kind in (4, 5):
        return b + struct.pack("<II", 1, r32()), []
    if kind in (6, 7):
        return b + struct.pack("<I", 1), []
    if kind in (11, 12):
        return b + struct.pack("<III", 1, r32(), rng.choice([0xFFFFFFFF, 1])), []
    if kind in (13, 14):
        return b + struct.pack("<II", 1, rng.choice([0xFFFFFFFF, 1])), []
    raise ValueError(kind)


def gen_dir_image(rng):
    """a toy image with an inode table and a directory table.
    -> dict(img, super=(inode_start, dir_start, id_start, frag_start, export_start, root_ref, bs), refs, dirs, paths)"""
    bs = rng.choice([8, 64, 4096, 131072])
    # --- tree shape: directories with children
    ndirs = rng.randint(1, 5)
    nodes = [{"kind": rng.choice([1, 1, 8]), "children": [], "name": b"", "parent": None}]          # root
    for i in range(ndirs - 1):
        p = rng.randrange(len(nodes))
        while nodes[p]["kind"] not in (1, 8):
            p = rng.randrange(len(nodes))
        nodes.append({"kind": rng.choice([1, 8]), "children": [], "parent": p})
        nodes[p]["children"].append(len(nodes) - 1)
    dirs_idx = [i for i, n in enumerate(nodes) if n["kind"] in (1, 8)]
    nleaf = rng.choice([3, 10, 30, 120])
    for i in range(nleaf):
        p = rng.choice(dirs_idx)
        nodes.append({"kind": rng.choice([2, 2, 9, 3, 10, 4, 5, 6, 7, 11, 12, 13, 14]), "children": [], "parent": p})
        nodes[p]["children"].append(len(nodes) - 1)
    # names: unique per directory, a few with awkward shapes
    for p in dirs_idx:
        used = set()
        for c in nodes[p]["children"]:
            while True:
                nm = bytes(rng.choice(b"abcdefghijklmnopqrstuvwxyz0123456789._-") for _ in range(rng.choice([1, 1, 2, 3, 8, 30, 100])))
                if rng.random() < 0.1 and used:
                    nm = rng.choice(sorted(used)) + bytes([rng.choice(b"xyz")])             # prefix of another name
                if nm not in used and nm not in (b".", b".."):
                    break
            used.add(nm)
            nodes[c]["name"] = nm
    # --- inode stream: two passes (directory inodes need the position of their listing; listings need inode positions)
    order = list(range(len(nodes)))
    rng.shuffle(order)
    for i, n in enumerate(nodes):
        n["inum"] = i + 1
        n["nidx"] = rng.choice([0, 0, 1, 3]) if n["kind"] == 8 else 0
    state = rng.getstate()

    dmg_ino = rng.choice([0, 0, 0, 1, 3])

    def build_inodes(listing_pos):
        rng.setstate(state)
        stream = bytearray()
        offs = {}
        prot = set()
        for i in order:
            n = nodes[i]
            offs[i] = len(stream)
            extra = None
            if n["kind"] in (1, 8):
                sb, so, sz = listing_pos.get(i, (0, 0, 3))
                extra = {"start_block": sb, "offset": so, "size": sz, "parent": nodes[n["parent"]]["inum"] if n["parent"] is not None else 0,
                         "nidx": n["nidx"]}
            ib, ip = make_inode(rng, n["kind"], n["inum"], bs, extra)
            prot.update(len(stream) + q for q in ip)
            stream += ib
        # damaged inode table: flips anywhere but in the high bytes of size fields (same flips in both passes)
        for _ in range(dmg_ino):
            q = rng.randrange(len(stream))
            if q not in prot:
                stream[q] ^= 1 << rng.randrange(8)
        return bytes(stream), offs

    ino_bytes, offs = build_inodes({})
    style = rng.choice(["tiny", "small", "small", "mixed", "full"])
    st2 = rng.getstate()
    ino_stream = MetaStream(rng, ino_bytes, style)
    # --- directory stream
    dstream = bytearray()
    listing = {}
    for p in dirs_idx:
        ch = sorted(nodes[p]["children"], key=lambda c: nodes[c]["name"])
        start = len(dstream)
        i = 0
        while i < len(ch):
            b0, _ = ino_stream.pos(offs[ch[i]])
            base_inum = nodes[ch[i]]["inum"]
            run = []
            while i < len(ch) and len(run) < rng.choice([1, 3, 256, 256]):
                bb, oo = ino_stream.pos(offs[ch[i]])
                diff = nodes[ch[i]]["inum"] - base_inum
                if bb != b0 or not -32768 <= diff <= 32767:
                    break
                run.append((ch[i], oo, diff))
                i += 1
            dstream += struct.pack("<III", len(run) - 1, b0, base_inum)
            for c, oo, diff in run:
                nm = nodes[c]["name"]
                dstream += struct.pack("<HhHH", oo, diff, ((nodes[c]["kind"] - 1) % 7) + 1, len(nm) - 1) + nm
        listing[p] = (start, len(dstream) - start)
    dir_stream = MetaStream(rng, bytes(dstream), rng.choice(["tiny", "small", "small", "mixed", "full"]))
    lpos = {}
    for p, (start, ln) in listing.items():
        b, o = dir_stream.pos(start)
        lpos[p] = (b, o, (ln + 3) if ln else rng.choice([3, 0, 3]))
    # second pass with the real listing positions (same rng state -> same sizes, same block cut)
    ino_bytes2, offs2 = build_inodes(lpos)
    assert offs2 == offs and len(ino_bytes2) == len(ino_bytes)
    rng.setstate(st2)
    ino_stream = MetaStream(rng, ino_bytes2, style)
    lead = bytes(rng.randrange(256) for _ in range(rng.choice([0, 0, 96, rng.randint(1, 50)])))
    img = bytearray(lead)
    inode_start = len(img)
    img += ino_stream.disk
    dir_start = len(img)
    img += dir_stream.disk
    id_start = len(img)
    tail = bytes(rng.randrange(256) for _ in range(rng.choice([0, 8, 40])))
    img += tail
    frag_start, export_start = rng.choice([(U64, U64), (id_start, U64), (U64, id_start), (max(dir_start, id_start - 3), U64)])
    refs = {i: ino_stream.ref(offs[i]) for i in range(len(nodes))}
    # full paths
    paths = {}

    def path_of(i):
        if i in paths:
            return paths[i]
        n = nodes[i]
        paths[i] = b"" if n["parent"] is None else path_of(n["parent"]) + b"/" + n["name"]
        return paths[i]
    for i in range(len(nodes)):
        path_of(i)
    return {"img": bytes(img), "super": (inode_start, dir_start, id_start, frag_start, export_start, refs[0], bs),
            "refs": [refs[i] for i in range(len(nodes))], "dirs": [refs[i] for i in dirs_idx], "paths": [paths[i] for i in range(len(nodes))],
            "ino_span": (inode_start, dir_start), "dir_span": (dir_start, id_start), "nodes": len(nodes), "bs": bs,
            "kinds": ["ino:%d" % n["kind"] for n in nodes] + (["dirimg:inode-table-damaged"] if dmg_ino else [])}


def damage(rng, img, lo, hi, n):
    b = bytearray(img)
    for _ in range(n):
        if hi <= lo:
            break
        i = rng.randrange(lo, hi)
        b[i] = rng.choice([b[i] ^ (1 << rng.randrange(8)), b[i] ^ 1, (b[i] + 1) & 255, 0, 255])
    return bytes(b)


def gen_dir_episode(rng, nops):
    g = gen_dir_image(rng)
    img = g["img"]
    dmg = rng.random() < 0.35
    if dmg:
        # on-disk flips in the directory table (entries, headers, block headers); the inode table is damaged at stream
        # level by gen_dir_image, which spares the high bytes of size fields
        lo, hi = g["dir_span"]
        img = damage(rng, img, lo, hi, rng.choice([1, 2, 5]))
    lines = ["file " + img.hex()]
    if rng.random() < 0.25:
        lo, hi = rng.choice([g["ino_span"], g["dir_span"]])
        if hi > lo:
            lines.append("bad %d %d" % (rng.randrange(lo, hi), rng.randint(1, 3)))
    s = g["super"]
    nrd = rng.randint(1, 2)
    for k in range(nrd):
        lines.append("dd %d new %d %d %d %d %d %d %d" % ((k,) + s))
    refs, dirs, paths = g["refs"], g["dirs"], g["paths"]

    def any_ref():
        r = rng.random()
        if r < 0.75:
            return rng.choice(refs)
        if r < 0.9:
            return max(0, rng.choice(refs) + rng.choice([-1, 1, 2, 16, 1 << 16, -(1 << 16), 8192, 65535]))
        return rng.choice([rng.randrange(1 << 20), rng.randrange(1 << 34), (1 << 48) - 1, (1 << 64) - 1, 8192 << 16, 0])

    def any_path():
        p = rng.choice(paths)
        r = rng.random()
        if r < 0.15:
            p = p + rng.choice([b"/nope", b"x", b"//", b"/", b"/a/b"])
        elif r < 0.25:
            p = p[:max(0, len(p) - rng.randint(1, 3))]
        elif r < 0.35:
            p = p.replace(b"/", b"///")
        if rng.random() < 0.3:
            p = p.lstrip(b"/")
        return p

    open_slots = []
    for _ in range(nops):
        k = rng.randrange(nrd)
        r = rng.random()
        if r < 0.25:
            lines.append("dd %d inode %d" % (k, any_ref()))
        elif r < 0.40:
            lines.append("dd %d ls %d" % (k, rng.choice(dirs) if rng.random() < 0.85 else any_ref()))
        elif r < 0.55:
            lines.append("dd %d path %s" % (k, any_path().hex() or "-"))
        elif r < 0.65:
            j = rng.randrange(4)
            lines.append("dd %d open %d %d" % (k, j, rng.choice(dirs) if rng.random() < 0.9 else any_ref()))
            if j not in open_slots:
                open_slots.append(j)
        else:
            j = rng.choice(open_slots) if open_slots and rng.random() < 0.95 else rng.randrange(4)
            lines.append("dd %d next %d" % (k, j))
    return lines, {"img_len": len(img), "kinds": g["kinds"] + ["dirimg:" + ("damaged" if dmg else "valid")], "nodes": g["nodes"]}


# ------------------------------------------------------------------------------------------------------------------
# xattr tables

PREFIX = {0: b"user.", 1: b"trusted.", 2: b"security."}


def gen_xattr_episode(rng, nops):
    nsets = rng.randint(1, 12)
    kv = bytearray()
    stored = []          # stream offsets of inline value records (usable as out-of-line targets)
    sets = []            # (start, npairs, nbytes)
    patches = []         # (position of the 8-byte reference, stream offset of the referenced value record)
    protected = set()    # high bytes of value sizes: flipping them would make the real code allocate gigabytes
    for _ in range(nsets):
        start = len(kv)
        n = rng.choice([0, 1, 1, 2, 3, 6])
        for _ in range(n):
            typ = rng.choice([0, 0, 1, 2])
            if rng.random() < 0.04:
                typ = rng.choice([3, 7, 255])                                # unsupported prefix
            key = bytes(rng.choice(b"abcdefghij.") for _ in range(rng.choice([1, 3, 10, 40])))
            ool = bool(stored) and rng.random() < 0.4
            kv += struct.pack("<HH", typ | (0x100 if ool else 0), len(key)) + key
            if ool:
                kv += struct.pack("<I", 8)
                patches.append((len(kv), rng.choice(stored)))
                kv += struct.pack("<Q", 0)                                   # patched once the block cut is known
            else:
                val = bytes(rng.randrange(256) for _ in range(rng.choice([0, 1, 8, 9, 50, 300])))
                stored.append(len(kv))
                protected.update(range(len(kv) + 1, len(kv) + 4))
                # rarely a size that cannot be allocated (SQFS_ERROR_ALLOC between the value header and the value)
                vsz = len(val) if rng.random() > 0.02 else rng.choice([134217728 - 5, 134217728 - 4, 134217728 - 40, 300000000, (1 << 32) - 1])
                kv += struct.pack("<I", vsz) + val
        sets.append((start, n, len(kv) - start))
    dmg = rng.random() < 0.3
    if dmg and kv:
        for _ in range(rng.choice([1, 2, 4])):
            q = rng.randrange(len(kv))
            if q not in protected:
                kv[q] ^= 1 << rng.randrange(8)
    style = rng.choice(["tiny", "small", "small", "mixed", "full"])
    st = rng.getstate()
    ks = MetaStream(rng, bytes(kv), style)
    bad_refs = 0
    for pos, tgt in patches:
        ref = ks.ref(tgt)
        if rng.random() < 0.15:
            # a reference that fails: outside the table (refused by the range check), or - passing the range check - behind the
            # data of an existing block, into the middle of a record (garbage size), or one block further
            blk = rng.choice(ks.blocks)
            ref = rng.choice([(blk[0] << 16) | min(8191, blk[2] + rng.randint(0, 3)), (blk[0] << 16) | min(8191, blk[2] + rng.randint(0, 3)),
                              ks.ref(rng.randrange(len(kv))), ref + 1, ref | 8192, 1 << 40, ref + (1 << 16)])
            bad_refs += 1
        kv[pos:pos + 8] = struct.pack("<Q", ref)
    rng.setstate(st)
    ks = MetaStream(rng, bytes(kv), style)                                   # same cut, references filled in
    descs = bytearray()
    for start, n, size in sets:
        cnt = n if rng.random() < 0.9 else rng.choice([n + 1, max(0, n - 1), n + 5])
        descs += struct.pack("<QII", ks.ref(start), cnt, size)
    img = bytearray(bytes(rng.randrange(256) for _ in range(rng.choice([0, 0, 17]))))
    id_table_start = rng.choice([0, len(img)])
    xattr_start = len(img)
    img += ks.disk
    # the id blocks hold 512 descriptors each (the index arithmetic of get_desc assumes full blocks)
    id_blocks = []
    off = 0
    while off < len(descs) or not id_blocks:
        chunk = bytes(descs[off:off + 8192])
        id_blocks.append(len(img))
        img += MetaStream.encode(rng, chunk)
        off += 8192
        if not chunk:
            break
    tbl_start = len(img)
    nids = len(sets)
    if rng.random() < 0.1:
        nids = rng.choice([nids + 1, max(0, nids - 1), nids + 600])
    img += struct.pack("<QII", xattr_start, nids, 0)
    nblk = (nids * 16 + 8191) // 8192
    for i in range(nblk):
        img += struct.pack("<Q", id_blocks[i] if i < len(id_blocks) else rng.choice([0, len(img) + 100, id_blocks[-1]]))
    used = len(img)
    if rng.random() < 0.08:
        used = rng.choice([tbl_start, tbl_start + 8, used + 10])
    out = bytes(img)
    lines = ["file " + out.hex()]
    if rng.random() < 0.2:
        lines.append("bad %d %d" % (rng.randrange(xattr_start, max(xattr_start + 1, tbl_start)), rng.randint(1, 2)))
    nrd = rng.randint(1, 2)
    noflag = 1 if rng.random() < 0.05 else 0
    tstart = tbl_start if rng.random() < 0.95 else rng.choice([U64, used, used + 5])
    for k in range(nrd):
        lines.append("xr %d new %d %d %d %d" % (k, noflag, tstart, id_table_start, used))

    def any_idx():
        r = rng.random()
        if r < 0.8:
            return rng.randrange(len(sets))
        return rng.choice([len(sets), len(sets) + 1, 511, 512, 513, 0xFFFFFFFF, 0xFFFFFFFE, 0])

    for _ in range(nops):
        k = rng.randrange(nrd)
        r = rng.random()
        if r < 0.2:
            lines.append("xr %d desc %d" % (k, any_idx()))
        elif r < 0.5:
            lines.append("xr %d all %d" % (k, any_idx()))
        elif r < 0.6:
            if rng.random() < 0.85:
                lines.append("xr %d seek %d" % (k, ks.ref(rng.choice(sets)[0])))
            else:
                lines.append("xr %d seek %d" % (k, rng.choice([0, 5, 1 << 16, 8192, 1 << 40, ks.ref(len(kv))])))
        elif r < 0.78:
            lines.append("xr %d key" % k)
        elif r < 0.93:
            lines.append("xr %d val" % k)
        else:
            # a value read with a key header that need not match the stream (wrong out-of-line flag), then an ordinary request
            lines.append("xr %d valt %d" % (k, rng.choice([0x100, 0x100, 0x101, 0, 2, 0x1ff])))
            lines.append("xr %d all %d" % (k, any_idx()))
    return lines, {"img_len": len(out), "kinds": ["xattr:sets=%d" % min(len(sets), 5), "xattr:" + ("damaged" if dmg else "valid"),
                                                     "xattr:ool" if patches else "xattr:inline"] + (["xattr:failing-ool-ref"] if bad_refs else [])}


# ------------------------------------------------------------------------------------------------------------------
# id tables

def gen_id_episode(rng, nops):
    n = rng.choice([1, 2, 5, 100, 2048, 2049, 5000])
    ids = [rng.randrange(1 << 32) for _ in range(n)]
    raw = b"".join(struct.pack("<I", v) for v in ids)
    img = bytearray(bytes(rng.randrange(256) for _ in range(rng.choice([0, 13]))))
    dir_start = len(img)
    starts = []
    for off in range(0, len(raw), 8192):
        starts.append(len(img))
        img += MetaStream.encode(rng, raw[off:off + 8192])
    if rng.random() < 0.1 and len(starts) > 1:
        rng.shuffle(starts)
    tbl = len(img)
    for s in starts:
        img += struct.pack("<Q", s if rng.random() < 0.97 else rng.choice([0, tbl, s + 1, U64]))
    used = len(img)
    cnt = n if rng.random() < 0.85 else rng.choice([0, n - 1, n + 1, min(65535, n + 3000)])
    cnt = max(0, min(65535, cnt))
    frag, exp = rng.choice([(U64, U64), (dir_start + 1, U64), (U64, dir_start + 2), (tbl, tbl)])
    dmg = rng.random() < 0.2
    out = damage(rng, bytes(img), dir_start, used, 2) if dmg else bytes(img)
    lines = ["file " + out.hex()]
    if rng.random() < 0.15:
        lines.append("bad %d 1" % rng.randrange(dir_start, used))
    nrd = rng.randint(1, 2)
    for k in range(nrd):
        lines.append("idt %d new %d %d %d %d %d %d" % (k, cnt, tbl, dir_start, frag, exp, used if rng.random() < 0.9 else tbl))
    for _ in range(nops):
        lines.append("idt %d get %d" % (rng.randrange(nrd), rng.choice([0, 1, n - 1, n, n + 1, rng.randrange(n + 2), 2047, 2048, 65535])))
    return lines, {"img_len": len(out), "kinds": ["ids:%d" % n, "ids:" + ("damaged" if dmg else "valid")]}
