"""
C01 (tool level) -- the case generators: boundary matrix of the property's quantifier + seeded random trees.

Every generator returns a case dict (see c01_gen) with "kind"/"name" labels.  All randomness comes from the `rng` passed in
(ctx.rng -> VERIF_SEED).
"""
import random

from checks import c01_gen as G

COMPS = ["gzip", "xz", "lz4", "zstd"]
BLOCKS = [4096, 8192, 16384, 32768, 65536, 131072, 262144, 524288, 1048576]
IDS = [0, 1, 2, 1000, 65534, 65535, 65536, 2 ** 31 - 1, 2 ** 31, 2 ** 32 - 2, 2 ** 32 - 1]
MODES = [0o644, 0o600, 0o755, 0o4755, 0o2711, 0o1777, 0o7777, 0, 0o400, 0o666, 0o1000]
MTIMES = [0, 1, 86400, 1234567890, 2 ** 31 - 1, 2 ** 31, 2 ** 32 - 1]

# name material: spaces, quotes, backslashes, tabs, high bytes, invalid UTF-8, glob and comment characters
SPECIAL_NAMES = ["with space", " lead", "trail ", 'q"uote', "back\\slash", "tab\there", "h\xe9llo", "\xff\xfe", "\xc3\xa4\xc3\xb6", "\xc3",
                 "#hash", "-dash", "star*", "qm?", "[br]", "a=b", "'single'", "\\", '"', "\\\"", "..dots", "...", ".hidden", "a\\\\b",
                 "dollar$var", "semi;colon", "\x01ctl", "\x7f", "~tilde", "e´".encode("utf-8").decode("latin-1"), "%41", "{a,b}", "|pipe", "a&b", "`bt`"]


def pick_name(rng, used, fancy=0.3, maxlen=40, allow_nl=False):
    for _ in range(50):
        r = rng.random()
        if r < fancy:
            nm = rng.choice(SPECIAL_NAMES)
            if rng.random() < 0.3:
                nm += "%d" % rng.randrange(100)
        elif r < fancy + 0.05:
            nm = "".join(chr(rng.choice([0x20, 0x22, 0x5c, 0x09, 0x61, 0x80, 0xff, 0x2e, 0x23])) for _ in range(rng.randint(1, 6)))
        elif r < fancy + 0.08:
            nm = rng.choice("abcxyzAZ09_")
        else:
            nm = rng.choice(["f", "file", "data", "lib", "x", "conf", "a", "zz", "Makefile", "img"]) + "%d" % rng.randrange(1000) + rng.choice(["", "", ".txt", ".so", ".so.1", ".c"])
        if allow_nl and rng.random() < 0.004:
            nm += "\nnl"
        nm = nm[:maxlen]
        if nm in ("", ".", "..") or "/" in nm or "\0" in nm or nm in used:
            continue
        if not allow_nl and ("\n" in nm or "\r" in nm):
            continue
        used.add(nm)
        return nm
    nm = "n%d" % len(used)
    used.add(nm)
    return nm


def long_name(rng, n, used):
    alpha = "abcdefghijklmnopqrstuvwxyz0123456789 \"\\\xe9"
    while True:
        nm = "".join(rng.choice(alpha) for _ in range(n))
        if nm not in used and nm.strip(" ") == nm:
            used.add(nm)
            return nm


def rnd_content(rng, bs, cls=None):
    """file contents by size class relative to the block size and by kind"""
    cls = cls or rng.choice(["0", "1", "small", "small", "B-1", "B", "B+1", "2B-1", "2B", "2B+1", "kB+r"])
    size = {"0": 0, "1": 1, "small": rng.randrange(2, min(bs, 3000)), "B-1": bs - 1, "B": bs, "B+1": bs + 1, "2B-1": 2 * bs - 1,
            "2B": 2 * bs, "2B+1": 2 * bs + 1, "kB+r": rng.randrange(1, 4) * bs + rng.randrange(0, bs)}[cls]
    if bs >= 262144 and size > bs and rng.random() < 0.7:
        size = bs + (size % bs)         # keep big-block cases small
    return content_of(rng, size, bs), cls


def content_of(rng, size, bs, kind=None):
    kind = kind or rng.choice(["r", "r", "t", "t", "z", "midzero", "endzero", "p", "mixed"])
    sd = rng.randrange(1 << 30)
    if size == 0:
        return []
    if kind in ("r", "t"):
        return [[kind, size, sd]]
    if kind == "z":
        return [["z", size]]
    if kind == "p":
        return [["p", size, rng.choice([0x41, 0xff, 0x01])]]
    if kind == "midzero" and size > 2 * bs:
        return [["r", bs, sd], ["z", bs], ["t", size - 2 * bs, sd + 1]]
    if kind == "endzero" and size > bs:
        k = (size // bs) * bs if size % bs else size - bs
        return [["t", k, sd], ["z", size - k]] if size > k > 0 else [["t", size, sd]]
    if kind == "mixed" and size > 10:
        a = rng.randrange(1, size)
        return [["r", a, sd], ["t", size - a, sd + 1]]
    return [["t", size, sd]]


def rnd_xattrs(rng, n=None, prefixes=("user.", "trusted.", "security."), shared=None):
    out = []
    keys = set()
    for _ in range(n if n is not None else rng.choice([1, 1, 2, 3, 5])):
        k = rng.choice(prefixes) + rng.choice(["c01", "k", "mime_type", "selinuxish", "a.b.c", "K-%d" % rng.randrange(50), "x" * rng.choice([1, 30, 200])])
        if k in keys:
            continue
        keys.add(k)
        r = rng.random()
        if shared and r < 0.35:
            v = rng.choice(shared)
        elif r < 0.45:
            v = b""
        elif r < 0.6:
            v = rng.randbytes(rng.choice([1, 7, 8, 9, 16, 100, 1000]))
        elif r < 0.7:
            v = b"text with \"quotes\" and \\ and \n newline"[:rng.randrange(1, 40)]
        elif r < 0.75:
            v = b"nul\0inside"
        else:
            v = ("value-%d" % rng.randrange(1000)).encode()
        out.append([k, v.hex()])
    return out


def xa_entries(rng, path, kvs):
    return [path, [[k, hv, rng.choice(["hex", "hex", "HEX", "b64", "text", "text"])] for k, hv in kvs]]


def xa_for_fs(rng, fs, pr=0.3):
    """--xattr-file entries for a real tree: the attributes of a multiply-linked inode are listed under every one of its
    names (as `getfattr --dump` does)"""
    out = []
    for x in fs:
        if x["t"] == "link" or not x["p"] or rng.random() >= pr:
            continue
        names = [x["p"]] + [l["p"] for l in fs if l["t"] == "link" and l["to"] == x["p"]]
        if not all(xattr_path_ok(n) for n in names):
            continue
        kvs = rnd_xattrs(rng)
        ent = xa_entries(rng, x["p"], kvs)
        for n in names:
            out.append([n, ent[1]])
    return out


def xattr_path_ok(path):
    """paths that can be written after `# file: ` (one line, surrounding blanks are not part of it)"""
    return path == path.strip(" \t\r\n\v\f") and "\n" not in path and "\r" not in path and path != ""


# ----------------------------------------------------------------------------------------------------------------
# options

def rnd_extra(rng, comp, bs=131072):
    if comp == "gzip":
        parts = []
        if rng.random() < 0.6:
            parts.append("level=%d" % rng.randint(1, 9))
        if rng.random() < 0.5:
            parts.append("window=%d" % rng.randint(8, 15))
        parts += rng.sample(["default", "filtered", "huffman", "rle", "fixed"], rng.choice([0, 0, 1, 2, 5]))
        return ",".join(parts) or None
    if comp == "xz":
        parts = []
        if rng.random() < 0.4:
            parts.append("level=%d" % rng.randint(0, 9))
        if rng.random() < 0.4:
            # accepted range (not documented by -X help): 8 KiB .. 1 MiB
            parts.append("dictsize=" + rng.choice((["50%", "100%"] if bs >= 16384 else ["200%"] if bs >= 4096 else []) + ["8K", "8192", "1M", "32K", "1048576"]))
        if rng.random() < 0.3:
            lc = rng.randint(0, 4)
            parts.append("lc=%d" % lc)
            parts.append("lp=%d" % rng.randint(0, 4 - lc))
        if rng.random() < 0.3:
            parts.append("pb=%d" % rng.randint(0, 4))
        if rng.random() < 0.25:
            parts.append("extreme")
        parts += rng.sample(["x86", "powerpc", "ia64", "arm", "armthumb"], rng.choice([0, 0, 1, 2]))
        return ",".join(parts) or None
    if comp == "lz4":
        return "hc" if rng.random() < 0.5 else None
    if comp == "zstd":
        return "level=%d" % rng.choice([1, 3, 9, 15, 19, 22]) if rng.random() < 0.6 else None
    return None


def rnd_opts(rng, mode, comp=None, bs=None, plain=False):
    comp = comp or rng.choice(COMPS)
    o = {"comp": comp, "bs": bs or rng.choice(BLOCKS[:6] if rng.random() < 0.85 else BLOCKS)}
    if plain:
        return o
    if rng.random() < 0.35:
        o["X"] = rnd_extra(rng, comp, o["bs"])
        if not o["X"]:
            del o["X"]
    for k, pr in (("T", 0.25), ("e", 0.3), ("f", 0.2), ("long", 0.2)):
        if rng.random() < pr:
            o[k] = True
    if rng.random() < 0.15:
        o["q"] = False          # progress output on stdout
    if rng.random() < 0.3:
        o["j"] = rng.choice([1, 2, 3, 4, 8])
        if rng.random() < 0.5:
            o["Q"] = rng.choice([1, 2, 5, 40])
    if rng.random() < 0.15:
        o["B"] = rng.choice([1024, 2048, 4096, 8192, 65536])
    if rng.random() < 0.3:
        d = {}
        for k, vals in (("uid", [0, 5, 1000, 2 ** 31 - 1]), ("gid", [0, 7, 100, 2 ** 31 - 1]), ("mode", [0o755, 0o700, 0o1777, 0o7777, 0]), ("mtime", MTIMES)):
            if rng.random() < 0.5:
                d[k] = rng.choice(vals)
        if d:
            o["d"] = d
    if rng.random() < 0.25:
        o["sde"] = rng.choice(["0", "1", "1600000000", "4294967295", "4294967296", "abc", "-5", "12x", ""])
    r = rng.random()
    if r < 0.1:
        o["allroot"] = True
    elif r < 0.25:
        o["u"] = rng.choice(IDS)
        if rng.random() < 0.6:
            o["g"] = rng.choice(IDS)
    elif r < 0.3:
        o["g"] = rng.choice(IDS)
    if mode == "packdir":
        for k, pr in (("k", 0.4), ("x", 0.4), ("H", 0.15), ("o", 0.1)):
            if rng.random() < pr:
                o[k] = True
    return o


# ----------------------------------------------------------------------------------------------------------------
# trees

def rnd_attrs(rng, mt=False):
    a = {"m": rng.choice(MODES), "u": rng.choice(IDS), "g": rng.choice(IDS)}
    if mt:
        # a real file cannot be owned by id 2^32-1: chown(-1) means "leave unchanged"
        a["u"], a["g"] = rng.choice(IDS[:-1]), rng.choice(IDS[:-1])
        a["mt"] = rng.choice(MTIMES + [2 ** 33, -5, rng.randrange(0, 2 ** 32)])
    return a


def gen_dirs(rng, ndirs, depth, used_by_dir, fancy):
    dirs = [""]
    for _ in range(ndirs):
        par = rng.choice(dirs)
        if par.count("/") >= depth:
            par = ""
        nm = pick_name(rng, used_by_dir.setdefault(par, set()), fancy)
        dirs.append((par + "/" + nm) if par else nm)
    return dirs


def mixed_packfile(rng, n, bs, fancy=0.3, with_xattr=True, links=False):
    """pack file with every directive but glob; sources below src/"""
    used, fs, lines, xa = {}, [{"p": "src", "t": "dir", "m": 0o755}], [], []
    dirs = gen_dirs(rng, max(1, n // 6), 4, used, fancy)
    explicit = set()
    shared_vals = [rng.randbytes(40), b"shared-long-value-0123456789", b"12345678", b"123456789"]
    dup_pool = []
    files = []
    for d in dirs[1:]:
        if rng.random() < 0.6:
            explicit.add(d)
    order = []
    for i in range(n):
        d = rng.choice(dirs)
        nm = pick_name(rng, used.setdefault(d, set()), fancy)
        p = "/" + ((d + "/" + nm) if d else nm)
        r = rng.random()
        a = rnd_attrs(rng)
        if r < 0.5:
            if dup_pool and rng.random() < 0.2:
                c = rng.choice(dup_pool)
            elif dup_pool and rng.random() < 0.15:
                # shared tail: a different head, the same tail end
                base = rng.choice(dup_pool)
                tail = base[-1:] if base else []
                c = [["r", bs, rng.randrange(1 << 30)]] + tail
            else:
                c, _ = rnd_content(rng, bs)
            dup_pool.append(c)
            src = "src/f%d" % len(fs)
            fs.append({"p": src, "t": "file", "c": c})
            l = {"t": "file", "p": p, "loc": src, **a}
            files.append(p)
        elif r < 0.62:
            l = {"t": "slink", "p": p, "tg": rng.choice(["/x", "../y", "t" * rng.choice([1, 100, 300, 4000]), "with space", 'q"t', "b\\s", "\xff\xfe", "a/./b//c/"]), **a}
        elif r < 0.72:
            l = {"t": "nod", "p": p, "dt": rng.choice("cb"), "maj": rng.choice([0, 1, 5, 255, 256, 4095]), "min": rng.choice([0, 1, 255, 256, 65535, 0xfffff]), **a}
        elif r < 0.8:
            l = {"t": "pipe", "p": p, **a}
        elif r < 0.88:
            l = {"t": "sock", "p": p, **a}
        else:
            l = {"t": "dir", "p": p, **a}
            dirs.append(p[1:])
        order.append(l)
    dl = [{"t": "dir", "p": "/" + d, **rnd_attrs(rng)} for d in explicit]
    # explicit directories sometimes before, sometimes after their contents (an implicit directory is then updated)
    for l in dl:
        order.insert(rng.randrange(len(order) + 1), l)
    if rng.random() < 0.3:
        order.insert(rng.randrange(len(order) + 1), {"t": "dir", "p": "/", **rnd_attrs(rng)})
    if links and files:
        for k in range(rng.randint(1, 4)):
            tgt = rng.choice(files)
            for j in range(rng.randint(1, 4)):
                d = rng.choice(dirs)
                nm = pick_name(rng, used.setdefault(d, set()), 0.1)
                order.append({"t": "link", "p": "/" + ((d + "/" + nm) if d else nm), "m": 0o777, "u": 0, "g": 0, "to": tgt if rng.random() < 0.5 else tgt[1:]})
    lines = order
    if with_xattr:
        for l in lines:
            if l["t"] != "link" and rng.random() < 0.3 and xattr_path_ok(l["p"][1:] if l["p"] != "/" else "/"):
                pre = ("user.", "trusted.", "security.")
                path = l["p"][1:] if l["p"] != "/" else "/"
                if rng.random() < 0.3:
                    path = "/" + path.lstrip("/")
                xa.append(xa_entries(rng, path, rnd_xattrs(rng, prefixes=pre, shared=shared_vals)))
    return {"mode": "packfile", "fs": fs, "lines": lines, "xa": xa, "fmtseed": rng.randrange(1 << 16)}


def mixed_fs(rng, n, bs, fancy=0.3, links=True, xattrs=True, root="", allow_nl=True):
    """a real directory tree: every inode type root can create, hard link groups across directories, xattrs"""
    used = {}
    pre = root + "/" if root else ""
    fs = []
    if root:
        fs.append({"p": root, "t": "dir", "m": 0o755, "u": 0, "g": 0, "mt": 1000})
    dirs = gen_dirs(rng, max(1, n // 6), 4, used, fancy)
    for d in dirs[1:]:
        fs.append({"p": pre + d, "t": "dir", **rnd_attrs(rng, True)})
    files = []
    for i in range(n):
        d = rng.choice(dirs)
        nm = pick_name(rng, used.setdefault(d, set()), fancy, allow_nl=allow_nl)
        p = pre + ((d + "/" + nm) if d else nm)
        r = rng.random()
        a = rnd_attrs(rng, True)
        if r < 0.55:
            c, _ = rnd_content(rng, bs)
            node = {"p": p, "t": "file", "c": c, **a}
            files.append(p)
        elif r < 0.67:
            a.pop("m")
            node = {"p": p, "t": "slink", "tg": rng.choice(["/x", "../y", "t" * rng.choice([1, 100, 300, 4000]), "with space", "\xff\xfe"]), **a}
        elif r < 0.77:
            node = {"p": p, "t": rng.choice(["cdev", "bdev"]), "maj": rng.choice([0, 1, 5, 255, 256, 4095]), "min": rng.choice([0, 1, 255, 256, 65535, 0xfffff]), **a}
        elif r < 0.85:
            node = {"p": p, "t": "fifo", **a}
        elif r < 0.92:
            node = {"p": p, "t": "sock", **a}
        else:
            node = {"p": p, "t": "dir", **a}
            dirs.append(p[len(pre):])
        if xattrs and rng.random() < 0.3:
            prefixes = ("user.", "trusted.", "security.") if node["t"] in ("file", "dir") else ("trusted.", "security.")
            node["x"] = [kv for kv in rnd_xattrs(rng, prefixes=prefixes) if len(kv[0]) < 250]
        fs.append(node)
    if links:
        cands = [x for x in fs if x["t"] in ("file", "slink", "fifo", "cdev", "sock")]
        for k in range(rng.randint(1, 3)):
            if not cands:
                break
            tgt = rng.choice(cands)
            for j in range(rng.randint(1, 4)):
                d = rng.choice(dirs)
                nm = pick_name(rng, used.setdefault(d, set()), 0.1)
                fs.append({"p": pre + ((d + "/" + nm) if d else nm), "t": "link", "to": tgt["p"]})
    if xattrs and rng.random() < 0.3 and not root:
        fs.append({"p": "", "t": "dir", "x": rnd_xattrs(rng, 2, prefixes=("user.", "trusted."))})
    return fs


def case(kind, name, body, opts, **kw):
    c = {"kind": kind, "name": name, "opts": opts}
    c.update(body)
    c.update(kw)
    return c


# ----------------------------------------------------------------------------------------------------------------
# boundary matrix

def dir_case(rng, n, namelen=None, opts=None, ftype="pipe"):
    lines = []
    fs = [{"p": "src", "t": "dir", "m": 0o755}, {"p": "src/one", "t": "file", "c": [["p", 1, 0x61]]}]
    used = set()
    for i in range(n):
        if namelen:
            nm = ("%0*d" % (namelen, i)) if namelen < 12 else ("%08d" % i) + "n" * (namelen - 8)
        else:
            nm = "e%05d" % i
        if ftype == "file":
            lines.append({"t": "file", "p": "/big/" + nm, "m": 0o644, "u": i % 3, "g": 0, "loc": "src/one"})
        else:
            lines.append({"t": ftype if ftype != "mix" else ["pipe", "sock", "dir"][i % 3], "p": "/big/" + nm, "m": 0o644, "u": i % 3, "g": 0})
    lines.append({"t": "dir", "p": "/big", "m": 0o755, "u": 0, "g": 0})
    lines.append({"t": "file", "p": "/z", "m": 0o600, "u": 0, "g": 0, "loc": "src/one"})
    rng.shuffle(lines)
    return case("dirsize", "dir-%d-%s" % (n, namelen), {"mode": "packfile", "fs": fs, "lines": lines, "xa": []}, opts or rnd_opts(rng, "packfile", plain=True, bs=4096))


def filesize_case(rng, bs, comp, T=False, packdir=False):
    sizes = [0, 1, bs - 1, bs, bs + 1, 2 * bs - 1, 2 * bs, 2 * bs + 1]
    kinds = ["r", "t", "z"] if bs <= 131072 else ["t", "z"]
    fs, lines = [{"p": "src", "t": "dir", "m": 0o755}], []
    for sz in sizes:
        for k in kinds:
            c = content_of(rng, sz, bs, k)
            nm = "s%d_%s" % (sz, k)
            fs.append({"p": "src/" + nm, "t": "file", "c": c, "m": 0o644, "u": 0, "g": 0, "mt": 5})
            lines.append({"t": "file", "p": "/" + nm, "m": 0o644, "u": 0, "g": 0, "loc": "src/" + nm})
    # files with zero blocks in the middle / at the end, sparse tails
    extra = [("midz", [["r", bs, 1], ["z", bs], ["r", bs + 5, 2]]), ("endz", [["t", bs, 3], ["z", bs]]), ("ztail", [["t", bs, 4], ["z", bs // 2]]),
             ("zhead", [["z", bs], ["t", 100, 5]]), ("allz3", [["z", 3 * bs]]), ("hole", [["t", 10, 6], ["h", 2 * bs], ["t", 10, 7]])]
    for nm, c in extra:
        fs.append({"p": "src/" + nm, "t": "file", "c": c, "m": 0o644, "u": 0, "g": 0, "mt": 5})
        lines.append({"t": "file", "p": "/" + nm, "m": 0o644, "u": 0, "g": 0, "loc": "src/" + nm})
    opts = {"comp": comp, "bs": bs}
    if T:
        opts["T"] = True
    if packdir:
        body = {"mode": "packdir", "fs": [dict(n, p=n["p"][4:]) for n in fs if n["p"] != "src"], "xa": []}
    else:
        body = {"mode": "packfile", "fs": fs, "lines": lines, "xa": []}
    return case("filesize", "sizes-B%d-%s%s%s" % (bs, comp, "-T" if T else "", "-dir" if packdir else ""), body, opts)


def content_case(rng, bs, comp, opts_extra=None):
    """duplicates, shared tails, all-zero, sparse, runs of identical blocks"""
    fs, lines = [{"p": "src", "t": "dir", "m": 0o755}], []
    def add(nm, c):
        fs.append({"p": "src/" + nm, "t": "file", "c": c})
        lines.append({"t": "file", "p": "/d/" + nm, "m": 0o644, "u": 0, "g": 0, "loc": "src/" + nm})
    tail = ["r", 700, 99]
    big = [["r", 2 * bs, 11], tail]
    add("dup_a", big); add("dup_b", big); add("dup_c", big)
    add("tail_a", [["r", bs, 12], tail]); add("tail_b", [["t", bs, 13], tail]); add("tail_only", [tail])
    add("small_dup1", [["t", 50, 14]]); add("small_dup2", [["t", 50, 14]])
    add("zero_small", [["z", 100]]); add("zero_B", [["z", bs]]); add("zero_3B", [["z", 3 * bs]]); add("zero_B_tail", [["z", bs + 77]])
    add("same_blocks", [["p", 4 * bs, 0x55]]); add("same_blocks2", [["p", 2 * bs, 0x55]])
    add("prefix_of", [["r", 2 * bs, 11]])
    add("empty1", []); add("empty2", [])
    add("holes", [["h", bs], ["t", 10, 15], ["h", 3 * bs - 10], ["r", 5, 16]])
    rng.shuffle(lines)
    opts = {"comp": comp, "bs": bs}
    opts.update(opts_extra or {})
    return case("contents", "contents-B%d-%s" % (bs, comp), {"mode": "packfile", "fs": fs, "lines": lines, "xa": []}, opts)


def ids_case(rng, n, base=0, comp="gzip", split_gid=False):
    lines = []
    for i in range(n):
        u = base + i
        if split_gid and i % 2:
            lines.append({"t": "pipe", "p": "/ids/p%d" % i, "m": 0o644, "u": base, "g": u})
        else:
            lines.append({"t": "pipe", "p": "/ids/p%d" % i, "m": 0o644, "u": u, "g": base})
    if base:
        # the implicit directories and the root own id 0 as well
        pass
    return case("ids", "ids-%d" % n, {"mode": "packfile", "fs": [], "lines": lines, "xa": []}, {"comp": comp, "bs": 4096,
                "d": {"uid": base, "gid": base} if base else None})


def ids_limit_case(rng, n, comp="lz4", first=0, name=None, stride=1):
    """n distinct ids, two new ones per entry (uid = 2i, gid = 2i+1): the id table reaches n with n/2 pipes; spread over 256
    directories (a single directory of 65k entries costs minutes in the packer's sorted insert, not in the id table).
    The root and the implicit directories own id `first` (= the first entry's uid)."""
    ids = [first + k * stride for k in range(n)]
    lines = []
    for i in range((n + 1) // 2):
        u = ids[2 * i]
        g = ids[2 * i + 1] if 2 * i + 1 < n else ids[0]
        lines.append({"t": "pipe", "p": "/i/%02x/p%d" % ((i >> 7) & 0xff, i), "m": 0o644, "u": u, "g": g})
    return case("ids", name or "ids-limit-%d" % n, {"mode": "packfile", "fs": [], "lines": lines, "xa": []},
                {"comp": comp, "bs": 4096, "d": {"uid": first, "gid": first} if first else None})


def xattrsets_case(rng, n, comp="gzip", shared=True):
    lines, xa = [], []
    longv = b"a-long-value-shared-by-several-keys-and-sets-0123456789"
    for i in range(n):
        lines.append({"t": "pipe", "p": "/x/f%d" % i, "m": 0o644, "u": 0, "g": 0})
        kvs = [["user.n", ("%d" % i).encode().hex()]]
        if shared:
            kvs.append(["trusted.shared", (longv if i % 2 else b"short").hex()])
            if i % 3 == 0:
                kvs.append(["security.other", longv.hex()])
            if i % 7 == 0:
                kvs.append(["user.empty", ""])
            if i % 11 == 0:
                kvs.append(["user.bin", bytes(range(i % 200, i % 200 + 40)).hex()])
        xa.append(["x/f%d" % i, [[k, v, ["hex", "text", "b64"][i % 3]] for k, v in kvs]])
    # two nodes sharing one set, and one node without any
    lines.append({"t": "pipe", "p": "/x/same0", "m": 0o644, "u": 0, "g": 0})
    lines.append({"t": "pipe", "p": "/x/none", "m": 0o644, "u": 0, "g": 0})
    if n:
        xa.append(["x/same0", list(xa[0][1])])
    return case("xattrsets", "xattr-sets-%d" % n, {"mode": "packfile", "fs": [], "lines": lines, "xa": xa}, {"comp": comp, "bs": 4096})


def types_case(rng, comp, bs):
    """every inode type, basic and extended (extended = has xattrs / more than one link / large fields)"""
    fs = [{"p": "src", "t": "dir", "m": 0o755}, {"p": "src/f", "t": "file", "c": [["t", 300, 1]]}, {"p": "src/g", "t": "file", "c": [["r", bs + 10, 2]]}]
    L = []
    xa = []
    for suffix, x in (("", False), ("_x", True)):
        L += [{"t": "dir", "p": "/t/dir" + suffix, "m": 0o1777, "u": 1, "g": 2},
              {"t": "file", "p": "/t/file" + suffix, "m": 0o4755, "u": 3, "g": 4, "loc": "src/f"},
              {"t": "file", "p": "/t/bigfile" + suffix, "m": 0o600, "u": 3, "g": 4, "loc": "src/g"},
              {"t": "slink", "p": "/t/slink" + suffix, "m": 0o777, "u": 5, "g": 6, "tg": "../target"},
              {"t": "nod", "p": "/t/chr" + suffix, "m": 0o620, "u": 7, "g": 8, "dt": "c", "maj": 4095, "min": 0xfffff},
              {"t": "nod", "p": "/t/blk" + suffix, "m": 0o660, "u": 9, "g": 10, "dt": "b", "maj": 259, "min": 65536 + 7},
              {"t": "nod", "p": "/t/chr0" + suffix, "m": 0o666, "u": 0, "g": 0, "dt": "c", "maj": 0, "min": 0},
              {"t": "pipe", "p": "/t/fifo" + suffix, "m": 0o644, "u": 11, "g": 12},
              {"t": "sock", "p": "/t/sock" + suffix, "m": 0o755, "u": 13, "g": 14}]
        if x:
            for l in L[-9:]:
                xa.append([l["p"][1:], [["trusted.t", b"extended".hex(), "hex"], ["security.s", l["p"].encode().hex(), "text"]]])
    L.append({"t": "slink", "p": "/t/longlink", "m": 0o777, "u": 0, "g": 0, "tg": "x" * 8000})
    L.append({"t": "slink", "p": "/t/verylonglink", "m": 0o777, "u": 0, "g": 0, "tg": "y/" * 30000})
    rng.shuffle(L)
    return case("types", "types-%s-%d" % (comp, bs), {"mode": "packfile", "fs": fs, "lines": L, "xa": xa}, {"comp": comp, "bs": bs, "e": rng.random() < 0.5})


def names_case(rng, mode, comp):
    used = set()
    names = list(SPECIAL_NAMES) + ["a", "Z", "0", long_name(rng, 256, used), long_name(rng, 255, used), long_name(rng, 128, used)]
    if mode in ("packdir", "packdir-nl"):
        names += ["cr\rret", long_name(rng, 255, used)]
        if mode == "packdir-nl":
            names = ["new\nline", "\n", "trail\n", "\nlead", "a", "with space"]
        names = [n for n in names if len(n.encode("latin-1")) <= 255]        # the scratch file system's own limit
        mode = "packdir"
    names = list(dict.fromkeys(names))
    deep = "/".join("d%d" % i for i in range(40))
    if mode == "packdir":
        fs = []
        for i, nm in enumerate(names):
            fs.append({"p": nm, "t": ["file", "fifo", "dir", "slink"][i % 4], "m": 0o644, "u": 0, "g": 0, "mt": 7, "c": [["t", i, i]], "tg": nm})
        for i, nm in enumerate(names[:12]):
            fs.append({"p": "sub dir/" + nm, "t": "file", "m": 0o600, "u": 1, "g": 1, "mt": 8, "c": [["r", 10 + i, i]]})
        fs.append({"p": "sub dir", "t": "dir", "m": 0o755, "u": 0, "g": 0, "mt": 9})
        fs.append({"p": deep + "/leaf", "t": "file", "m": 0o644, "u": 0, "g": 0, "mt": 10, "c": [["t", 20, 3]]})
        for k in range(1, 41):
            fs.append({"p": "/".join(deep.split("/")[:k]), "t": "dir", "m": 0o755, "u": 0, "g": 0, "mt": 11})
        body = {"mode": "packdir", "fs": fs, "xa": []}
    else:
        fs = [{"p": "src", "t": "dir", "m": 0o755}, {"p": "src/f", "t": "file", "c": [["t", 33, 1]]}]
        L = []
        for i, nm in enumerate(names):
            t = ["file", "pipe", "dir", "slink"][i % 4]
            l = {"t": t, "p": "/" + nm, "m": 0o644, "u": 0, "g": 0}
            if t == "file":
                l["loc"] = "src/f"
            if t == "slink":
                l["tg"] = nm
            L.append(l)
        for i, nm in enumerate(names[:12]):
            L.append({"t": "file", "p": "/sub dir/" + nm, "m": 0o600, "u": 1, "g": 1, "loc": "src/f"})
        L.append({"t": "file", "p": "/" + deep + "/leaf", "m": 0o644, "u": 0, "g": 0, "loc": "src/f"})
        xa = [[nm, [["user.name", nm.encode("latin-1").hex(), "hex"]]] for i, nm in enumerate(names) if i % 4 in (0, 2) and xattr_path_ok(nm) and not nm.startswith("#")]
        body = {"mode": "packfile", "fs": fs, "lines": L, "xa": xa, "fmtseed": rng.randrange(1 << 16)}
    return case("names", "names-%s-%s" % (mode, comp), body, {"comp": comp, "bs": 4096, "k": mode == "packdir"})


def deep_case(rng, comp):
    """300 levels: the full path is longer than PATH_MAX (pack file only; such a tree cannot be unpacked)"""
    fs = [{"p": "src", "t": "dir", "m": 0o755}, {"p": "src/f", "t": "file", "c": [["t", 77, 1]]}]
    comps = ["level-%03d-%s" % (i, "x" * (i % 17)) for i in range(300)]
    L = [{"t": "file", "p": "/" + "/".join(comps) + "/leaf", "m": 0o644, "u": 1, "g": 2, "loc": "src/f"},
         {"t": "slink", "p": "/" + "/".join(comps[:150]) + "/sl", "m": 0o777, "u": 0, "g": 0, "tg": "../" * 100},
         {"t": "dir", "p": "/" + "/".join(comps[:200]), "m": 0o700, "u": 3, "g": 4}]
    return case("names", "deep-300-levels", {"mode": "packfile", "fs": fs, "lines": L, "xa": [["/".join(comps[:250]), [["user.deep", "01", "hex"]]]]},
                {"comp": comp, "bs": 4096, "d": {"mode": 0o711, "mtime": 42}})


def hardlink_case(rng, via, comp, nohl=False):
    """groups of 2..5 names across directories"""
    if via == "packdir":
        fs = [{"p": "a", "t": "dir", "m": 0o755, "mt": 1}, {"p": "a/b", "t": "dir", "m": 0o755, "mt": 1}, {"p": "z", "t": "dir", "m": 0o700, "mt": 1}]
        prim = [{"p": "a/file", "t": "file", "c": [["t", 5000, 1]], "m": 0o644, "u": 1, "g": 2, "mt": 100, "x": [["user.hl", b"1".hex()]]},
                {"p": "m_empty", "t": "file", "c": [], "m": 0o600, "u": 0, "g": 0, "mt": 101},
                {"p": "a/b/fifo", "t": "fifo", "m": 0o640, "u": 3, "g": 3, "mt": 102},
                {"p": "z/sl", "t": "slink", "tg": "../a/file", "u": 4, "g": 4, "mt": 103},
                {"p": "a/chr", "t": "cdev", "maj": 1, "min": 3, "m": 0o666, "u": 0, "g": 0, "mt": 104},
                {"p": "z/sock", "t": "sock", "m": 0o755, "u": 0, "g": 5, "mt": 105},
                {"p": "zz_last", "t": "file", "c": [["r", 70000, 2]], "m": 0o444, "u": 9, "g": 9, "mt": 106}]
        fs += prim
        for gi, (pr, size) in enumerate(zip(prim, [5, 2, 3, 2, 2, 2, 4])):
            for k in range(size - 1):
                d = ["", "a/", "a/b/", "z/"][(gi + k) % 4]
                fs.append({"p": "%s%s_l%d_%d" % (d, "0early" if k == 0 and gi % 2 else "link", gi, k), "t": "link", "to": pr["p"]})
        fs.append({"p": "single", "t": "file", "c": [["t", 10, 3]], "m": 0o644, "mt": 1})
        opts = {"comp": comp, "bs": 4096, "k": True, "x": True}
        if nohl:
            opts["H"] = True
        return case("hardlinks", "hardlinks-packdir%s" % ("-H" if nohl else ""), {"mode": "packdir", "fs": fs, "xa": []}, opts)
    fs = [{"p": "src", "t": "dir", "m": 0o755}, {"p": "src/f", "t": "file", "c": [["t", 5000, 1]]}, {"p": "src/g", "t": "file", "c": [["r", 9000, 2]]}]
    if via == "packfile-first":
        # every link line precedes its target; groups of 2..5 names for every linkable type; chains of three links; links in
        # other directories than the target, in implicit and explicit ones; a target that carries xattrs
        lk = lambda p, to: {"t": "link", "p": p, "m": rng.choice([0, 0o777, 0o644]), "u": rng.choice([0, 7]), "g": rng.choice([0, 9]), "to": to}
        L = [lk("/0/first", "/m/file"), lk("/z/chain3", "/z/chain2"), lk("/z/chain2", "/a/chain1"), lk("/a/chain1", "/m/./file"), lk("/m/zz", "m//file"),
             lk("/l_sl", "/m/sl"), lk("/0/l_sl2", "/l_sl"), lk("/l_chr", "/m/chr"), lk("/l_blk", "/m/blk"), lk("/0/l_fifo", "/m/fifo"), lk("/l_sock", "/m/sock"),
             lk("/a/l_empty", "/m/empty"), lk("/a/l_big", "/m/big"), lk("/a/l_big2", "/a/l_big"),
             {"t": "dir", "p": "/a", "m": 0o700, "u": 1, "g": 1},
             {"t": "file", "p": "/m/file", "m": 0o4755, "u": 1, "g": 2, "loc": "src/f"}, {"t": "file", "p": "/m/big", "m": 0o600, "u": 3, "g": 3, "loc": "src/g"},
             {"t": "file", "p": "/m/empty", "m": 0o644, "u": 0, "g": 0, "loc": "src/e"}, {"t": "slink", "p": "/m/sl", "m": 0o777, "u": 4, "g": 4, "tg": "../a"},
             {"t": "nod", "p": "/m/chr", "m": 0o666, "u": 0, "g": 5, "dt": "c", "maj": 1, "min": 3}, {"t": "nod", "p": "/m/blk", "m": 0o660, "u": 0, "g": 6, "dt": "b", "maj": 8, "min": 0},
             {"t": "pipe", "p": "/m/fifo", "m": 0o640, "u": 7, "g": 7}, {"t": "sock", "p": "/m/sock", "m": 0o755, "u": 8, "g": 8},
             {"t": "file", "p": "/single", "m": 0o644, "u": 0, "g": 0, "loc": "src/f"}]
        fs.append({"p": "src/e", "t": "file", "c": []})
        xa = [["m/file", [["user.linked", b"yes".hex(), "text"], ["trusted.t", bytes(range(20)).hex(), "hex"]]], ["m/fifo", [["trusted.f", b"1".hex(), "hex"]]]]
        return case("hardlinks", "hardlinks-link-lines-first", {"mode": "packfile", "fs": fs, "lines": L, "xa": xa}, {"comp": comp, "bs": 4096, "e": True})
    L = [{"t": "file", "p": "/a/file", "m": 0o644, "u": 1, "g": 2, "loc": "src/f"}, {"t": "file", "p": "/z/other", "m": 0o600, "u": 3, "g": 3, "loc": "src/g"},
         {"t": "pipe", "p": "/a/b/fifo", "m": 0o640, "u": 4, "g": 4},
         {"t": "link", "p": "/a/b/l1", "m": 0o777, "u": 0, "g": 0, "to": "/a/file"}, {"t": "link", "p": "/l2", "m": 0, "u": 7, "g": 7, "to": "a/file"},
         {"t": "link", "p": "/z/l3", "m": 0o777, "u": 0, "g": 0, "to": "/a/b/l1"}, {"t": "link", "p": "/0first", "m": 0o777, "u": 0, "g": 0, "to": "/z/other"},
         {"t": "link", "p": "/z/pl", "m": 0o777, "u": 0, "g": 0, "to": "/a/b/fifo"}]
    return case("hardlinks", "hardlinks-link-directive", {"mode": "packfile", "fs": fs, "lines": L, "xa": []}, {"comp": comp, "bs": 4096})


def glob_case(rng, comp, bs, variant, links=False):
    src = mixed_fs(rng, rng.randint(10, 25), bs, fancy=0.15, links=links, xattrs=False, root="tree", allow_nl=False)
    fs = [{"p": "tree", "t": "dir", "m": 0o755}] + [n for n in src if n["p"] != "tree"]
    L = []
    if variant == "all":
        L.append({"t": "glob", "p": rng.choice(["/", "/usr/lib", "/g"]), "m": None, "u": None, "g": None, "opts": rng.choice([[], ["-keeptime"], ["-nohardlinks"], ["-xdev"]]), "src": "tree"})
    elif variant == "attrs":
        L.append({"t": "glob", "p": "/opt", "m": rng.choice([0o755, 0o700, None]), "u": rng.choice([None, 7, 1000]), "g": rng.choice([None, 0, 8]), "opts": ["-keeptime"] if rng.random() < 0.5 else [], "src": "tree"})
    elif variant == "types":
        L.append({"t": "glob", "p": "/usr", "m": 0o755, "u": 0, "g": 0, "opts": ["-type", "d"], "src": "tree"})
        L.append({"t": "glob", "p": "/usr", "m": 0o644, "u": 1, "g": 1, "opts": ["-type", "f"], "src": "tree"})
        L.append({"t": "glob", "p": "/usr", "m": None, "u": None, "g": None, "opts": ["-type", rng.choice("lpsc"), "-type", rng.choice("bpl")], "src": "tree"})
    elif variant == "name":
        L.append({"t": "glob", "p": "/n", "m": None, "u": None, "g": None, "opts": ["-type", "d"], "src": "tree"})
        L.append({"t": "glob", "p": "/n", "m": None, "u": None, "g": None, "opts": ["-type", "f", "-type", "l", "-name", rng.choice(["*.txt", "f*", "*1*", "?a*", "[fdl]*", "* *"])], "src": "tree"})
    elif variant == "path":
        L.append({"t": "glob", "p": "/p", "m": None, "u": None, "g": None, "opts": ["-type", "d"], "src": "tree"})
        L.append({"t": "glob", "p": "/p", "m": None, "u": None, "g": None, "opts": ["-type", "f", "-path", rng.choice(["p/*", "p/*/*", "p/f*", "*/*.so*"])], "src": "tree"})
    elif variant == "nonrec":
        L.append({"t": "glob", "p": "/top", "m": None, "u": None, "g": None, "opts": ["-nonrecursive"], "src": "tree"})
    elif variant == "mixed":
        L.append({"t": "dir", "p": "/etc", "m": 0o755, "u": 0, "g": 0})
        L.append({"t": "slink", "p": "/etc/link", "m": 0o777, "u": 0, "g": 0, "tg": "x"})
        L.append({"t": "glob", "p": "/etc/sub", "m": None, "u": None, "g": None, "opts": [], "src": "tree"})
        L.append({"t": "pipe", "p": "/etc/zz", "m": 0o600, "u": 2, "g": 2})
    opts = rnd_opts(rng, "glob", comp=comp, bs=bs)
    return case("glob", "glob-%s" % variant, {"mode": "glob", "fs": fs, "lines": L, "xa": []}, opts)


def glob_hardlink_case(rng, comp, variant):
    fs = [{"p": "tree", "t": "dir", "m": 0o755, "mt": 50}, {"p": "tree/sub", "t": "dir", "m": 0o755, "mt": 51},
          {"p": "tree/a", "t": "file", "c": [["t", 100, 1]], "m": 0o644, "mt": 52, "u": 3, "g": 4}, {"p": "tree/b", "t": "link", "to": "tree/a"},
          {"p": "tree/sub/c", "t": "link", "to": "tree/a"}, {"p": "tree/z", "t": "file", "c": [["t", 50, 2]], "m": 0o600, "mt": 53},
          {"p": "tree/sub/fifo", "t": "fifo", "m": 0o600, "mt": 54}, {"p": "tree/zfifo2", "t": "link", "to": "tree/sub/fifo"},
          {"p": "other", "t": "dir", "m": 0o755}, {"p": "other/a", "t": "file", "c": [["t", 60, 3]], "m": 0o600}]
    if variant == "prefix":
        L = [{"t": "glob", "p": "/usr/lib", "m": None, "u": None, "g": None, "opts": [], "src": "tree"}]
    elif variant == "prefix-decoy":
        L = [{"t": "file", "p": "/a", "m": 0o644, "u": 0, "g": 0, "loc": "other/a"},
             {"t": "glob", "p": "/usr/lib", "m": None, "u": None, "g": None, "opts": [], "src": "tree"}]
    elif variant == "root":
        L = [{"t": "glob", "p": "/", "m": None, "u": None, "g": None, "opts": [], "src": "tree"}]
    elif variant == "nohardlinks":
        L = [{"t": "glob", "p": "/usr/lib", "m": None, "u": None, "g": None, "opts": ["-nohardlinks"], "src": "tree"}]
    elif variant == "name-first-filtered":
        # the first name of the group (a) does not match: b and sub/c form the group
        L = [{"t": "glob", "p": "/n", "m": None, "u": None, "g": None, "opts": ["-type", "d"], "src": "tree"},
             {"t": "glob", "p": "/n", "m": None, "u": None, "g": None, "opts": ["-type", "f", "-name", "[bcz]"], "src": "tree"}]
    elif variant == "keeptime-attrs":
        L = [{"t": "glob", "p": "/k", "m": 0o640, "u": 11, "g": 12, "opts": ["-keeptime"], "src": "tree"}]
    else:   # type filter
        L = [{"t": "glob", "p": "/", "m": None, "u": None, "g": None, "opts": ["-type", "d"], "src": "tree"},
             {"t": "glob", "p": "/", "m": None, "u": None, "g": None, "opts": ["-type", "f"], "src": "tree"}]
    return case("glob-hardlinks", "glob-hardlinks-%s" % variant, {"mode": "glob", "fs": fs, "lines": L, "xa": []}, {"comp": comp, "bs": 4096})


def bigsparse_case(rng, comp, bs):
    """> 4 GiB through holes: data at both ends and right after the 4 GiB mark"""
    G4 = 1 << 32
    c = [["t", 1000, 1], ["h", G4 - 1000 - 5], ["r", 10 + bs, 2], ["h", (1 << 30) - 10 - bs - 300 + 5], ["t", 300, 3]]
    fs = [{"p": "huge", "t": "file", "c": c, "m": 0o644, "u": 0, "g": 0, "mt": 1}, {"p": "small", "t": "file", "c": [["t", 10, 4]], "m": 0o644, "mt": 1},
          {"p": "allhole", "t": "file", "c": [["h", G4 + bs + 1]], "m": 0o600, "mt": 2}]
    # (-j: with the default of one worker per core the ASan build spends its time on the pool's mutex: 46 s instead of 5 s per 8 GiB of holes)
    return case("bigsparse", "sparse-5GiB-%s-%d" % (comp, bs), {"mode": "packdir", "fs": fs, "xa": []}, {"comp": comp, "bs": bs, "k": True, "j": 3})


def sparse4g_case(rng, comp, bs=131072):
    """quick: one file whose size (and whose last block's offset) lies beyond 4 GiB, made of a hole; measured 4 s to pack with
    128 KiB blocks (24 s with 1 MiB blocks).  rdsquashfs -u writes the zeros out (it never creates holes), which takes minutes:
    path (e) is not run for this case (thorough runs it on the 5 GiB cases)."""
    G4 = 1 << 32
    # exactly 2^32 bytes: the smallest size that does not fit the basic file inode; data before and after the hole
    c = [["t", 1000, 1], ["h", G4 - 1000 - 15], ["r", 15, 2]]
    fs = [{"p": "huge", "t": "file", "c": c, "m": 0o644, "u": 3, "g": 4, "mt": 1}, {"p": "small", "t": "file", "c": [["t", 10, 4]], "m": 0o644, "mt": 1}]
    return case("bigsparse", "sparse-4GiB-quick-%s-%d" % (comp, bs), {"mode": "packdir", "fs": fs, "xa": []}, {"comp": comp, "bs": bs, "k": True, "j": 2},
                paths="abcd", paths_why="rdsquashfs -u writes holes out as zeros (it never creates sparse files): 4 GiB of writes, minutes")


def bigdata_case(rng, bs=1048576):
    """thorough: the *data area* exceeds 4 GiB (incompressible bytes, lz4 stores them raw): a block start and a fragment block
    beyond 2^32 (`sqfs_inode_set_file_block_start` promotion), a file of > 4 GiB stored bytes"""
    G = 1 << 30
    fs = [{"p": "a_big", "t": "file", "c": [["r", 4 * G + 3 * bs + 11, 1]], "m": 0o644, "mt": 1},
          {"p": "b_after_4g", "t": "file", "c": [["r", 2 * bs + 5, 2]], "m": 0o600, "mt": 2},
          {"p": "c_tail_only", "t": "file", "c": [["r", 777, 3]], "m": 0o600, "mt": 3},
          {"p": "d_dup_of_b", "t": "file", "c": [["r", 2 * bs + 5, 2]], "m": 0o600, "mt": 4}]
    return case("bigdata", "data-area-4GiB-lz4-%d" % bs, {"mode": "packdir", "fs": fs, "xa": []}, {"comp": "lz4", "bs": bs, "k": True, "j": 4})


def bigdelta_case(rng, comp):
    """more than 32768 inodes between a hard link and its directory neighbours: the inode number delta leaves s16"""
    fs = [{"p": "a", "t": "dir", "m": 0o755, "mt": 1}, {"p": "z", "t": "dir", "m": 0o755, "mt": 1}]
    for i in range(33500):
        fs.append({"p": "a/f%05d" % i, "t": "fifo", "m": 0o644, "mt": 1})
    for i in range(5):
        fs.append({"p": "z/l%d" % i, "t": "link", "to": "a/f%05d" % (i * 7000)})
        fs.append({"p": "z/m%d" % i, "t": "fifo", "m": 0o600, "mt": 2})
    return case("bigdelta", "inode-delta-32767", {"mode": "packdir", "fs": fs, "xa": []}, {"comp": comp, "bs": 4096, "e": True})


def options_case(rng, i):
    """a small fixed tree under option combinations whose effect the oracle predicts (--defaults, --set-uid/gid, -k, env)"""
    mode = ["packfile", "packdir", "glob"][i % 3]
    if mode == "packdir":
        fs = mixed_fs(rng, 8, 4096, fancy=0.1, allow_nl=False)
        body = {"mode": "packdir", "fs": fs, "xa": []}
    elif mode == "packfile":
        body = mixed_packfile(rng, 8, 4096, fancy=0.1)
        body["lines"].append({"t": "file", "p": "/im/pli/cit/f", "m": 0o644, "u": 3, "g": 4, "loc": body["fs"][1]["p"] if len(body["fs"]) > 1 and body["fs"][1]["t"] == "file" else None})
        if body["lines"][-1]["loc"] is None:
            body["fs"].append({"p": "src/fx", "t": "file", "c": [["t", 9, 1]]})
            body["lines"][-1]["loc"] = "src/fx"
    else:
        c = glob_case(rng, "gzip", 4096, rng.choice(["all", "attrs", "mixed"]))
        body = {k: c[k] for k in ("mode", "fs", "lines", "xa")}
    o = rnd_opts(rng, mode)
    # make sure the interesting ones are hit often
    if i % 4 == 0:
        o["d"] = {"uid": rng.choice([5, 1000]), "gid": rng.choice([6, 100]), "mode": rng.choice([0o700, 0o1755]), "mtime": rng.choice(MTIMES)}
    if i % 4 == 1:
        o["u"], o["g"] = rng.choice(IDS), rng.choice(IDS)
    if i % 4 == 2:
        o["sde"] = rng.choice(["1600000000", "4294967295", "4294967296", "junk"])
    if mode == "packdir" and i % 2:
        o["k"] = True
    return case("options", "options-%d-%s" % (i, mode), body, o)


# ----------------------------------------------------------------------------------------------------------------
# inputs that must be refused (or, where the format can hold them, accepted and read back)

def refusal_cases(rng, thorough):
    out = []
    src = [{"p": "src", "t": "dir", "m": 0o755}, {"p": "src/f", "t": "file", "c": [["t", 10, 1]]}]
    def pf(name, lines, fs=None, xa=None, opts=None, **kw):
        out.append(case("refusal", name, {"mode": "packfile", "fs": fs if fs is not None else src, "lines": lines, "xa": xa or []}, opts or {"comp": "gzip", "bs": 4096}, **kw))
    P = lambda p, **k: dict({"t": "pipe", "p": p, "m": 0o644, "u": 0, "g": 0}, **k)
    pf("name-256-accepted", [P("/" + "n" * 256), P("/d/" + "m" * 256)])
    pf("name-257", [P("/ok"), P("/" + "n" * 257)])
    pf("name-257-implicit-dir", [P("/" + "n" * 257 + "/x")])
    pf("name-300-file", [{"t": "file", "p": "/" + "q" * 300, "m": 0o644, "u": 0, "g": 0, "loc": "src/f"}])
    pf("name-65537", [P("/" + "n" * 65537)])
    pf("missing-input-file", [P("/ok"), {"t": "file", "p": "/nofile", "m": 0o644, "u": 0, "g": 0, "loc": "src/does-not-exist"}])
    pf("missing-input-file-implicit-location", [{"t": "file", "p": "/not/there", "m": 0o644, "u": 0, "g": 0}])
    pf("duplicate-file", [{"t": "file", "p": "/dup", "m": 0o644, "u": 0, "g": 0, "loc": "src/f"}, {"t": "file", "p": "/dup", "m": 0o600, "u": 1, "g": 1, "loc": "src/f"}])
    pf("duplicate-pipe-vs-dir", [P("/x"), {"t": "dir", "p": "/x", "m": 0o755, "u": 0, "g": 0}])
    pf("duplicate-explicit-dir", [{"t": "dir", "p": "/d", "m": 0o755, "u": 0, "g": 0}, {"t": "dir", "p": "/d", "m": 0o700, "u": 0, "g": 0}])
    pf("dir-after-implicit-accepted", [P("/d/e/x"), {"t": "dir", "p": "/d", "m": 0o700, "u": 4, "g": 4}, {"t": "dir", "p": "/d/e", "m": 0o711, "u": 5, "g": 5}])
    pf("file-below-file", [P("/x"), P("/x/y")])
    pf("link-missing-target", [P("/a"), {"t": "link", "p": "/l", "m": 0o777, "u": 0, "g": 0, "to": "/nothing"}])
    pf("link-to-directory", [{"t": "dir", "p": "/d", "m": 0o755, "u": 0, "g": 0}, {"t": "link", "p": "/l", "m": 0o777, "u": 0, "g": 0, "to": "/d"}])
    pf("link-to-itself", [{"t": "link", "p": "/l", "m": 0o777, "u": 0, "g": 0, "to": "/l"}])
    pf("link-cycle", [{"t": "link", "p": "/l1", "m": 0o777, "u": 0, "g": 0, "to": "/l2"}, {"t": "link", "p": "/l2", "m": 0o777, "u": 0, "g": 0, "to": "/l1"}])
    pf("root-as-file", [{"t": "pipe", "p": "/", "m": 0o644, "u": 0, "g": 0}])
    pf("dotdot-path", [P("/a/../b")])
    pf("mode-too-large", [dict(P("/x"), m=0o10000)])
    pf("mode-not-octal", [dict(P("/x"), mtxt="0998")])
    pf("uid-2^32", [dict(P("/x"), u=2 ** 32)])
    pf("gid-2^32", [dict(P("/x"), g=2 ** 32)])
    pf("uid-2^32-1-accepted", [dict(P("/x"), u=2 ** 32 - 1, g=2 ** 32 - 1)])
    pf("devno-major-4096", [{"t": "nod", "p": "/n", "m": 0o600, "u": 0, "g": 0, "dt": "c", "maj": 4096, "min": 0}])
    pf("devno-minor-2^20", [{"t": "nod", "p": "/n", "m": 0o600, "u": 0, "g": 0, "dt": "b", "maj": 1, "min": 1 << 20}])
    pf("devno-max-accepted", [{"t": "nod", "p": "/n", "m": 0o600, "u": 0, "g": 0, "dt": "b", "maj": 4095, "min": (1 << 20) - 1}])
    pf("dev-type-x", [{"t": "nod", "p": "/n", "m": 0o600, "u": 0, "g": 0, "dt": "x", "maj": 1, "min": 1}])
    pf("unknown-keyword", [{"raw": "fifo /x 0644 0 0", "t": "raw", "p": "/x", "why": "unknown-keyword"}])
    pf("too-few-fields", [{"raw": "pipe /x 0644 0", "t": "raw", "p": "/x", "why": "malformed-line"}])
    pf("slink-without-target", [{"raw": "slink /x 0777 0 0", "t": "raw", "p": "/x", "why": "malformed-line"}])
    pf("unterminated-quote", [{"raw": "pipe \"/x 0644 0 0", "t": "raw", "p": "/x", "why": "malformed-line"}])
    pf("bad-escape", [{"raw": "pipe \"/x\\n\" 0644 0 0", "t": "raw", "p": "/x", "why": "malformed-line"}])
    pf("xattr-unknown-prefix", [P("/x")], xa=[["x", [["system.posix_acl_access", "00", "hex"]]]])
    pf("xattr-no-prefix", [P("/x")], xa=[["x", [["noprefix", "00", "hex"]]]])
    pf("xattr-unknown-prefix-unused-path-accepted", [P("/x")], xa=[["nosuchpath", [["system.posix_acl_access", "00", "hex"]]]])
    pf("symlink-target-65536-accepted", [{"t": "slink", "p": "/s", "m": 0o777, "u": 0, "g": 0, "tg": "t" * 65536}])
    pf("glob-unknown-option", [{"t": "glob", "p": "/g", "m": None, "u": None, "g": None, "opts": ["-frobnicate"], "src": "src"}])
    pf("glob-bad-type", [{"t": "glob", "p": "/g", "m": None, "u": None, "g": None, "opts": ["-type", "q"], "src": "src"}])
    pf("glob-missing-source", [{"t": "glob", "p": "/g", "m": None, "u": None, "g": None, "opts": [], "src": "nosuchdir"}])
    pf("glob-onto-file", [P("/g"), {"t": "glob", "p": "/g", "m": None, "u": None, "g": None, "opts": [], "src": "src"}])
    pf("glob-over-existing-entry", [P("/g/f"), {"t": "glob", "p": "/g", "m": None, "u": None, "g": None, "opts": [], "src": "src"}])
    # SQFS_MAX_DIR_NESTING: 4096 nested directories are fine (and may hold entries), the 4097th level is refused
    deep = "/d" * 4096
    pf("nesting-4096-accepted", [P(deep + "/pipe"), {"t": "dir", "p": "/d" * 4000, "m": 0o700, "u": 1, "g": 1}])
    pf("nesting-4097-explicit", [{"t": "dir", "p": deep + "/d", "m": 0o755, "u": 0, "g": 0}])
    pf("nesting-4097-implicit", [P(deep + "/d/pipe")])
    pf("block-size-3000", [P("/x")], opts={"comp": "gzip", "bs": 3000})
    pf("block-size-2M", [P("/x")], opts={"comp": "gzip", "bs": 2 << 20})
    pf("block-size-2048", [P("/x")], opts={"comp": "gzip", "bs": 2048})
    # ids: 65535 distinct values fit, 65536 do not.  Measured (ASan, lz4, idle): 4 s to pack, 10-15 s with all read-back paths
    def idc(n, name, **kw):
        c = ids_limit_case(rng, n, **kw); c["kind"], c["name"] = "refusal", name; out.append(c)
    idc(65535, "ids-65535-accepted")
    idc(65536, "ids-65536")                        # the 65536th id is the gid of the inode that is serialised last
    c = ids_limit_case(rng, 65536, first=1)        # ids 1..65536 and 0 for the directories: the 65536th id is a uid
    c["kind"], c["name"] = "refusal", "ids-65537"; c["opts"]["d"] = None; out.append(c)
    idc(40000, "ids-40000-wide-accepted", first=70000, stride=107371)
    # 65535 ids on the pipes, the 65536th is the *uid* of the implicit directories and the root (they are serialised after all pipes;
    # their gid is an old id): only the check behind the uid lookup in serialize_tree_node can refuse this one
    c = ids_limit_case(rng, 65535); c["kind"], c["name"] = "refusal", "ids-65536-uid-of-directories"; c["opts"]["d"] = {"uid": 2000000000, "gid": 0}; out.append(c)
    if thorough:
        c = ids_case(rng, 65535); c["kind"], c["name"] = "refusal", "ids-65535-one-directory-accepted"; out.append(c)
        c = ids_case(rng, 65536); c["kind"], c["name"] = "refusal", "ids-65536-one-directory"; out.append(c)
    return out
