"""
C07 — untrusted tar streams / description files never crash or hang the packers.

Proof: lean/Sqfs/Props/C07.lean (hard-link resolution terminates on every graph and reports errors exactly on
cyclic / directory / dangling targets; parser totality and index bounds), lean/Sqfs/Witness/C07.lean (the shipped
resolve_link diverges on a cycle away from the start: D12).
Tie: unit harnesses on the real functions of the working tree (ASan+UBSan) against `sqfsmodel c07`, and tool-level
runs of tar2sqfs / gensquashfs on mutated inputs under a timeout with the oracle "terminates; exit 0 ⇒ readable
image; exit ≠ 0 ⇒ diagnostic and no output file; never a sanitizer report or signal".
"""
import itertools, json, os, subprocess, sys, time
from concurrent.futures import ThreadPoolExecutor
import vlib

LEVEL = "proof"
MODULE = "Sqfs.Props.C07"
REQUIRED = ["Sqfs.C07.resolve_links_terminates", "Sqfs.C07.resolve_ok_targets", "Sqfs.C07.resolve_links_exact",
            "Sqfs.C07.resolve_tree_exact", "Sqfs.C07.expected_unique", "Sqfs.C07.chain_fates_exclusive", "Sqfs.C07.specClass_sound"]
WITNESS_MODULE = "Sqfs.Witness.C07"

KEY_D12 = "D12:resolve_link:cycle-not-through-start"


def tok(b):
    return b.hex() if b else "-"


def untok(t):
    return b"" if t == "-" else bytes.fromhex(t)


def jobs(ctx):
    return min(6, vlib.NCPU) if ctx.quick() else vlib.NCPU


# ---------------------------------------------------------------------------------------------------------
# generic: run a line script through harness and model in parallel chunks

def run_harness(ctx, exe, lines, timeout=900):
    """returns (outputs, crash) ; crash = (index, rc, stderr) when the harness died before answering every line"""
    text = "\n".join(lines) + "\n"
    try:
        r = vlib.sh([str(exe)], input=text, env=ctx.san_env(), timeout=timeout)
    except subprocess.TimeoutExpired:
        return [], (0, "timeout", "harness did not finish within %ds" % timeout)
    out = r.stdout.splitlines()
    if r.returncode != 0 or len(out) != len(lines):
        return out, (len(out), r.returncode, r.stderr[-3000:])
    return out, None


def run_chunks(ctx, exe, model_args, lines, nchunks):
    """split `lines` into chunks; run harness and model on each chunk concurrently.  Returns (impl, model, crashes)
    where crashed chunks are re-run line by line to isolate the offending input."""
    if not lines:
        return [], [], []
    n = max(1, min(nchunks, len(lines) // 50 or 1))
    size = (len(lines) + n - 1) // n
    chunks = [lines[i:i + size] for i in range(0, len(lines), size)]

    def one(ch):
        impl, crash = run_harness(ctx, exe, ch)
        model = ctx.driver(model_args, "\n".join(ch) + "\n")
        return impl, model, crash

    with ThreadPoolExecutor(max_workers=n) as ex:
        res = list(ex.map(one, chunks))
    impl, model, crashes = [], [], []
    for ch, (i, m, crash) in zip(chunks, res):
        if crash:
            k = crash[0] if isinstance(crash[0], int) else 0
            bad = ch[min(k, len(ch) - 1)]
            crashes.append((bad, crash[1], crash[2]))
            # answers for the rest of the chunk: run the remaining lines one harness each (rare path)
            i = i[:k] + ["CRASH rc=%s" % crash[1]]
            for l in ch[k + 1:]:
                o, c = run_harness(ctx, exe, [l], timeout=60)
                if c:
                    crashes.append((l, c[1], c[2]))
                    i.append("CRASH rc=%s" % c[1])
                else:
                    i.append(o[0])
        impl += i
        model += m
    return impl, model, crashes


# ---------------------------------------------------------------------------------------------------------
# hard links

HL_SOURCES = ["h_c07_hl.c", "lib/fstree/src/fstree.c", "lib/fstree/src/hardlink.c", "lib/fstree/src/get_path.c",
              "lib/util/src/canonicalize_name.c"]


def hl_line(ents):
    return "hl " + " ".join("%s:%s:%s" % (k, tok(n), tok(t)) for k, n, t in ents)


def hl_exhaustive(maxn, all_orders_upto):
    """all graphs over the names a,b,c,d (first n of them): every name is a file, a directory or a hard link to any
    of the names, to the root (""), to a missing name or to a path below a non-directory/missing directory"""
    names = [b"a", b"b", b"c", b"d"]
    out = []
    for n in range(1, maxn + 1):
        ns = names[:n]
        choices = [("f", b""), ("d", b"")] + [("l", t) for t in ns] + [("l", b""), ("l", b"zz"), ("l", b"a/q")]
        for combo in itertools.product(choices, repeat=n):
            if not any(k == "l" for k, _ in combo):
                continue
            ents = [(k, ns[i], t) for i, (k, t) in enumerate(combo)]
            if n <= all_orders_upto:
                for perm in itertools.permutations(ents):
                    out.append(hl_line(perm))
            else:
                out.append(hl_line(ents))
                out.append(hl_line(ents[::-1]))
    return out


def hl_random(rng, count, maxn):
    """larger random trees: nested directories, implicit parents, chains, cycles, duplicates, '..' targets"""
    out = []
    for _ in range(count):
        n = rng.randint(2, maxn)
        dirs = [b""]
        names = []
        ents = []
        style = rng.random()
        for i in range(n):
            parent = rng.choice(dirs)
            base = ("n%d" % i).encode() if rng.random() < 0.97 or not names else rng.choice(names).split(b"/")[-1]
            if rng.random() < 0.1:
                base = b"x/" + base          # implicit parent
            name = (parent + b"/" + base) if parent else base
            r = rng.random()
            if r < 0.12:
                kind, tgt = "d", b""
                dirs.append(name)
            elif r < 0.30:
                kind, tgt = "f", b""
            elif r < 0.34:
                kind, tgt = "s", b"whatever"
            else:
                kind = "l"
                q = rng.random()
                if names and q < (0.93 if style < 0.7 else 0.75):
                    # chains: prefer recent names; cycles arise because targets may be declared later too
                    tgt = rng.choice(names[-6:]) if rng.random() < 0.6 else rng.choice(names)
                elif q < 0.95:
                    tgt = ("n%d" % rng.randint(0, n - 1)).encode()       # forward reference or dangling
                elif q < 0.97:
                    tgt = name                                            # self link
                elif q < 0.98:
                    tgt = rng.choice(dirs)                                # link to a directory / the root
                elif q < 0.99:
                    tgt = (rng.choice(names) if names else b"a") + b"/sub"   # below a non-directory
                else:
                    tgt = rng.choice([b"../etc", b"a/../b", b"/abs//path/", b"./n0", b"n0/."])
            names.append(name)
            ents.append((kind, name, tgt))
        if rng.random() < 0.3:
            rng.shuffle(ents)
        out.append(hl_line(ents))
    return out


def hl_spec_verdict(line, impl, spec):
    """judge the implementation's answer against the specification's classification (`hlspec` of the driver).
    Returns a list of violated clauses (empty = the answer is acceptable to the specification)."""
    if not spec.startswith("spec"):
        return []                      # the tree could not even be built according to the model: no link clause applies
    cls = [t.split("=", 1) for t in spec.split()[1:]]           # LIFO order = order of resolution
    if impl == "timeout":
        return ["terminates"]
    firstbad = next(((p, c) for p, c in cls if not (c.startswith("F:") and c.endswith(":o"))), None)
    if impl.startswith("ok"):
        bad = []
        if firstbad:
            bad.append("success although link %s is %s" % firstbad)
        ents = line.split()[1:]
        vals = impl.split()[2:]
        want = {p: c.split(":")[1] for p, c in cls if c.startswith("F:")}
        for e, v in zip(ents, vals):
            k, n, _ = e.split(":")
            if k == "l" and v.startswith("L") and want.get(n) is not None and v[1:] != want[n]:
                bad.append("link %s resolved to %s, its chain ends at %s" % (n, v[1:], want[n]))
        return bad
    if impl.startswith("err "):
        _, p, e = impl.split()
        if not firstbad:
            return ["failure although every link has a proper end"]
        if p != firstbad[0]:
            return ["failure attributed to %s, first unresolvable link is %s" % (p, firstbad[0])]
        c = firstbad[1]
        want = "EMLINK" if c == "C" else ("EPERM" if c.startswith("F:") else c.split(":")[1])
        return [] if e == want else ["errno %s, specification says %s (%s)" % (e, want, c)]
    return []


def check_hardlinks(ctx, stats):
    exe = ctx.cc("h_c07_hl", HL_SOURCES, flags=["-DSPIN_MS=10"])
    corpus = []
    cdir = vlib.CORPUS / "C07"
    if cdir.exists():
        for p in sorted(cdir.glob("hl*.txt")):
            corpus += [l for l in p.read_text().splitlines() if l.startswith("hl ")]
    if ctx.quick():
        lines = hl_exhaustive(4, 3)
        rnd = hl_random(ctx.rng, 1500, 40) + hl_random(ctx.rng, 60, 300)
    else:
        lines = hl_exhaustive(4, 4)
        rnd = hl_random(ctx.rng, 20000, 40) + hl_random(ctx.rng, 400, 400)
    nexh = len(lines)
    lines = corpus + lines + rnd
    impl, model, crashes = run_chunks(ctx, exe, ["c07"], lines, jobs(ctx))
    for bad, rc, err in crashes[:5]:
        ctx.violation("hl-crash:" + vlib.sha(bad)[:12], "fstree_add_generic/fstree_resolve_hard_links aborted (rc=%s): %s" % (rc, err[-600:]),
                      {"unit": "hl", "line": bad, "stderr": err})
    hist = {}
    spins, mism = [], []
    for l, a, b in zip(lines, impl, model):
        cls = b.split()[0] + ((" " + b.split()[-1]) if b.startswith(("err", "adderr")) else "")
        hist[cls] = hist.get(cls, 0) + 1
        if a == b:
            continue
        if a == "timeout":
            spins.append(l)
        elif not a.startswith("CRASH"):
            mism.append((l, a, b))
    if spins:
        # does the model of the *shipped* loop predict non-termination for these graphs?
        cur = ctx.driver(["c07"], "\n".join("hlcur 5000 " + l[3:] for l in spins) + "\n")
        shown = 0
        for l, c in zip(spins, cur):
            if c == "spin":
                ctx.violation(KEY_D12, "resolve_link never returns on a hard-link cycle that does not contain the link being resolved "
                              "(first such input: %s)" % l, {"unit": "hl", "line": l, "impl": "timeout", "model_fixed": "err … EMLINK",
                                                             "model_shipped": "spin"})
            elif shown < 5:
                shown += 1
                ctx.violation("hl-timeout:" + vlib.sha(l)[:12], "fstree_resolve_hard_links did not return within 10 ms CPU on: %s" % l,
                              {"unit": "hl", "line": l, "impl": "timeout", "model_shipped": c})
    if mism:
        specs = ctx.driver(["c07"], "\n".join("hlspec " + l[3:] for l, _, _ in mism[:200]) + "\n")
        shown = 0
        for (l, a, b), sp in zip(mism[:200], specs):
            bad = hl_spec_verdict(l, a, sp)
            if shown >= 5:
                break
            shown += 1
            if bad:
                ctx.violation("hl-spec:" + vlib.sha(l)[:12], "hard-link resolution violates the specification (%s): real code answers %r, "
                              "model %r, spec %r on %s" % ("; ".join(bad), a, b, sp, l),
                              {"unit": "hl", "line": l, "impl": a, "model": b, "spec": sp, "clauses": bad})
            else:
                ctx.violation("hl-corr:" + vlib.sha(l)[:12], "hard-link resolution: real code answers %r, model %r on %s (no clause of the "
                              "specification is violated by the answer)" % (a, b, l),
                              {"unit": "hl", "line": l, "impl": a, "model": b, "spec": sp}, found_input=False)
    stats["hl"] = {"evaluations": len(lines), "exhaustive_graphs_le4_names": nexh, "random": len(rnd), "corpus": len(corpus),
                   "model_result_histogram": hist, "impl_timeouts": len(spins), "mismatches": len(mism),
                   "samples": [{"line": lines[i], "impl": impl[i], "model": model[i]} for i in (0, nexh // 2, len(lines) - 1)]}
    return len(lines), sum(v for k, v in hist.items() if not k.startswith("ok")), len(spins) + len(mism)


# ---------------------------------------------------------------------------------------------------------

def run(ctx):
    ok, problems = vlib.proof_gate(ctx, MODULE, REQUIRED)
    if ok:
        wok, wlog = ctx.lean_build([WITNESS_MODULE])
        if not wok:
            ok, problems = False, ["lake build %s failed: %s" % (WITNESS_MODULE, wlog[-1500:])]
    if not ok:
        ctx.violation("proof:C07", "proof obligations of C07 no longer check: " + " | ".join(problems)[:1500],
                      {"broken": problems, "theorems_file": "lean/Sqfs/Props/C07.lean"}, found_input=False)
    stats = {}
    ev, nontriv, dis = 0, 0, 0
    e, n, d = check_hardlinks(ctx, stats)
    ev, nontriv, dis = ev + e, nontriv + n, dis + d
    ctx.cov.update({
        "evaluations": ev,
        "distinct_nontrivial": nontriv,
        "rule": "hard links: every graph over <=4 root names (file | dir | link to any name, root, missing, below-non-dir), all insertion "
                "orders up to %d names, plus seeded random trees up to %d nodes; non-trivial = the model's answer is an error "
                "(cycle, directory, dangling, EEXIST, …)" % (3 if ctx.quick() else 4, 300 if ctx.quick() else 400),
        "units": stats,
        "samples": stats["hl"]["samples"],
        "disagreements_checked": dis,
    })
    return ctx.finish(LEVEL, trusted_extra=[
        "modelled, not verified directly: the C text of lib/fstree/src/hardlink.c and the look-up/insert part of fstree.c; "
        "tree nodes are abstracted to (other | dir | hard link with a fixed look-up answer)",
        "non-termination of the real code is observed as 10 ms of CPU time (ITIMER_VIRTUAL) inside fstree_resolve_hard_links"],
        assumptions=["fewer than 2^32-1 children per directory (the link_count guard of mknode is not modelled)"])


def replay(ctx, path):
    body = json.loads(open(path).read())
    rp = body.get("replay", {})
    if rp.get("unit") == "hl" and "line" in rp:
        ctx.lean_build(["sqfsmodel"])
        exe = ctx.cc("h_c07_hl", HL_SOURCES, flags=["-DSPIN_MS=10"])
        impl, crash = run_harness(ctx, exe, [rp["line"]], timeout=60)
        model = ctx.driver(["c07"], rp["line"] + "\n")
        spec = ctx.driver(["c07"], "hlspec " + rp["line"][3:] + "\n")
        print("line  :", rp["line"])
        print("impl  :", impl, "crash:", crash)
        print("model :", model)
        print("spec  :", spec)
        bad = hl_spec_verdict(rp["line"], impl[0], spec[0]) if impl else ["crash"]
        print("clauses violated:", bad)
        return 1 if crash or bad or impl != model else 0
    print("replay file names a broken obligation, no input to replay:", json.dumps(rp)[:500])
    return 1
