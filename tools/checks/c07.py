"""
C07 — untrusted tar streams / description files never crash or hang the packers.

Proof: lean/Sqfs/Props/C07.lean (hard-link resolution terminates on every graph and reports errors exactly on
cyclic / directory / dangling targets; parser totality and index bounds), lean/Sqfs/Witness/C07.lean (the shipped
resolve_link diverges on a cycle away from the start: D12).
Tie: unit harnesses on the real functions of the working tree (ASan+UBSan) against `sqfsmodel c07`, and tool-level
runs of tar2sqfs / gensquashfs on mutated inputs under a timeout with the oracle "terminates; exit 0 ⇒ readable
image; exit ≠ 0 ⇒ diagnostic and no output file; never a sanitizer report or signal".
"""
import itertools, json, os, re, subprocess, sys, time
from concurrent.futures import ThreadPoolExecutor
import vlib
import base64, zlib
from checks import c07_tool as TL

LEVEL = "proof"
MODULE = "Sqfs.Props.C07"
REQUIRED = ["Sqfs.C07.resolve_links_terminates", "Sqfs.C07.resolve_ok_targets", "Sqfs.C07.resolve_links_exact",
            "Sqfs.C07.link_counts_determined", "Sqfs.C07.resolve_tree_exact", "Sqfs.C07.expected_unique", "Sqfs.C07.chain_fates_exclusive", "Sqfs.C07.specClass_sound",
            "Sqfs.C07.read_number_in_bounds", "Sqfs.C07.read_octal_no_wrap", "Sqfs.C07.parse_uint_in_bounds_len",
            "Sqfs.C07.parse_uint_in_bounds_nul", "Sqfs.C07.parse_int_in_bounds", "Sqfs.C07.hex_decode_bounds",
            "Sqfs.C07.base64_decode_bounds", "Sqfs.C07.split_line_total", "Sqfs.C07.read_pax_header_total",
            "Sqfs.C07.sparse_map_new_bounds", "Sqfs.C07.sparse_map_old_bounds", "Sqfs.C07.decode_filename_bounds",
            "Sqfs.C07.xattr_decode_bounds", "Sqfs.C07.read_header_total", "Sqfs.C07.read_lines_chunking_independent",
            "Sqfs.C07.tar_member_window_bounded"]
WITNESS_MODULE = "Sqfs.Witness.C07"

KEY_D12 = "D12:resolve_link:cycle-not-through-start"


def tok(b):
    return b.hex() if b else "-"


def untok(t):
    return b"" if t == "-" else bytes.fromhex(t)


def jobs(ctx):
    """worker processes: VERIF_JOBS overrides; default 3 (quick) / half the cores (thorough) — the box is shared"""
    if os.environ.get("VERIF_JOBS"):
        return max(1, int(os.environ["VERIF_JOBS"]))
    return min(3, vlib.NCPU) if ctx.quick() else max(3, vlib.NCPU // 2)


# ---------------------------------------------------------------------------------------------------------
# generic: run a line script through harness and model in parallel chunks

def infra(cond, what):
    """the check's own machinery misbehaved: never a pass"""
    if not cond:
        raise vlib.CheckFailure(what)


def model_lines(ctx, lines, what, timeout=3600):
    """the native model on a script; one answer per line or the check cannot go on"""
    infra(len(lines) > 0, "%s: empty script for the model (generator produced nothing)" % what)
    out = ctx.driver(["c07"], "\n".join(lines) + "\n", timeout=timeout)
    infra(len(out) == len(lines), "%s: model driver answered %d lines for %d operations" % (what, len(out), len(lines)))
    bad = [(l, o) for l, o in zip(lines, out) if o == "bad-op"]
    infra(not bad, "%s: model driver does not understand %d operation(s), first: %s" % (what, len(bad), bad[0][0][:200] if bad else ""))
    return out


def run_harness(ctx, exe, lines, timeout=900):
    """returns (outputs, crash) ; crash = (index, rc, stderr) when the harness died before answering every line"""
    text = "\n".join(lines) + "\n"
    try:
        r = vlib.sh([str(exe)], input=text, env=ctx.san_env(), timeout=timeout)
    except subprocess.TimeoutExpired:
        return [], (0, "timeout", "harness did not finish within %ds" % timeout)
    out = r.stdout.splitlines()
    if r.returncode != 0 or len(out) != len(lines):
        return out, (len(out), r.returncode, r.stderr[-3000:])
    return out, None


MAX_CRASHES = 40


def run_chunks(ctx, exe, model_args, lines, nchunks, want_model=True):
    """split `lines` into chunks; run harness and model on each chunk concurrently.  Returns (impl, model, crashes)
    where crashed chunks are re-run line by line to isolate the offending input."""
    infra(len(lines) > 0, "empty script for %s (generator produced nothing)" % exe)
    n = max(1, min(nchunks, len(lines) // 50 or 1))
    size = (len(lines) + n - 1) // n
    chunks = [lines[i:i + size] for i in range(0, len(lines), size)]

    def one(ch):
        impl, crash = run_harness(ctx, exe, ch)
        model = model_lines(ctx, ch, str(exe)) if want_model else []
        return impl, model, crash

    with ThreadPoolExecutor(max_workers=n) as ex:
        res = list(ex.map(one, chunks))
    impl, model, crashes = [], [], []
    for ch, (i, m, crash) in zip(chunks, res):
        if crash:
            # isolate: the line the harness died on is the culprit; the rest of the chunk goes through a fresh harness in
            # one batch (again and again if it dies again, at most MAX_CRASHES times — then the rest is marked not run)
            done, rest, cur, cr = [], ch, i, crash
            for _ in range(MAX_CRASHES):
                k = cr[0] if isinstance(cr[0], int) else 0
                k = min(k, len(rest) - 1)
                crashes.append((rest[k], cr[1], cr[2]))
                done += cur[:k] + ["CRASH rc=%s" % cr[1]]
                rest = rest[k + 1:]
                if not rest:
                    break
                cur, cr = run_harness(ctx, exe, rest)
                if not cr:
                    done += cur
                    rest = []
                    break
            done += ["CRASH not-run"] * len(rest)
            i = done
        infra(len(i) == len(ch), "harness %s: %d answers for a chunk of %d operations" % (exe, len(i), len(ch)))
        impl += i
        model += m
    infra(len(impl) == len(lines) and (not want_model or len(model) == len(lines)),
          "harness %s / model: %d / %d answers for %d operations" % (exe, len(impl), len(model), len(lines)))
    nbad = sum(1 for a in impl if a == "bad-op")
    infra(nbad == 0, "harness %s does not understand %d operation(s), first: %s" % (
        exe, nbad, next((l for l, a in zip(lines, impl) if a == "bad-op"), "")[:200]))
    return impl, model, crashes


# ---------------------------------------------------------------------------------------------------------
# hard links

HL_SOURCES = ["h_c07_hl.c", "lib/fstree/src/fstree.c", "lib/fstree/src/hardlink.c", "lib/fstree/src/get_path.c",
              "lib/util/src/canonicalize_name.c"]


def hl_line(ents):
    """entries (kind, name, target); kind 'c' = set-up step `link_count = target` (target: an int)"""
    return "hl " + " ".join(("c:%s:%d" % (tok(n), t)) if k == "c" else ("%s:%s:%s" % (k, tok(n), tok(t))) for k, n, t in ents)


def max_dir_nesting():
    """SQFS_MAX_DIR_NESTING of the working tree (the generated Lean constant the model uses)"""
    m = re.search(r"def sqfsMaxDirNesting : Nat := (\d+)", (vlib.LEAN / "Sqfs" / "Generated" / "Consts.lean").read_text())
    infra(m is not None, "Sqfs/Generated/Consts.lean has no sqfsMaxDirNesting")
    return int(m.group(1))


def hl_saturated(maxn):
    """the `link_count == 0xFFFFFFFF` guards of resolve_link and mknode: every graph over <= maxn names (one insertion
    order) with the link count of one non-link node (or of the root) preset to 2^32-1 / 2^32-2 right after its creation"""
    names = [b"a", b"b", b"c"]
    out = []
    for n in range(1, maxn + 1):
        ns = names[:n]
        choices = [("f", b""), ("d", b"")] + [("l", t) for t in ns] + [("l", b"")]
        for combo in itertools.product(choices, repeat=n):
            if not any(k == "l" for k, _ in combo):
                continue
            ents = [(k, ns[i], t) for i, (k, t) in enumerate(combo)]
            for v in (0xFFFFFFFF, 0xFFFFFFFE):
                out.append(hl_line([("c", b"", v)] + ents))                      # the root: mknode's guard on the parent
                for i, (k, nm, _) in enumerate(ents):
                    if k != "l":
                        out.append(hl_line(ents[:i + 1] + [("c", nm, v)] + ents[i + 1:]))
    # a saturated directory refuses a child (mknode), an unsaturated one takes exactly one more
    for v in (0xFFFFFFFF, 0xFFFFFFFE):
        out.append(hl_line([("d", b"a", b""), ("c", b"a", v), ("f", b"a/x", b""), ("f", b"a/y", b"")]))
        out.append(hl_line([("d", b"a", b""), ("c", b"a", v), ("l", b"a/x", b"a/y"), ("f", b"a/y", b"")]))
        out.append(hl_line([("f", b"t", b""), ("c", b"t", v), ("l", b"l1", b"t"), ("l", b"l2", b"l1"), ("l", b"l3", b"t")]))
    out.append(hl_line([("c", b"nowhere", 5), ("f", b"a", b"")]))
    out.append(hl_line([("f", b"a", b""), ("c", b"a/b", 5)]))
    return out


def hl_deep(rng, limit, count):
    """directories nested around SQFS_MAX_DIR_NESTING (mknode refuses deeper ones with ENAMETOOLONG; a non-directory one
    level below the deepest directory is fine), created implicitly or explicitly, with hard links into / out of the chain"""
    def deep(k, leaf=b""):
        return b"/".join([b"a"] * k) + leaf
    out = []
    for k in (limit - 1, limit, limit + 1, limit + 2):
        out.append(hl_line([("d", deep(k), b"")]))
        out.append(hl_line([("f", deep(k), b"")]))
        out.append(hl_line([("l", deep(k), b"b"), ("f", b"b", b"")]))
    out.append(hl_line([("d", deep(limit), b""), ("f", deep(limit, b"/f"), b""), ("l", b"x", deep(limit, b"/f"))]))
    out.append(hl_line([("d", deep(limit), b""), ("d", deep(limit, b"/d"), b"")]))
    out.append(hl_line([("f", deep(limit + 1), b""), ("l", b"y", deep(limit)), ("l", b"z", deep(limit + 1))]))
    for _ in range(count):
        k = limit + rng.choice([-2, -1, 0, 0, 1, 1, 2, 7])
        kind = rng.choice("dfl")
        ents = [(kind, deep(k), b"t" if kind == "l" else b""), ("f", b"t", b"")]
        if rng.random() < 0.5:
            ents.append(("l", b"q", deep(rng.choice([k - 1, k, limit, limit + 1]))))
        if rng.random() < 0.3:
            ents.insert(0, ("d", deep(rng.choice([limit - 1, limit])), b""))
        out.append(hl_line(ents))
    return out


def hl_exhaustive(maxn, all_orders_upto):
    """all graphs over the names a,b,c,d (first n of them): every name is a file, a directory or a hard link to any
    of the names, to the root (""), to a missing name or to a path below a non-directory/missing directory"""
    names = [b"a", b"b", b"c", b"d"]
    out = []
    for n in range(1, maxn + 1):
        ns = names[:n]
        choices = [("f", b""), ("d", b"")] + [("l", t) for t in ns] + [("l", b""), ("l", b"zz"), ("l", b"a/q")]
        for combo in itertools.product(choices, repeat=n):
            if not any(k == "l" for k, _ in combo):
                continue
            ents = [(k, ns[i], t) for i, (k, t) in enumerate(combo)]
            if n <= all_orders_upto:
                for perm in itertools.permutations(ents):
                    out.append(hl_line(perm))
            else:
                out.append(hl_line(ents))
                out.append(hl_line(ents[::-1]))
    return out


def hl_random(rng, count, maxn):
    """larger random trees: nested directories, implicit parents, chains, cycles, duplicates, '..' targets"""
    out = []
    for _ in range(count):
        n = rng.randint(2, maxn)
        dirs = [b""]
        names = []
        ents = []
        style = rng.random()
        for i in range(n):
            parent = rng.choice(dirs)
            base = ("n%d" % i).encode() if rng.random() < 0.97 or not names else rng.choice(names).split(b"/")[-1]
            if rng.random() < 0.1:
                base = b"x/" + base          # implicit parent
            name = (parent + b"/" + base) if parent else base
            r = rng.random()
            if r < 0.12:
                kind, tgt = "d", b""
                dirs.append(name)
            elif r < 0.30:
                kind, tgt = "f", b""
            elif r < 0.34:
                kind, tgt = "s", b"whatever"
            else:
                kind = "l"
                q = rng.random()
                if names and q < (0.93 if style < 0.7 else 0.75):
                    # chains: prefer recent names; cycles arise because targets may be declared later too
                    tgt = rng.choice(names[-6:]) if rng.random() < 0.6 else rng.choice(names)
                elif q < 0.95:
                    tgt = ("n%d" % rng.randint(0, n - 1)).encode()       # forward reference or dangling
                elif q < 0.97:
                    tgt = name                                            # self link
                elif q < 0.98:
                    tgt = rng.choice(dirs)                                # link to a directory / the root
                elif q < 0.99:
                    tgt = (rng.choice(names) if names else b"a") + b"/sub"   # below a non-directory
                else:
                    tgt = rng.choice([b"../etc", b"a/../b", b"/abs//path/", b"./n0", b"n0/."])
            names.append(name)
            ents.append((kind, name, tgt))
        if rng.random() < 0.3:
            rng.shuffle(ents)
        out.append(hl_line(ents))
    return out


def hl_spec_verdict(line, impl, spec):
    """judge the implementation's answer against the specification's classification (`hlspec` of the driver).
    Returns a list of violated clauses (empty = the answer is acceptable to the specification)."""
    if not spec.startswith("spec"):
        return []                      # the tree could not even be built according to the model: no link clause applies
    cls = [t.split("=", 1) for t in spec.split()[1:]]           # LIFO order = order of resolution
    if impl == "timeout":
        return ["terminates"]
    firstbad = next(((p, c) for p, c in cls if not (c.startswith("F:") and c.endswith(":o"))), None)
    if impl.startswith("ok"):
        bad = []
        if firstbad:
            bad.append("success although link %s is %s" % firstbad)
        ents = line.split()[1:]
        vals = impl.split()[2:]
        want = {p: c.split(":")[1] for p, c in cls if c.startswith("F:")}
        for e, v in zip(ents, vals):
            k, n, _ = e.split(":")
            if k == "l" and v.startswith("L") and want.get(n) is not None and v[1:] != want[n]:
                bad.append("link %s resolved to %s, its chain ends at %s" % (n, v[1:], want[n]))
        return bad
    if impl.startswith("err "):
        _, p, e = impl.split()
        if not firstbad:
            return ["failure although every link has a proper end"]
        if p != firstbad[0]:
            return ["failure attributed to %s, first unresolvable link is %s" % (p, firstbad[0])]
        c = firstbad[1]
        want = "EMLINK" if c == "C" else ("EPERM" if c.startswith("F:") else c.split(":")[1])
        return [] if e == want else ["errno %s, specification says %s (%s)" % (e, want, c)]
    return []


def check_hardlinks(ctx, stats):
    exe = ctx.cc("h_c07_hl", HL_SOURCES, flags=["-DSPIN_MS=10"])
    corpus = []
    cdir = vlib.CORPUS / "C07"
    if cdir.exists():
        for p in sorted(cdir.glob("hl*.txt")):
            corpus += [l for l in p.read_text().splitlines() if l.startswith("hl ")]
    limit = max_dir_nesting()
    if ctx.quick():
        lines = hl_exhaustive(4, 3)
        rnd = hl_random(ctx.rng, 1500, 40) + hl_random(ctx.rng, 60, 300)
        sat = hl_saturated(2)
        deep = hl_deep(ctx.rng, limit, 2)
    else:
        lines = hl_exhaustive(4, 4)
        rnd = hl_random(ctx.rng, 20000, 40) + hl_random(ctx.rng, 400, 400)
        sat = hl_saturated(3)
        deep = hl_deep(ctx.rng, limit, 30)
    nexh = len(lines)
    infra(nexh > 1000 and len(rnd) > 100 and len(sat) > 20 and len(deep) >= 15, "hard-link generators produced too little")
    lines = corpus + lines + rnd + sat
    ctx.log("hard links: %d graphs (%d exhaustive, %d with a saturated link count) + %d around the nesting limit %d" % (
        len(lines), nexh, len(sat), len(deep), limit))
    impl, model, crashes = run_chunks(ctx, exe, ["c07"], lines, jobs(ctx))
    # the deep chains cost the list-based model ~0.5 s each: their own, evenly split script
    di, dm, dc = run_chunks(ctx, exe, ["c07"], deep, min(jobs(ctx), 4) if ctx.quick() else jobs(ctx))
    lines, impl, model, crashes = lines + deep, impl + di, model + dm, crashes + dc
    for bad, rc, err in crashes[:5]:
        ctx.violation("hl-crash:" + vlib.sha(bad)[:12], "fstree_add_generic/fstree_resolve_hard_links aborted (rc=%s): %s" % (rc, err[-600:]),
                      {"unit": "hl", "line": bad, "stderr": err})
    hist = {}
    spins, mism = [], []
    infra(len(lines) == len(impl) == len(model), "hard links: %d lines, %d / %d answers" % (len(lines), len(impl), len(model)))
    for l, a, b in zip(lines, impl, model):
        cls = b.split()[0] + ((" " + b.split()[-1]) if b.startswith(("err", "adderr")) else "")
        hist[cls] = hist.get(cls, 0) + 1
        if a == b:
            continue
        if a == "timeout":
            spins.append(l)
        elif not a.startswith("CRASH"):
            mism.append((l, a, b))
    if spins:
        # does the model of the *shipped* loop predict non-termination for these graphs?
        cur = model_lines(ctx, ["hlcur 5000 " + l[3:] for l in spins], "hlcur")
        shown = 0
        for l, c in zip(spins, cur):
            if c == "spin":
                ctx.violation(KEY_D12, "resolve_link never returns on a hard-link cycle that does not contain the link being resolved "
                              "(first such input: %s)" % l, {"unit": "hl", "line": l, "impl": "timeout", "model_fixed": "err … EMLINK",
                                                             "model_shipped": "spin"})
            elif shown < 5:
                shown += 1
                ctx.violation("hl-timeout:" + vlib.sha(l)[:12], "fstree_resolve_hard_links did not return within 10 ms CPU on: %s" % l,
                              {"unit": "hl", "line": l, "impl": "timeout", "model_shipped": c})
    # the specification as a monitor on the *real* code's answers, for every graph (not only where model and code differ):
    # `hlspec` is the executable classifier of Spec/HardLink.lean (`specClass_sound`); graphs with a preset link count are
    # left to the model comparison (the classifier does not know the counts)
    plain = [(l, a) for l, a in zip(lines, impl) if " c:" not in l and not a.startswith("CRASH") and a != "timeout"]
    infra(len(plain) > 1000, "hard links: nothing to evaluate the specification on")
    nchunk = jobs(ctx)
    size = (len(plain) + nchunk - 1) // nchunk
    with ThreadPoolExecutor(max_workers=nchunk) as ex:
        parts = list(ex.map(lambda k: model_lines(ctx, ["hlspec " + l[3:] for l, _ in plain[k:k + size]], "hlspec"), range(0, len(plain), size)))
    allspecs = [x for p in parts for x in p]
    infra(len(allspecs) == len(plain), "hlspec: %d verdicts for %d graphs" % (len(allspecs), len(plain)))
    spec_bad, spec_judged = [], 0
    for (l, a), sp in zip(plain, allspecs):
        if sp.startswith("spec"):
            spec_judged += 1
        bad = hl_spec_verdict(l, a, sp)
        if bad:
            spec_bad.append((l, a, sp, bad))
    infra(spec_judged > 1000, "hlspec judged only %d graphs" % spec_judged)
    for l, a, sp, bad in spec_bad[:5]:
        ctx.violation("hl-spec:" + vlib.sha(l)[:12], "hard-link resolution violates the specification (%s): real code answers %r, spec %r on %s" % (
            "; ".join(bad), a, sp, l), {"unit": "hl", "line": l, "impl": a, "spec": sp, "clauses": bad})
    mism = [m for m in mism if m[0] not in {x[0] for x in spec_bad[:5]}]
    if mism:
        specs = model_lines(ctx, ["hlspec " + l[3:] for l, _, _ in mism[:200]], "hlspec")
        shown = 0
        for (l, a, b), sp in zip(mism[:200], specs):
            bad = hl_spec_verdict(l, a, sp)
            if shown >= 5:
                break
            shown += 1
            if bad:
                ctx.violation("hl-spec:" + vlib.sha(l)[:12], "hard-link resolution violates the specification (%s): real code answers %r, "
                              "model %r, spec %r on %s" % ("; ".join(bad), a, b, sp, l),
                              {"unit": "hl", "line": l, "impl": a, "model": b, "spec": sp, "clauses": bad})
            else:
                ctx.violation("hl-corr:" + vlib.sha(l)[:12], "hard-link resolution: real code answers %r, model %r on %s (no clause of the "
                              "specification is violated by the answer)" % (a, b, l),
                              {"unit": "hl", "line": l, "impl": a, "model": b, "spec": sp}, found_input=False)
    infra(any(k.endswith("ENAMETOOLONG") for k in hist) and any(k == "err EMLINK" for k in hist) and any(k == "adderr EMLINK" for k in hist),
          "hard links: no generated input reached the nesting limit / the saturated link count (%s)" % sorted(hist))
    stats["hl"] = {"evaluations": len(lines), "exhaustive_graphs_le4_names": nexh, "random": len(rnd), "corpus": len(corpus),
                   "saturated_link_count": len(sat), "around_nesting_limit": len(deep), "nesting_limit": limit,
                   "model_result_histogram": hist, "impl_timeouts": len(spins), "mismatches": len(mism),
                   "graphs_judged_by_the_specification": spec_judged, "specification_violations": len(spec_bad),
                   "samples": [{"line": lines[i], "impl": impl[i], "model": model[i]} for i in (0, nexh // 2, len(lines) - 1)]}
    return len(lines), sum(v for k, v in hist.items() if not k.startswith("ok")), len(spins) + len(mism)


# ---------------------------------------------------------------------------------------------------------
# parser units

def prod(alpha, maxlen, minlen=0):
    for n in range(minlen, maxlen + 1):
        for t in itertools.product(alpha, repeat=n):
            yield bytes(t)


def pax_rec(k, v, lenfield=None):
    body = k + b"=" + v + b"\n"
    n = len(body) + 2
    while len(str(n)) + 1 + len(body) != n:
        n = len(str(n)) + 1 + len(body)
    return (str(n).encode() if lenfield is None else lenfield) + b" " + body


def gen_parser_lines(ctx):
    rng, q = ctx.rng, ctx.quick()
    L = []
    # read_number: all short fields over the alphabet named in the property + typical widths
    A = [0x30, 0x37, 0x38, 0x20, 0x00, 0x80, 0xff, 0x31]
    for b in prod(A, 4 if q else 5, 1):
        L.append("num %s %d" % (tok(b), len(b)))
    for _ in range(4000 if q else 40000):
        w = rng.choice([8, 12, 12, 1, 2, 7, 9, 16, 21, 22, 23, 24])     # > 21 octal digits reach the overflow guard
        r = rng.random()
        if r < 0.3:
            b = bytes(rng.choice(b"01234567") for _ in range(w))
        elif r < 0.6:
            b = bytes([rng.choice([0x80, 0xff, 0x81, 0xc0, 0xfe])]) + bytes(rng.choice([0, 0, 0xff, 0xff, 0x7f, 0x80, rng.randrange(256)]) for _ in range(w - 1))
        elif r < 0.8:
            b = (b" " * rng.randrange(w) + bytes(rng.choice(b"01234567") for _ in range(w)))[:w]
        else:
            b = bytes(rng.choice(A + [0x39, 0x09, 0x0a]) for _ in range(w))
        extra = bytes(rng.randrange(256) for _ in range(rng.choice([0, 0, 3])))
        L.append("num %s %d" % (tok(b + extra), w))
    # base-256 numbers around the overflow / sign guards of read_binary (the 1.2.0 guard let the first kind wrap)
    for _ in range(1500 if q else 15000):
        w = rng.choice([8, 9, 9, 10, 12, 12, 16])
        neg = rng.random() < 0.5
        body = bytearray((0xff if neg else 0x00) for _ in range(w - 1))
        for _ in range(rng.choice([0, 1, 1, 2, 3])):
            body[rng.randrange(w - 1)] = rng.choice([0x00, 0xff, 0x7f, 0x80, 0x01, 0xfe, rng.randrange(256)])
        first = 0xff if neg else rng.choice([0x80, 0x80, 0x81, 0xc0, 0xbf])
        L.append("num %s %d" % (tok(bytes([first]) + bytes(body)), w))
    L.append("num %s 9" % PARSE_PROBE_NUM)
    # parse_uint / parse_int
    for sbytes in prod([0x30, 0x39, 0x2d, 0x31, 0x20, 0x78, 0x38], 4 if q else 5):
        L.append("pint -1 1 %s" % tok(sbytes))
        L.append("puint 10 -1 0 0 0 %s" % tok(sbytes))
    edge = [2**64 - 1, 2**64, 2**63, 2**63 - 1, 2**63 - 2, 2**32 - 1, 2**32, 0o7777, 0o10000, 10**19, 10**20, 1844674407370955161, 1844674407370955162]
    for _ in range(3000 if q else 30000):
        v = rng.choice(edge) + rng.choice([-1, 0, 0, 1]) if rng.random() < 0.6 else rng.randrange(2**66)
        txt = (b"-" if rng.random() < 0.3 else b"") + (b"%o" % v if rng.random() < 0.2 else b"%d" % v) + rng.choice([b"", b"", b",", b" x", b"9", b"\n"])
        ln = rng.choice(["-1", "-1", str(rng.randrange(len(txt) + 2))])
        wd = rng.choice([0, 1])
        if rng.random() < 0.5:
            L.append("pint %s %d %s" % (ln, wd, tok(txt)))
        else:
            lo, hi = rng.choice([(0, 0), (0, 0o7777), (0, 2**32 - 1), (5, 5), (10, 3), (1, 2**64 - 1)])
            L.append("puint %d %s %d %d %d %s" % (rng.choice([10, 10, 8]), ln, wd, lo, hi, tok(txt.lstrip(b"-") if rng.random() < 0.8 else txt)))
    # hex / base64
    for b in prod([0x30, 0x61, 0x46, 0x67, 0x20, 0x39], 4 if q else 6):
        L.append("hex %d %s" % (rng.randrange(0, 4), tok(b)))
    for b in prod([0x41, 0x2f, 0x3d, 0x5f, 0x2d, 0x21, 0x7a, 0x2b], 4 if q else 5):
        L.append("b64 %d %s" % (rng.choice([0, 1, 2, 3, 4, 8]), tok(b)))
    b64c = b"ABCDEFGHIJKLMNOPQRSTUVWXYZabcdefghijklmnopqrstuvwxyz0123456789+/-_=="
    for _ in range(2000 if q else 20000):
        n = rng.randrange(0, 40)
        b = bytes(rng.choice(b64c) for _ in range(n))
        if rng.random() < 0.2 and n:
            b = b[:rng.randrange(n)] + bytes([rng.randrange(256)]) + b[rng.randrange(n):]
        L.append("b64 %d %s" % (rng.choice([0, n * 3 // 4, n * 3 // 4 + 2, n, 100]), tok(b)))
        h = bytes(rng.choice(b"0123456789abcdefABCDEFgG") for _ in range(n))
        L.append("hex %d %s" % (rng.choice([0, n // 2, n // 2 + 1, max(0, n // 2 - 1)]), tok(h)))
    # split_line, decode_filename, xattr decode
    for b in prod([0x20, 0x22, 0x5c, 0x61, 0x2c], 6 if q else 7):
        L.append("split 2009 -1 %s" % tok(b))
        if len(b) >= 5:
            L.append("split 2c %d %s" % (len(b) - 2, tok(b)))
    for b in prod([0x22, 0x5c, 0x61, 0x2f, 0x2e], 5 if q else 7):
        L.append("dfn %s" % tok(b))
    for b in prod([0x22, 0x5c, 0x30, 0x37, 0x38, 0x78, 0x73, 0x41, 0x3d], 4 if q else 5):
        L.append("xdec %s" % tok(b))
    for _ in range(2000 if q else 20000):
        n = rng.randrange(1, 30)
        b = bytes(rng.choice(b"\"\\01237abcxsXS=/+ \xe4") for _ in range(n))
        L.append("xdec %s" % tok(b))
        L.append("split %s -1 %s" % (rng.choice(["2009", "2c", "20"]), tok(bytes(rng.choice(b"\"\\ab ,\t") for _ in range(n)))))
    # PAX extended headers
    keys = TL.PAXKEYS
    vals = [b"0", b"1", b"-1", b"12345", b"18446744073709551615", b"18446744073709551616", b"1.5", b"", b"abc", b"0,512,1024,512", b"0,1,", b",",
            b"1,2,3", b"QUJD", b"QUJ", b"QQ==", b"Q", b"%41%zz%4", b"../x", b"x" * 40, b"9223372036854775806", b"9223372036854775807", b"-9223372036854775807"]
    for _ in range(3000 if q else 40000):
        recs = []
        for _ in range(rng.choice([1, 1, 2, 3, 5])):
            k, v = rng.choice(keys), rng.choice(vals)
            r = rng.random()
            if r < 0.75:
                recs.append(pax_rec(k, v))
            elif r < 0.85:
                good = len(pax_rec(k, v))
                recs.append(pax_rec(k, v, rng.choice([b"0", b"-3", b"1", b"2", b"3", b"4", str(good - 1).encode(), str(good + 1).encode(), str(good + 700).encode(),
                                                      b"99999999999999999999", b"+%d" % good, b" %d" % good, b"", b"0x1f", b"%d" % good + b"\t"])))
            elif r < 0.92:
                recs.append(pax_rec(k, v).replace(b"=", rng.choice([b"", b"==", b" "]), 1))
            else:
                recs.append(bytes(rng.choice(b"0123456789 =\nab\0") for _ in range(rng.randrange(1, 20))))
        rec = b"".join(recs)
        if rec:
            L.append("pax %s" % tok(rec))
    # xattr keys: every short string over the escape alphabet behind both prefixes (xattr_key_decode / urldecode)
    for kb in prod([0x25, 0x32, 0x35, 0x33, 0x44, 0x64, 0x61], 4 if q else 5, 1):
        L.append("pax %s" % tok(pax_rec(b"SCHILY.xattr." + kb, b"v")))
        if len(kb) <= 3:
            L.append("pax %s" % tok(pax_rec(b"LIBARCHIVE.xattr." + kb, b"QUJD")))
    # GNU.sparse.* records in every order of three (incl. numbytes, map, numbytes: the use after free of 1.2.0)
    sp = [(b"GNU.sparse.numbytes", b"1"), (b"GNU.sparse.numbytes", b"2"), (b"GNU.sparse.map", b"0,1"), (b"GNU.sparse.map", b"0,1,2,3"),
          (b"GNU.sparse.offset", b"7"), (b"GNU.sparse.map", b"x"), (b"GNU.sparse.numbytes", b"")]
    for combo in itertools.product(sp, repeat=3):
        L.append("pax %s" % tok(b"".join(pax_rec(k, v) for k, v in combo)))
    # GNU 1.0 sparse maps: numbers separated by newlines in 512-byte blocks, then the data
    for _ in range(1500 if q else 20000):
        cnt = rng.choice([0, 1, 1, 2, 3, 10, 60, 100, 70000])
        shown = min(cnt, rng.choice([cnt, cnt, 100]))
        nums = [rng.choice([0, 1, 512, 4096, 10**6, 2**64 - 1, 2**64, rng.randrange(10**12)]) for _ in range(2 * shown)]
        txt = b"%d\n" % cnt + b"".join(b"%d\n" % x for x in nums)
        if rng.random() < 0.25:
            p = rng.randrange(len(txt)); txt = txt[:p] + bytes([rng.choice(b"x\n 0\0-")]) + txt[p + 1:]
        if rng.random() < 0.3:       # make a number straddle a block boundary
            padto = rng.choice([505, 509, 510, 511, 512])
            if len(txt) < padto:
                txt = txt[:-1].rjust(padto, b"0") + b"\n" if rng.random() < 0.5 else txt + b"1" * (padto - len(txt)) + b"\n"
        pad = (-len(txt)) % 512
        stream = txt + b"\0" * pad + b"D" * rng.choice([0, 512])
        if rng.random() < 0.1:
            stream = stream[:rng.randrange(len(stream) + 1)]
        rs = rng.choice([len(txt) + pad, len(txt) + pad + 512, 0, 511, 512, 1024, len(stream)])
        L.append("spnew %d %s" % (rs, tok(stream[:6000])))
    # old GNU sparse headers
    for _ in range(1500 if q else 20000):
        ents = [(rng.choice([0, 512, 8**11 - 1, rng.randrange(10**9)]), rng.choice([0, 512, rng.randrange(10**6)])) for _ in range(rng.choice([0, 1, 3, 4, 4]))]
        h = bytearray(TL.mk_header(b"s", 512, b"S", sparse=ents, realsize=10**6, isext=rng.choice([0, 0, 1])))
        if rng.random() < 0.3:
            off = 386 + rng.randrange(0, 96)
            h[off] = rng.choice([0x20, 0x00, 0x38, 0x80, 0xff, 0x2d])
        stream = b""
        for _ in range(rng.choice([0, 0, 1, 2, 5])):
            blk = bytearray(512)
            for j in range(rng.choice([0, 1, 20, 21])):
                blk[j * 24:j * 24 + 12] = b"%011o\0" % rng.randrange(10**9); blk[j * 24 + 12:j * 24 + 24] = b"%011o\0" % rng.randrange(10**6)
            blk[504] = rng.choice([0, 1, 1])
            if rng.random() < 0.2:
                blk[rng.randrange(512)] = rng.choice([0x20, 0x80, 0xff, 0x39])
            stream += bytes(blk)
        if rng.random() < 0.15:
            stream = stream[:rng.randrange(len(stream) + 1)]
        L.append("spold %s %s" % (tok(bytes(h)), tok(stream)))
    L += gen_getline_lines(ctx)
    L += gen_memberstream_lines(ctx)
    L += gen_readheader_lines(ctx)
    return L


def gen_readheader_lines(ctx):
    """whole streams for `read_header` (op rh: every member of the stream): the reference archives of every dialect, their
    structure-aware mutations and truncations, extension records around TAR_MAX_*_LEN with all data present, chains of
    L / K / x / g records, zero blocks and short tails, old and new GNU sparse maps, names nested beyond the limit"""
    rng, q = ctx.rng, ctx.quick()
    seeds = [(n, d) for n, d in tar_seeds() if len(d) <= 40960]
    infra(len(seeds) >= 20, "only %d small reference archives for the read_header generator" % len(seeds))
    L = []
    def add(data):
        L.append("rh %s" % tok(data))
    for n, d in seeds:
        add(d)
    for _ in range(2500 if q else 30000):
        n, d = rng.choice(seeds)
        m = TL.mutate_tar(rng, d)
        for _ in range(rng.choice([0, 0, 1, 2])):
            m = TL.mutate_tar(rng, m)
        if rng.random() < 0.15 and m:
            m = m[:rng.randrange(len(m))]                                      # cut anywhere: short header, short record, short padding
        add(m[:24576])
    limits = tar_limits()
    for kind in "LKx":                                                             # exactly at, one below, one above each limit
        for delta in (-1, 0, 1):
            add(TL.tar_size_gate(rng, limits, kind, delta)[0])
    for _ in range(40 if q else 400):
        add(TL.tar_size_gate(rng, limits)[0])
    for _ in range(60 if q else 600):
        add(TL.tar_sparse_inconsistent(rng)[0][:16384])
    # chains of extension records in front of one member
    H = TL.mk_header
    def member():
        t = rng.choice([b"0", b"0", b"\0", b"1", b"2", b"3", b"4", b"5", b"6", b"7", b"S", b"V", b"x" if rng.random() < 0.05 else b"0"])
        magic = rng.choice([b"ustar\x0000", b"ustar\x0000", b"ustar  \0", b"\0" * 8, b"ustar\x0001", b"USTAR\x0000"])
        h = bytearray(H(rng.choice([b"m", b"dir/m", b"a/../b", b"", b"x" * 100]), rng.choice([0, 0, 3, 512, 600]), t, rng.choice([b"", b"tgt", b"t" * 100]), magic))
        if rng.random() < 0.3:
            p = rng.choice([b"pre", b"p" * 155, b"/abs", b"a/b/"])
            h[345:345 + len(p)] = p
        if rng.random() < 0.3:
            off, ln = rng.choice([(100, 8), (108, 8), (116, 8), (124, 12), (136, 12), (329, 8), (337, 8), (148, 8)])
            h[off:off + ln] = TL.num_variants(rng, ln, h[off:off + ln])[:ln].ljust(ln, b"\0")
        if rng.random() < 0.85:
            TL.fix_checksum(h)
        size = TL.parse_size(h) or 0
        return bytes(h) + bytes(rng.randrange(256) for _ in range(min(size, 1024))).ljust(min((size + 511) // 512 * 512, 1024), b"\0")
    def ext():
        k = rng.choice("LKxxg")
        if k == "L":
            p = rng.choice([b"long/name", b"n" * 300, b"a/" * 200 + b"z", b"", b"../up", b"with\0nul"])
            return TL.ext_record(b"L", p + b"\0", rng.choice([None, None, len(p), len(p) + 1 + 600, 0, 65537]))
        if k == "K":
            p = rng.choice([b"target", b"t" * 5000, b"", b"x/../y"])
            return TL.ext_record(b"K", p + b"\0", rng.choice([None, None, 0, len(p) + 2000]))
        if k == "g":
            p = TL.pax_rec(b"comment", b"global")
            big = bytes([0x80]) + (rng.choice([2**64 - 1, 2**64 - 511, 2**63, 1 << 40])).to_bytes(11, "big")
            h = bytearray(H(b"pax_global", len(p), b"g"))
            if rng.random() < 0.3:
                h[124:136] = big
                TL.fix_checksum(h)
            return bytes(h) + p.ljust(512, b"\0")
        recs = b"".join(TL.pax_rec(rng.choice(TL.PAXKEYS), rng.choice([b"1", b"0", b"abc", b"0,512", b"18446744073709551615", b"-5", b"QUJD", b"a/b", b""]))
                        for _ in range(rng.choice([1, 1, 2, 4])))
        return TL.ext_record(b"x", recs, rng.choice([None, None, None, len(recs) - 1, len(recs) + 1, 0]))
    for _ in range(1200 if q else 15000):
        parts = [ext() for _ in range(rng.choice([0, 1, 1, 2, 3]))] + [member()]
        if rng.random() < 0.3:
            parts.insert(rng.randrange(len(parts) + 1), b"\0" * 512 * rng.choice([1, 1, 2]))
        if rng.random() < 0.5:
            parts += [member(), b"\0" * 1024]
        data = b"".join(parts)
        if rng.random() < 0.1:
            data = data[:rng.randrange(len(data) + 1)]
        if rng.random() < 0.1:
            data += bytes(rng.choice([0, 0, 1]) for _ in range(rng.randrange(1, 511)))          # a tail shorter than a header
        add(data[:32768])
    # GNU 1.0 sparse members: PAX major/minor, then the map in the data area
    for _ in range(150 if q else 2000):
        cnt = rng.choice([1, 2, 3, 40, 100])
        nums = [rng.choice([0, 512, 1024, 4096, 10**6, rng.randrange(10**9)]) for _ in range(2 * cnt)]
        txt = b"%d\n" % cnt + b"".join(b"%d\n" % x for x in nums)
        if rng.random() < 0.2:
            p = rng.randrange(len(txt)); txt = txt[:p] + bytes([rng.choice(b"x\n 0\0")]) + txt[p + 1:]
        mapblk = txt + b"\0" * ((-len(txt)) % 512)
        recs = TL.pax_rec(b"GNU.sparse.major", b"1") + TL.pax_rec(b"GNU.sparse.minor", b"0") + \
            TL.pax_rec(b"GNU.sparse.name", b"sp") + TL.pax_rec(b"GNU.sparse.realsize", b"%d" % rng.choice([0, 4096, 10**7]))
        body = rng.choice([0, 512, 4096])
        size = rng.choice([len(mapblk) + body, len(mapblk), 0, 511, len(mapblk) + body + 512])
        add((TL.ext_record(b"x", recs) + H(b"GNUSparseFile.0/sp", size) + mapblk + b"D" * body + b"\0" * 1024)[:20480])
    limit = max_dir_nesting()
    for n in (limit, limit + 1, 30000):
        add(TL.tar_deep(rng, n, "d"))
    return L


MS_WANTS = [1, 511, 512, 4095, 4096, 4097, 65536, 131071, 131072, 131073, 262144, 524288, 1048575, 1048576]
MS_BLOCKS = [4096, 131072, 262144, 524288, 1048576]         # the request sizes of tar2sqfs write_file: one data block (-b)


def gen_memberstream_lines(ctx):
    """`ms`: sparse members of every dialect read through the real member stream with every request size a caller can
    make (tar2sqfs asks for one data block: 4 KiB … 1 MiB): holes of 1 byte … several MiB at the start / in the middle /
    at the end; what is handed out must be addressable and its size the model's"""
    rng, q = ctx.rng, ctx.quick()
    L = []
    def add(dialect, hole, where, wants, ndata=None):
        _, _, regions, real = TL.tar_sparse_holes(rng, dialect, hole, where, ndata)
        L.append("ms %s %s" % (tok(TL.sparse_member(dialect, b"sp.bin", regions, real) + b"\0" * 1024), ",".join(map(str, wants))))
    for dialect in TL.SPARSE_DIALECTS:
        for bs in MS_BLOCKS:
            for where in ("start", "middle", "end"):
                # a hole larger than the request (and than any plausible hole buffer), one around it, a tiny one
                add(dialect, rng.choice([2 * bs + rng.randrange(1, 70000), (3 << 20) + rng.randrange(0, 9000)]), where, [bs])
                add(dialect, bs + rng.choice([-1, 0, 1]), where, [bs])
            add(dialect, rng.choice([1, 2, 511, 4095, 4096, 4097]), rng.choice(["start", "middle", "end"]), [bs])
    for _ in range(60 if q else 900):
        dialect = rng.choice(TL.SPARSE_DIALECTS)
        hole = rng.choice([1, 7, 4095, 4096, 4097, 8192, 65536, 131072, 131073, 262145, 1 << 20, (1 << 20) + 1, (2 << 20) + 4097,
                           rng.randrange(1, 5 << 20)])
        wants = [rng.choice(MS_WANTS) for _ in range(rng.choice([1, 1, 2, 3]))]
        if min(wants) < 4095 and hole > 300000:
            wants = [w for w in wants if w >= 4095] or [1048576]      # (one call per byte of a big hole costs the model minutes)
        add(dialect, hole, rng.choice(["start", "middle", "end"]), wants, ndata=rng.choice([None, None, 1, 9000, 140000]))
    # a map that does not fit the record: refused by read_header (D22), no member stream at all
    for dialect in TL.SPARSE_DIALECTS:
        _, _, regions, real = TL.tar_sparse_holes(rng, dialect, 5000, "middle", 600)
        m = bytearray(TL.sparse_member(dialect, b"sp.bin", regions, real))
        hdrs = [i for i in range(0, len(m), 512) if TL.header_ok(m[i:i + 512]) and m[i + 156] in b"0S"]
        infra(len(hdrs) >= 1, "ms: no member header in a generated sparse archive")
        i = hdrs[-1]
        m[i + 124:i + 136] = b"%011o\0" % 512
        TL.fix_checksum_at(m, i)
        L.append("ms %s 1048576" % tok(bytes(m[:i + 1024]) + b"\0" * 1024))
    return L


def istream_bufsz():
    """BUFSZ of the buffered file istream of the working tree (the `gl` model is run with it; by
    `read_lines_chunking_independent` its answers do not depend on the value)"""
    m = re.search(r"#define\s+BUFSZ\s+\(?\s*(\d+)\s*\)?", (vlib.REPO / "lib" / "sqfs" / "src" / "io" / "istream.c").read_text())
    infra(m is not None, "lib/sqfs/src/io/istream.c no longer defines BUFSZ as a literal: cannot place lines at the buffer boundary")
    return int(m.group(1))


def gl_content(parts):
    """content tokens of the `gl` op: (bytes) literal or (count, byte) run"""
    toks = []
    for p in parts:
        if isinstance(p, tuple):
            if p[0] > 0:
                toks.append("r%dx%02x" % (p[0], p[1]))
        elif p:
            toks.append("h" + p.hex())
    return " ".join(toks)


def gen_getline_lines(ctx):
    """text inputs larger than the istream buffer: lines straddling the boundary, longer than one / two buffers, CR and
    LF on either side of it, blanks to trim around it, empty lines to skip there, missing final newline"""
    rng, q = ctx.rng, ctx.quick()
    B = istream_bufsz()
    L = []
    FLAGS = [0, 1, 2, 3, 4, 5, 6, 7]
    def add(flags, parts):
        L.append("gl %d %d %s" % (B, flags, gl_content(parts)))
    # small inputs, every flag set: all strings over {a, space, CR, LF, NUL} up to length 4 (5 in thorough)
    for fl in FLAGS:
        for b in prod([0x61, 0x20, 0x0d, 0x0a, 0x00], 4 if q else 5):
            add(fl, [b])
    # the byte before / at / after the boundary is each of: letter, blank, CR, LF; a few lines on either side
    edge = [b"a", b" ", b"\r", b"\n", b"\t", b"#", b"\0"]
    for fl in (5, 7, 0):
        for k in (-2, -1, 0, 1):
            for x in edge:
                for y in edge:
                    add(fl, [b"dir /d 0755 0 0\n", (B - 16 + k - 1, 0x62), x, y, b"c d\r\n\n  tail"])
    for _ in range(60 if q else 1200):
        fl = rng.choice([5, 5, 7, 7, 0, 1, 2, 3, 4, 6])
        parts = []
        pos = 0
        target = rng.choice([B, B, 2 * B, B]) + rng.randrange(-3, 4)
        # head: a few ordinary lines, then one filler line that ends `gap` bytes before the target offset
        for _ in range(rng.randrange(0, 4)):
            l = bytes(rng.choice(b"ab \t#\"\\") for _ in range(rng.randrange(0, 12))) + rng.choice([b"\n", b"\r\n", b"\n\n"])
            parts.append(l); pos += len(l)
        gap = rng.choice([0, 0, 1, 2, 3, 10, 100])
        fill = target - pos - gap - 1
        if fill > 0:
            parts += [(fill, rng.choice([0x61, 0x20, 0x23])), b"\n"]
            pos += fill + 1
        # the line that meets the boundary
        kind = rng.random()
        if kind < 0.3:
            body = bytes(rng.choice(b"xy \r\t") for _ in range(rng.randrange(1, 8)))
        elif kind < 0.5:
            body = b" " * rng.randrange(0, 5) + b"z" * rng.randrange(0, 5) + b" " * rng.randrange(0, 5) + rng.choice([b"", b"\r", b"\r\r"])
        elif kind < 0.7:
            parts.append((rng.choice([B - 1, B, B + 1, 2 * B + 5, 3 * B]), rng.choice([0x71, 0x20])))      # longer than the buffer
            body = rng.choice([b"", b"\r", b" end", b"\0x"])
        else:
            body = b"\n" * rng.randrange(0, 4) + b" \n" * rng.randrange(0, 3)
        parts.append(body)
        parts.append(rng.choice([b"\n", b"\r\n", b"", b"\nlast", b"\nlast\n", b"\n\n\n", b"\r"]))
        add(fl, parts)
    # degenerate shapes
    for fl in (0, 5, 7):
        add(fl, [])
        add(fl, [(150, 0x0a), (B - 300, 0x20), (150, 0x0a)])       # (the list-based model pays O(B) per line: few lines)
        add(fl, [(B + 1, 0x20)])
        add(fl, [(B, 0x61)])
        add(fl, [(B - 1, 0x61), b"\n"])
        add(fl, [(B - 1, 0x61), b"\r", b"\n"])
        add(fl, [(B - 2, 0x61), b"\r\n", b"b"])
        add(fl, [(3 * B + 7, 0x61)])
        add(fl, [(70, 0x0a), (B - 70, 0x20), (5, 0x0a), b"x"])
    return L


def same_answer(op, a, b):
    """no exemptions: failures are compared by the class of the diagnostic too (the harness reads it off stderr)"""
    return a == b


PARSE_PROBE_NUM = "ff00ff80007f64e0ff"      # negative base-256 number (9 digits) whose top byte stops being 0xFF: the 1.2.0 guard lets it wrap, 9ba238f refuses it


def parse_harness(ctx):
    lib = ctx.build_lib("san")
    return ctx.cc("h_c07_parse", ["h_c07_parse.c"], flags=["-I%s" % (vlib.REPO / "bin" / "gensquashfs" / "src")],
                  libs=[str(lib)] + vlib.CODEC_LIBS + (["-lselinux"] if os.path.exists("/usr/include/selinux/selinux.h") else []))


PARSE_OPS = ("num", "puint", "pint", "hex", "b64", "split", "dfn", "xdec", "pax", "spnew", "spold", "gl", "rh", "ms")


def check_parsers(ctx, stats):
    """The model mirrors the *current* code of the working tree and nothing else: there is no probing for older variants
    (a revert of 9ba238f / 56b164f shows up as a disagreement resp. an ASan abort of the harness)."""
    exe = parse_harness(ctx)
    lines = []
    cdir = vlib.CORPUS / "C07"
    if cdir.exists():
        for p in sorted(cdir.glob("parse*.txt")):
            lines += [l for l in p.read_text().splitlines() if l.strip() and not l.startswith("#")]
    ncorpus = len(lines)
    lines += gen_parser_lines(ctx)
    per_op = {}
    for l in lines:
        per_op[l.split()[0]] = per_op.get(l.split()[0], 0) + 1
    missing = [op for op in PARSE_OPS if per_op.get(op, 0) < 50]
    infra(not missing, "parser units: the generators produced (almost) nothing for %s" % missing)
    ctx.log("parser units: %d lines %s" % (len(lines), per_op))
    ctx.rng.shuffle(lines)              # the expensive ops (gl, rh, pax) spread evenly over the worker chunks
    t0 = time.time()
    n = jobs(ctx)
    # model and harness on the same chunks, concurrently
    impl, model, crashes = run_chunks(ctx, exe, ["c07"], lines, n)
    for bad, rc, err in crashes[:5]:
        ctx.violation(crash_key(err) or ("parse-crash:" + vlib.sha(bad)[:12]), "parser unit aborted (rc=%s) on %s: %s" % (rc, bad[:200], san_head(err)),
                      {"unit": "parse", "line": bad, "stderr": err})
    infra(len(lines) == len(impl) == len(model), "parser units: %d lines, %d / %d answers" % (len(lines), len(impl), len(model)))
    hist, mism, bounds = {}, [], 0
    for l, a, b in zip(lines, impl, model):
        op = l.split()[0]
        k = "%s:%s" % (op, " ".join(b.split()[:2]) if b.startswith("fail") else b.split()[0])
        if op == "ms":
            k = "ms:ok" if "end=eof" in b else "ms:fail " + (b.split("end=")[-1] if "end=" in b else b[3:])
        hist[k] = hist.get(k, 0) + 1
        if b in ("oob", "spin"):
            bounds += 1
        if a.startswith("CRASH"):
            continue
        if not same_answer(op, a, b):
            mism.append((l, a, b))
    ms_oob = [(l, a, b) for l, a, b in mism if a.startswith("ms outside-buffer")]
    for l, a, b in ms_oob[:3]:
        ctx.violation("ms-oob:" + vlib.sha(l)[:12], "tar member stream (strm_get_buffered_data) hands out a range that does not lie inside "
                      "its buffer: %s (model: %s); request sizes %s" % (a, b[:160], l.split()[2]),
                      {"unit": "parse", "line": l, "impl": a, "model": b})
    mism = [m for m in mism if not m[1].startswith("ms outside-buffer")] + ms_oob[3:]
    for l, a, b in mism[:8]:
        if b in ("oob", "spin"):
            # the model says the code leaves its buffer / does not stop, the real code answered under ASan: the model is wrong
            what = "model predicts %s, real code answers %r on %s" % (b, a, l[:300])
        else:
            what = "parser unit: real code answers %r, model %r on %s" % (a, b, l[:300])
        ctx.violation("parse-corr:" + vlib.sha(l)[:12], what, {"unit": "parse", "line": l, "impl": a, "model": b}, found_input=False)
    # monitors: the specification evaluated on the real code's behaviour, independent of the model's answers
    #  (a) get_line: the byte-at-a-time scanner `specFile` (quadratic in the line length: small inputs only)
    def gl_small(l):
        toks = l.split()[3:]
        return all(t.startswith("h") for t in toks) and sum(len(t) - 1 for t in toks) <= 32        # at most 16 literal bytes, no runs
    small_gl = [(l, a) for l, a in zip(lines, impl) if l.startswith("gl ") and gl_small(l) and not a.startswith("CRASH")]
    infra(len(small_gl) > 1000, "no small get_line inputs for the specification monitor")
    sp = model_lines(ctx, ["glspec" + l[2:] for l, _ in small_gl], "glspec")
    gl_bad = [(l, a, b) for (l, a), b in zip(small_gl, sp) if a != b]
    for l, a, b in gl_bad[:5]:
        ctx.violation("gl-spec:" + vlib.sha(l)[:12], "istream_get_line returns %r, the byte-at-a-time specification says %r on %s" % (a, b, l),
                      {"unit": "parse", "line": l, "impl": a, "spec": b})
    #  (b) read_header: no allocation beyond the implementation limits (`read_header_total`), observed through ASan's malloc hook
    rh_lines = [l for l in lines if l.startswith("rh ")]
    mx, rcrash = run_harness(ctx, exe, ["rhmax" + l[2:] for l in rh_lines], timeout=900)
    infra(rcrash is not None or len(mx) == len(rh_lines), "rhmax: %d answers for %d streams" % (len(mx), len(rh_lines)))
    lim = max(tar_limits().values())
    big_alloc = []
    for l, a in zip(rh_lines, mx):
        infra(a.startswith("max "), "rhmax answered %r" % a[:100])
        if int(a.split()[1]) > lim + 64:
            big_alloc.append((l, int(a.split()[1])))
    infra(rcrash is not None or any(int(a.split()[1]) > lim // 2 for a in mx), "rhmax: no stream made read_header allocate anything near the limits")
    for l, nbytes in big_alloc[:3]:
        ctx.violation("rh-alloc:" + vlib.sha(l)[:12], "read_header allocates %d bytes at once, the implementation limits allow %d (+ a list node): %s" % (
            nbytes, lim + 1, l[:200]), {"unit": "parse", "line": l, "impl": "max %d" % nbytes})
    # every op must have been answered both ways (accepting and rejecting) by the model: a generator that only produces
    # rejected inputs compares nothing
    # ms: the generators must have reached a hole with every block-sized request, and the 4096-byte clamp
    ms_pairs = [(l, b) for l, b in zip(lines, model) if l.startswith("ms ")]
    ms_clamped = sum(1 for l, b in ms_pairs if "end=eof" in b and re.search(r"sizes=(\S*,)?4096x\d", b) and int(l.split()[2].split(",")[0]) > 4096)
    infra(ms_clamped >= 40 and any(b == "ms hdr-fail" for _, b in ms_pairs) and
          all(any(l.split()[2] == str(bs) and "4096x" in b for l, b in ms_pairs) for bs in MS_BLOCKS if bs > 4096),
          "ms: the generated sparse members did not reach a hole with every request size (%d clamped)" % ms_clamped)
    for op in PARSE_OPS:
        if op == "ms":
            continue
        oks = sum(v for k, v in hist.items() if k == op + ":ok")
        infra(oks > 0, "parser units: no accepted input for op %s" % op)
        if op != "gl":
            infra(sum(v for k, v in hist.items() if k.startswith(op + ":fail")) > 0, "parser units: no rejected input for op %s" % op)
    stats["parse"] = {"evaluations": len(lines), "corpus": ncorpus, "per_op": per_op, "wall_s": round(time.time() - t0, 1),
                      "model_answer_histogram": dict(sorted(hist.items())),
                      "model_oob_or_spin_answers": bounds, "mismatches": len(mism),
                      "get_line_inputs_judged_by_the_specification": len(small_gl), "get_line_specification_violations": len(gl_bad),
                      "read_header_streams_with_allocation_monitor": len(rh_lines), "largest_allocation_seen": max((int(a.split()[1]) for a in mx), default=0),
                      "allocation_limit_violations": len(big_alloc),
                      "member_stream_runs": len(ms_pairs), "member_stream_runs_request_above_hole_buffer_in_a_hole": ms_clamped,
                      "member_stream_ranges_outside_the_buffer": len(ms_oob),
                      "samples": [{"line": lines[i][:200], "impl": impl[i][:200], "model": model[i][:200]} for i in (0, len(lines) // 2, len(lines) - 1)]}
    nontriv = sum(v for k, v in hist.items() if not k.endswith(":ok"))
    return len(lines) + len(small_gl) + len(rh_lines), nontriv, len(mism) + len(ms_oob[:3]) + len(crashes) + len(gl_bad) + len(big_alloc)


# ---------------------------------------------------------------------------------------------------------
# tool level

def tar_seeds():
    seeds = sorted((vlib.REPO / "lib" / "tar" / "test" / "data").rglob("*.tar")) + [vlib.REPO / "bin" / "tar2sqfs" / "test" / "simple.tar"]
    return [(p.relative_to(vlib.REPO).as_posix(), p.read_bytes()) for p in seeds if p.exists()]


def san_head(err):
    """the informative part of a sanitizer report: from the ERROR / runtime error line on"""
    for mark in ("ERROR: AddressSanitizer", "runtime error"):
        i = err.find(mark)
        if i >= 0:
            return err[max(0, err.rfind("\n", 0, i)):][:900]
    return err[-900:]


def crash_key(detail):
    """known sanitizer reports, identified by the reporting source line"""
    if "read_header.c" in detail and "negation of -9223372036854775808" in detail:
        return TL.KEY_UB_MTIME
    if "str_table.c" in detail and "left shift of negative value" in detail:
        return TL.KEY_UB_STRHASH
    if "heap-use-after-free" in detail and "read_pax_header" in detail:
        return TL.KEY_UAF_PAX
    if "null pointer passed as argument" in detail and "glob_files" in detail:
        return TL.KEY_GLOB_NOPACKDIR     # glob line in a pack file read without any pack directory: strlen(NULL) / opendir(NULL)
    return None


def classify_tar(ctx, T, job, res):
    """turn oracle failures of one tar job into (key, what) pairs"""
    out = []
    label, data, expect = job[:3]
    for clause, detail in res["bad"]:
        key = None
        if clause == "terminates":
            if data[:2] == b"\x1f\x8b":
                # zlib's own verdict on the stream, member by member: a data error anywhere (flipped bit, garbage after a
                # complete member) is what makes gzip.c's process_data spin (inflate returns Z_DATA_ERROR without progress)
                broken, rest = False, data
                for _ in range(16):
                    o = zlib.decompressobj(31)
                    try:
                        o.decompress(rest)
                    except zlib.error:
                        broken = True
                        break
                    if not o.eof or not o.unused_data:
                        break
                    rest = o.unused_data
                if broken:
                    key = TL.KEY_GZIP
            if key is None and res.get("listing"):
                line = TL.listing_to_hl(res["listing"])
                cur = ctx.driver(["c07"], "hlcur 5000 " + line[3:] + "\n")
                if cur and cur[0] == "spin":
                    key = KEY_D12
        elif clause == "no-crash":
            key = crash_key(detail)
        elif clause == "members-kept":
            key = TL.KEY_D22
        elif clause == "failure-diagnostic" and res.get("listing") and res["listing"][-1].startswith("END -"):
            key = TL.KEY_NODIAG_TAR           # the iterator reported an error that process_tarball does not print
        if key is None and clause == "terminates":
            # not a known non-termination: believe it only if it reproduces alone with a 12x longer limit
            again = T.run_tar(data, expect, timeout=TL.TIMEOUT * 12, opts=job[3])
            if not any(c == "terminates" for c, _ in again["bad"]):
                T.slow += 1
                continue
        if key is None:
            key = "tool-tar:%s:%s" % (clause, vlib.sha(data)[:12])
        out.append((key, "%s [%s]: %s" % (clause, label, san_head(detail) if clause == "no-crash" else detail)))
    return out


# a sort-file line whose quoted file name is followed by further characters (the silent `return -1` of decode_filename)
SORT_TRAILING = re.compile(r'^-?\d+\s+(\[[^\]]*\]\s+)?"((?:[^"\\]|\\.)*)"(.+)$')


def pack_to_hl(pack):
    toks = []
    for l in pack.splitlines():
        p = l.split()
        if len(p) >= 5 and p[0] in ("dir", "file", "link", "slink", "pipe", "sock") and '"' not in l:
            name = p[1].strip("/").encode("latin-1", "replace").hex() or "-"
            if p[0] == "link" and len(p) >= 6:
                toks.append("l:%s:%s" % (name, p[5].encode("latin-1", "replace").hex() or "-"))
            elif p[0] == "dir":
                toks.append("d:%s:-" % name)
            else:
                toks.append("f:%s:-" % name)
    return "hl " + " ".join(toks)


TAR_OPTS = [["-s"], ["-x"], ["-k"], ["-e"], ["-T"], ["-s", "-x"], ["-r", "usr"], ["-r", "usr", "-S"], ["-r", "../x"], ["-E", "*a*"],
            ["-E", "["], ["-b", "4096"], ["-c", "xz"], ["-c", "zstd", "-e", "-T"], ["-d", "uid=1,gid=2,mode=0700"]]


def tar_limits():
    src = (vlib.LEAN / "Sqfs" / "Generated" / "Consts.lean").read_text()
    out = {}
    for kind, name in (("L", "tarMaxPathLen"), ("K", "tarMaxSymlinkLen"), ("x", "tarMaxPaxLen")):
        m = re.search(r"def %s : Nat := (\d+)" % name, src)
        infra(m is not None, "Sqfs/Generated/Consts.lean has no %s" % name)
        out[kind] = int(m.group(1))
    return out


def check_tools(ctx, stats):
    T = TL.Tools(ctx)
    rng = ctx.rng
    q = ctx.quick()
    seeds = tar_seeds()
    infra(len(seeds) >= 20, "only %d reference archives found below %s" % (len(seeds), vlib.REPO))
    small = [(n, d) for n, d in seeds if len(d) <= 3072]
    infra(len(small) >= 3, "no small reference archives to truncate")
    small.sort(key=lambda nd: (not any(t in nd[0] for t in ("format-acceptance/pax", "xattr/xattr-schily.tar", "long-paths/gnu")), nd[0]))
    tjobs = []                                           # (label, data, expect_members, options, must_reject)
    def tjob(label, data, expect=None, opts=(), must_reject=None):
        tjobs.append((label, data, expect, tuple(opts), must_reject))
    cdir = vlib.CORPUS / "C07"
    if cdir.exists():
        for p in sorted(cdir.glob("*.tar*")):
            markers = [b"after%d" % i for i in range(12)] if p.name.startswith("d22_") else None
            tjob("corpus/" + p.name, p.read_bytes(), markers)
    for n, d in seeds:
        tjob("seed:" + n, d)
    # hard-link graphs as archives (D12 at tool level)
    for _ in range(10 if q else 60):
        k = rng.randint(1, 5)
        names = [b"h%d" % i for i in range(k)]
        pairs = [(nm, rng.choice(names + [b"f0", b"f0", b"missing", b"f0/x", b"."])) for nm in names]
        tjob("hl:random", TL.tar_hardlinks(pairs, [b"f0"]))
    # inconsistent sparse maps (D22) with marker members
    for _ in range(12 if q else 200):
        data, markers = TL.tar_sparse_inconsistent(rng)
        tjob("sparse:inconsistent", data, markers)
    # extension records around TAR_MAX_PATH_LEN / _SYMLINK_LEN / _PAX_LEN with all their data present
    limits = tar_limits()
    gates = [TL.tar_size_gate(rng, limits, kind, delta) for kind in "LKx" for delta in (-1, 0, 1)]
    gates += [TL.tar_size_gate(rng, limits) for _ in range(15 if q else 300)]
    for data, rej in gates:
        tjob("gate:" + ("over" if rej else "within"), data, None, (), "extension record larger than the implementation limit" if rej else None)
    # names nested around / far beyond SQFS_MAX_DIR_NESTING (recursion in the tree post-processing and the writers)
    limit = max_dir_nesting()
    for n in ([limit - 1, limit, limit + 1, limit + 2, 3 * limit, 30000] if q else
              [limit - 1, limit, limit + 1, limit + 2, 2 * limit, 3 * limit, 10000, 20000, 30000, 32768]):
        for kind in "df":
            tjob("deep:%d%s" % (n, kind), TL.tar_deep(rng, n, kind))
    # structure-aware mutations of every dialect, a third of them with non-default options
    for _ in range(900 if q else 8000):
        n, d = rng.choice(seeds)
        m = TL.mutate_tar(rng, d)
        for _ in range(rng.choice([0, 0, 0, 1, 2])):
            m = TL.mutate_tar(rng, m)
        tjob("mut:" + n, m, None, rng.choice(TAR_OPTS) if rng.random() < 0.33 else ())
    # truncation of small archives
    for idx, (n, d) in enumerate(small[:3] if q else small):
        step = 37 if q else (1 if idx < 4 else 16)      # thorough: every offset of four archives (pax, xattr, gnu long path, …)
        for cut in sorted(set(list(range(0, len(d), step)) + [511, 512, 513, 1023, 1024, 1025, len(d) - 1])):
            if cut < len(d):
                tjob("trunc:%s@%d" % (n, cut), d[:cut], None, ["-s"] if rng.random() < 0.2 else ())
    # compressed streams, corrupted
    base = dict(seeds)["bin/tar2sqfs/test/simple.tar"]
    for codec, cd in TL.compress_variants(base).items():
        tjob("z:%s:intact" % codec, cd)
        ncor = 25 if q else 400
        for _ in range(ncor):
            tjob("z:%s:corrupt" % codec, TL.corrupt_stream(rng, cd))

    # sparse members of every dialect x every block size tar2sqfs can be told to use: holes smaller than / around / larger
    # than the block at the start / in the middle / at the end; the content read back must be the independent expansion
    sjobs = []                                           # (label, archive, options, expected content)
    for dialect in TL.SPARSE_DIALECTS:
        for bs in MS_BLOCKS:
            for hole in (rng.choice([1, 2, 511, 4095, 4096, 4097]), bs + rng.choice([-1, 0, 1]),
                         rng.choice([2 * bs + rng.randrange(1, 70000), (3 << 20) + rng.randrange(0, 9000), 4 * bs + 1])):
                where = rng.choice(["start", "middle", "end"])
                arch, want, _, _ = TL.tar_sparse_holes(rng, dialect, hole, where)
                opts = ["-b", str(bs)] + rng.choice([[], [], ["-j", "1"], ["-c", "gzip"], ["-T"]])
                zs = rng.random()
                if zs < 0.15:
                    arch = TL.compress_variants(arch)[rng.choice(["gz", "xz", "bz2"])]
                sjobs.append(("sparse:%s:b%d:%s:%d" % (dialect, bs, where, hole), arch, opts, want))
    if not q:
        for _ in range(600):
            dialect, bs = rng.choice(TL.SPARSE_DIALECTS), rng.choice(MS_BLOCKS)
            hole = rng.choice([1, 4096, 4097, bs - 1, bs, bs + 1, 131072, 131073, 2 * bs + 1, rng.randrange(1, 6 << 20)])
            where = rng.choice(["start", "middle", "end"])
            arch, want, _, _ = TL.tar_sparse_holes(rng, dialect, hole, where, rng.choice([None, None, 140000]))
            sjobs.append(("sparse:%s:b%d:%s:%d" % (dialect, bs, where, hole), arch, ["-b", str(bs)], want))
    # members that merely *declare* a huge size (a few hundred bytes of input): the packer must not work in proportion to
    # the declared size. CPU-time limit, not wall clock.
    djobs = [("declared:2^%d:%s" % (e, dialect), TL.tar_declared_size(dialect, 1 << e), e)
             for e, dialect in ((40, "pax01"), (50, "old"), (60, "pax10"), (60, "pax00"))]
    default_bs = 131072

    gjobs = []                                           # (label, pack, sort, xattr, mode, must_accept)
    def gjob(label, pack, sort=None, xattr=None, mode="D", must_accept=None):
        gjobs.append((label, pack, sort, xattr, mode, must_accept))
    gjob("seed", TL.PACK_SEED, TL.SORT_SEED, TL.XATTR_SEED, "D", ["etc/passwd", "gl/a.txt"])
    for p in sorted(cdir.glob("*.txt")) if cdir.exists() else []:
        txt = p.read_bytes().decode("latin-1")
        if p.name.startswith("nodir_pack"):
            gjob("corpus/" + p.name, txt, mode="nodir")
        elif p.name.startswith("pack"):
            gjob("corpus/" + p.name, txt)
        elif p.name.endswith("_xattr.txt"):
            gjob("corpus/" + p.name, TL.PACK_SEED, None, txt)
        elif p.name.endswith("_sort.txt"):
            gjob("corpus/" + p.name, TL.PACK_SEED, txt, None)
    # every keyword x every way of (not) having a pack directory x with / without its optional location
    for label, text, mode in TL.pack_keyword_matrix():
        gjob(label, text, mode=mode)
    for mode in TL.GEN_MODES + ("dironly",):
        gjob("seed:" + mode, TL.PACK_SEED, TL.SORT_SEED, TL.XATTR_SEED, mode)
        gjob("seed-sort:" + mode, TL.PACK_SEED, TL.SORT_SEED, None, mode)
        gjob("seed-xattr:" + mode, TL.PACK_SEED, None, TL.XATTR_SEED, mode)
    # a real directory with a few hundred entries through every glob option
    for extra in ("", "-type f", "-type d", "-type l -type p", "-name \"*.txt\"", "-path \"*d1/*\"", "-nonrecursive", "-xdev -keeptime",
                  "-name \"[\"", "-name \"" + "*" * 60 + "x\"", "-type f -name \"f0?[0-5]*\" --"):
        gjob("glob:many", "glob /m 0755 0 0 %s many\n" % extra, must_accept=[] if "[" not in extra else None)
        gjob("glob:links", "glob /l 0755 0 0 %s links\n" % extra)
    gjob("glob:links", "glob / 0755 0 0 links\n")
    gjob("glob:links", "glob /l 0755 0 0 -nohardlinks links\n", must_accept=["l/two"])
    for _ in range(350 if q else 3000):
        gjob("mut:pack", TL.mutate_text(rng, TL.PACK_SEED), mode=rng.choice(["D"] * 6 + ["nodir", "slashdir", "D-rel"]))
    for _ in range(200 if q else 1500):
        gjob("mut:sort", TL.PACK_SEED, TL.mutate_text(rng, TL.SORT_SEED), None, rng.choice(["D"] * 6 + ["nodir", "dironly"]))
    for _ in range(200 if q else 1500):
        gjob("mut:xattr", TL.PACK_SEED, None, TL.mutate_text(rng, TL.XATTR_SEED), rng.choice(["D"] * 6 + ["nodir", "dironly"]))
    for _ in range(60 if q else 600):
        gjob("hl:pack", TL.pack_hardlink_graph(rng))
    # valid inputs larger than the istream buffer: the line at the boundary must come through unharmed
    B = istream_bufsz()
    for _ in range(9 if q else 90):
        for kind in ("pack", "sort", "xattr"):
            text, want = TL.big_text(rng, kind, B)
            if kind == "pack":
                gjob("big:pack", text, None, None, "D", want)
            elif kind == "sort":
                gjob("big:sort", TL.PACK_SEED, text, None, "D", want)
            else:
                gjob("big:xattr", TL.PACK_SEED, None, text, "D", want)
    for n in (limit - 1, limit, limit + 1, 3 * limit, 30000):
        gjob("deep:%d" % n, TL.pack_deep(n, "dir"))
        gjob("deep:%df" % n, TL.pack_deep(n, "file"))

    t0 = time.time()
    ctx.log("tool level: %d tar jobs, %d gensquashfs jobs, %d workers" % (len(tjobs), len(gjobs), jobs(ctx)))
    with ThreadPoolExecutor(max_workers=jobs(ctx)) as ex:
        tres = list(ex.map(lambda j: T.run_tar(j[1], j[2], opts=j[3], must_reject=j[4]), tjobs))
        gres = list(ex.map(lambda j: T.run_gen(j[1], j[2], j[3], mode=j[4], must_accept=j[5]), gjobs))
        sres = list(ex.map(lambda j: T.run_tar_content(j[1], j[2], b"sp.bin", j[3], [b"before", b"zz-after"]), sjobs))
        dres = list(ex.map(lambda j: T.run_tar_declared(j[1]), djobs))
    infra(len(tres) == len(tjobs) and len(gres) == len(gjobs) and len(sres) == len(sjobs) and len(dres) == len(djobs),
          "tool level: results missing")
    hist, shown = {}, {}
    nviol = 0
    for job, res in zip(tjobs, tres):
        cls = job[0].split(":")[0] + ("/" + job[0].split(":")[1] if job[0].startswith("z:") else "")
        outcome = "listed-only(BIG)" if res.get("big") else ("exit %s" % (res["rc"] if res["rc"] in (0, "timeout", None) else "!=0"))
        hist["tar %s → %s" % (cls, outcome)] = hist.get("tar %s → %s" % (cls, outcome), 0) + 1
        for key, what in classify_tar(ctx, T, job, res):
            nviol += 1
            fam = key.split(":")[0] + ":" + key.split(":")[1] if key.startswith("tool-tar") else key
            shown[fam] = shown.get(fam, 0) + 1
            if shown[fam] <= 3:
                ctx.violation(key, what, {"unit": "tool-tar", "label": job[0], "data_b64": base64.b64encode(job[1]).decode(),
                                          "expect_members": [m.decode() for m in job[2]] if job[2] else None,
                                          "opts": list(job[3]), "must_reject": job[4]})
    for job, res in zip(sjobs, sres):
        k = "tar sparse -b %s → exit %s" % (job[2][1], res["rc"] if res["rc"] in (0, "timeout") else "!=0")
        hist[k] = hist.get(k, 0) + 1
        for clause, detail in res["bad"]:
            nviol += 1
            fam = "tool-sparse:" + clause
            shown[fam] = shown.get(fam, 0) + 1
            if shown[fam] <= 3:
                ctx.violation((crash_key(detail) if clause == "no-crash" else None) or "tool-sparse:%s:%s" % (clause, vlib.sha(job[1])[:12]),
                              "%s [%s, tar2sqfs %s]: %s" % (clause, job[0], " ".join(job[2]), san_head(detail) if clause == "no-crash" else detail),
                              {"unit": "tool-sparse", "label": job[0], "data_b64": base64.b64encode(job[1]).decode(), "opts": job[2],
                               "want_sha": vlib.sha(job[3]), "want_len": len(job[3]), "want_b64z": base64.b64encode(zlib.compress(job[3], 9)).decode()})
    infra(sum(1 for r in sres if r["rc"] == 0 and not r["bad"]) >= len(sres) * 3 // 4 or nviol > 0,
          "tool level: most well-formed sparse archives were not packed and compared")
    slow_declared = []
    for job, res in zip(djobs, dres):
        k = "tar %s → %s" % (job[0].rsplit(":", 1)[0], res["outcome"])
        hist[k] = hist.get(k, 0) + 1
        for clause, detail in res["bad"]:
            nviol += 1
            if clause == "terminates":
                slow_declared.append((job, detail))
            else:
                ctx.violation("tool-declared:%s:%s" % (clause, vlib.sha(job[1])[:12]), "%s [%s]: %s" % (clause, job[0], detail),
                              {"unit": "tool-declared", "label": job[0], "data_b64": base64.b64encode(job[1]).decode()})
    # two findings: sizes no inode can carry (more than 2^29 blocks: must be refused before packing starts) and sizes that
    # can be stored (the work is still proportional to what is declared)
    for key, sel, text in ((TL.KEY_DECLARED_BEYOND, lambda e: (1 << e) // default_bs > TL.MAX_FILE_BLOCKS,
                            "that no inode can carry (more than 2^29 blocks; set_block_size would fail with SQFS_ERROR_OVERFLOW in the end)"),
                           (TL.KEY_DECLARED_SIZE, lambda e: (1 << e) // default_bs <= TL.MAX_FILE_BLOCKS, "that an inode can carry")):
        slow = [(j, d) for j, d in slow_declared if sel(j[2])]
        if slow:
            job, detail = slow[0]
            ctx.violation(key, "tar2sqfs works in proportion to the size a sparse member *declares*, not to the length of its input, for "
                          "a size %s: %s (%s)" % (text, detail, ", ".join(j[0] for j, _ in slow)),
                          {"unit": "tool-declared", "label": job[0], "data_b64": base64.b64encode(job[1]).decode(),
                           "all_slow": [j[0] for j, _ in slow]})
    for job, res in zip(gjobs, gres):
        outcome = "exit %s" % (res["rc"] if res["rc"] in (0, "timeout") else "!=0")
        gcls = job[0].split("/")[0].split(":")[0] + ("[%s]" % job[4] if job[4] != "D" else "")
        hist["gen %s → %s" % (gcls, outcome)] = hist.get("gen %s → %s" % (gcls, outcome), 0) + 1
        for clause, detail in res["bad"]:
            key = None
            if clause == "terminates":
                cur = ctx.driver(["c07"], "hlcur 5000 " + pack_to_hl(job[1])[3:] + "\n")
                if cur and cur[0] == "spin":
                    key = KEY_D12
            if clause == "no-crash":
                key = crash_key(detail)
            if clause == "failure-diagnostic" and job[3] is not None and T.run_gen(job[1], job[2], None, mode=job[4])["rc"] == 0:
                key = TL.KEY_NODIAG_XATTR     # fails only with the xattr map file, silently: apply_dfs drops the error
            if clause == "failure-diagnostic" and job[2] is not None and T.run_gen(job[1], None, job[3], mode=job[4])["rc"] == 0 \
                    and any(SORT_TRAILING.match(l.strip()) for l in job[2].replace("\r", "").splitlines()):
                key = TL.KEY_NODIAG_SORT      # quoted file name followed by more characters: decode_filename returns -1 silently
            if key is None and clause == "terminates":
                again = T.run_gen(job[1], job[2], job[3], timeout=TL.TIMEOUT * 12, mode=job[4])
                if not any(c == "terminates" for c, _ in again["bad"]):
                    T.slow += 1
                    continue
            if key is None:
                key = "tool-gen:%s:%s" % (clause, vlib.sha(repr(job[1:5]))[:12])
            nviol += 1
            fam = "tool-gen:" + clause if key.startswith("tool-gen") else key
            shown[fam] = shown.get(fam, 0) + 1
            if shown[fam] <= 3:
                ctx.violation(key, "%s [%s]: %s" % (clause, job[0], san_head(detail) if clause == "no-crash" else detail),
                              {"unit": "tool-gen", "label": job[0], "pack": job[1], "sort": job[2], "xattr": job[3], "mode": job[4],
                               "must_accept": job[5]})
    stats["tools"] = {"tar_jobs": len(tjobs), "gensquashfs_jobs": len(gjobs), "sparse_content_jobs": len(sjobs),
                      "declared_size_probes": {j[0]: r["outcome"] for j, r in zip(djobs, dres)}, "declared_size_cpu_limit_s": TL.DECLARED_CPU_S, "timeout_s": TL.TIMEOUT, "wall_s": round(time.time() - t0, 1),
                      "outcome_histogram": dict(sorted(hist.items())), "oracle_failures": nviol, "timeouts_not_reproduced_in_isolation": T.slow,
                      "listing_refused_for_line_feed_then_validated_independently": T.lf_refusals,
                      "samples": [{"label": tjobs[i][0], "tar2sqfs_exit": tres[i]["rc"], "stderr": tres[i].get("stderr", "")[-120:]}
                                  for i in (0, len(tjobs) // 3, len(tjobs) // 2, len(tjobs) - 1)]}
    nontriv = sum(1 for r in tres if r["rc"] not in (0, None)) + sum(1 for r in gres if r["rc"] != 0)
    return len(tjobs) + len(gjobs) + len(sjobs) + len(djobs), nontriv, nviol


# ---------------------------------------------------------------------------------------------------------

def run(ctx):
    ok, problems = vlib.proof_gate(ctx, MODULE, REQUIRED)
    if ok:
        wok, wlog = ctx.lean_build([WITNESS_MODULE])
        if not wok:
            ok, problems = False, ["lake build %s failed: %s" % (WITNESS_MODULE, wlog[-1500:])]
    if not ok:
        ctx.violation("proof:C07", "proof obligations of C07 no longer check: " + " | ".join(problems)[:1500],
                      {"broken": problems, "theorems_file": "lean/Sqfs/Props/C07.lean"}, found_input=False)
    stats = {}
    ev, nontriv, dis = 0, 0, 0
    for part in (check_hardlinks, check_parsers, check_tools):
        e, n, d = part(ctx, stats)
        ev, nontriv, dis = ev + e, nontriv + n, dis + d
    ctx.cov.update({
        "evaluations": ev,
        "distinct_nontrivial": nontriv,
        "rule": "hard links: every graph over <=4 root names (file | dir | link to any name, root, missing, below-non-dir), all insertion "
                "orders up to %d names, plus seeded random trees up to %d nodes; non-trivial = the model's answer is an error "
                "(cycle, directory, dangling, EEXIST, …)" % (3 if ctx.quick() else 4, 300 if ctx.quick() else 400),
        "units": stats,
        "samples": stats["hl"]["samples"],
        "disagreements_checked": dis,
    })
    return ctx.finish(LEVEL, trusted_extra=[
        "modelled, not verified directly: the C text of lib/fstree/src/hardlink.c and the look-up/insert part of fstree.c; "
        "tree nodes are abstracted to (other | dir | hard link with a fixed look-up answer)",
        "non-termination of the real code is observed as 10 ms of CPU time (ITIMER_VIRTUAL) inside fstree_resolve_hard_links"],
        assumptions=["fewer than 2^32-1 children per directory (the link_count guard of mknode is not modelled)"])


def replay(ctx, path):
    body = json.loads(open(path).read())
    rp = body.get("replay", {})
    if rp.get("unit") == "hl" and "line" in rp:
        ctx.lean_build(["sqfsmodel"])
        exe = ctx.cc("h_c07_hl", HL_SOURCES, flags=["-DSPIN_MS=10"])
        impl, crash = run_harness(ctx, exe, [rp["line"]], timeout=60)
        model = ctx.driver(["c07"], rp["line"] + "\n")
        spec = ctx.driver(["c07"], "hlspec " + rp["line"][3:] + "\n")
        print("line  :", rp["line"])
        print("impl  :", impl, "crash:", crash)
        print("model :", model)
        print("spec  :", spec)
        # (graphs with a preset link count are judged by the model comparison only: the classifier does not know the counts)
        bad = (hl_spec_verdict(rp["line"], impl[0], spec[0]) if " c:" not in rp["line"] else []) if impl else ["crash"]
        print("clauses violated:", bad)
        return 1 if crash or bad or impl != model else 0
    if rp.get("unit") == "parse" and "line" in rp:
        ctx.lean_build(["sqfsmodel"])
        exe = parse_harness(ctx)
        impl, crash = run_harness(ctx, exe, [rp["line"]], timeout=120)
        model = ctx.driver(["c07"], rp["line"] + "\n")
        print("line  :", rp["line"][:400])
        print("impl  :", impl, "crash:", (crash[1], san_head(crash[2])) if crash else None)
        print("model :", model)
        return 1 if crash or not impl or not model or not same_answer(rp["line"].split()[0], impl[0], model[0]) else 0
    if rp.get("unit") == "tool-tar" and "data_b64" in rp:
        ctx.lean_build(["sqfsmodel"])
        T = TL.Tools(ctx)
        data = base64.b64decode(rp["data_b64"])
        expect = [m.encode() for m in rp["expect_members"]] if rp.get("expect_members") else None
        res = T.run_tar(data, expect, timeout=TL.TIMEOUT * 3, opts=rp.get("opts") or (), must_reject=rp.get("must_reject"))
        print("label :", rp.get("label"), "bytes:", len(data))
        print("lister:", res.get("list_rc"), (res.get("listing") or [])[-3:])
        print("tar2sqfs exit:", res.get("rc"), "stderr:", res.get("stderr", "")[-300:])
        for clause, detail in res["bad"]:
            print("violated:", clause, "-", san_head(detail) if clause == "no-crash" else detail)
        return 1 if res["bad"] else 0
    if rp.get("unit") == "tool-sparse" and "data_b64" in rp:
        T = TL.Tools(ctx)
        want = zlib.decompress(base64.b64decode(rp["want_b64z"]))
        res = T.run_tar_content(base64.b64decode(rp["data_b64"]), rp.get("opts") or [], b"sp.bin", want, [b"before", b"zz-after"], timeout=TL.TIMEOUT * 3)
        print("label :", rp.get("label"), "tar2sqfs", " ".join(rp.get("opts") or []), "exit:", res["rc"], "stderr:", res.get("stderr", "")[-300:])
        for clause, detail in res["bad"]:
            print("violated:", clause, "-", san_head(detail) if clause == "no-crash" else detail)
        return 1 if res["bad"] else 0
    if rp.get("unit") == "tool-declared" and "data_b64" in rp:
        T = TL.Tools(ctx)
        res = T.run_tar_declared(base64.b64decode(rp["data_b64"]))
        print("label :", rp.get("label"), "outcome:", res["outcome"], "cpu limit %ds" % TL.DECLARED_CPU_S, "stderr:", res.get("stderr", "")[-300:])
        for clause, detail in res["bad"]:
            print("violated:", clause, "-", detail)
        return 1 if res["bad"] else 0
    if rp.get("unit") == "tool-gen":
        T = TL.Tools(ctx)
        res = T.run_gen(rp.get("pack"), rp.get("sort"), rp.get("xattr"), timeout=TL.TIMEOUT * 3, mode=rp.get("mode") or "D",
                        must_accept=rp.get("must_accept"))
        print("label :", rp.get("label"))
        print("gensquashfs exit:", res["rc"], "stderr:", res["stderr"][-300:])
        for clause, detail in res["bad"]:
            print("violated:", clause, "-", san_head(detail) if clause == "no-crash" else detail)
        return 1 if res["bad"] else 0
    print("replay file names a broken obligation, no input to replay:", json.dumps(rp)[:500])
    return 1
