"""
C17 — packing directives are honoured exactly in the on-disk layout.

Proof: lean/Sqfs/Props/C17.lean (sort-file model + specPack, for all inputs).
Tie (every run, real code compiled from the working tree with ASan+UBSan):
  A. sort file alone: the real fstree_sort_files() (harness/h_c17.c links bin/gensquashfs/src/sort_by_file.c
     unchanged) vs `sqfsmodel c17 sort` on generated file lists x sort files; libc's fnmatch, called with the flag
     word the man page documents (FNM_PATHNAME for glob, 0 for glob_no_path), answers the model's match queries.
     Independently of the model, the theorem statements (permutation, ascending, stable, first match wins) are
     evaluated on the implementation's answer.
  A2. glob matching alone: one-line sort files `1 [glob|glob_no_path] "pattern"` through the real fstree_sort_files
     (which files get priority 1) vs a hand-written table, libc with the documented flag word, and ref_glob (a matcher
     written from the man page) — ties the fnmatch flag word of sort_by_file.c (no FNM_PERIOD / FNM_CASEFOLD / ...).
  B. whole tool: real gensquashfs (-S sort file, -T, -e, -b, -B, -c) and tar2sqfs (-T, -e) -> image -> raw decode
     (tools/sqfsraw.py, independent of libsquashfs) + `rdsquashfs -s` / `rdsquashfs -c` -> compared with
     `sqfsmodel c17 pack-run` on the same ordered file list and flags (compressed payloads supplied by the real
     block compressor as the model's Codec parameter), including the bytes of the data area; each directive's
     documented effect is evaluated as a predicate on the real layout; `readFile` of the specification is run on the
     real layout (mon-read) and `rdsquashfs -c` must return the original bytes; export table vs the model; for a
     share of the cases the same tree is packed again without sort file and -T and the two images must describe the
     same tree (`rdsquashfs -d`, raw inode walk).
  C. export table alone: a real sqfs_dir_writer_t with SQFS_DIR_WRITER_CREATE_EXPORT_TABLE (add_entry sequences up to
     several thousand inodes, any order, gaps, repeats) + sqfs_dir_writer_write_export_table into a memory file vs
     `sqfsmodel c17 exptbl` (Sqfs/Model/C17Export.lean: growing array, 0xFF fill, sqfs_write_table), byte for byte.
"""
import concurrent.futures, io, json, os, struct, tarfile
import vlib, sqfsraw

LEVEL = "proof"
MODULE = "Sqfs.Props.C17"
REQUIRED = ["Sqfs.C17." + n for n in (
    "sort_perm", "sort_sorted", "sort_stable", "first_match_wins", "exact_line_matches_one",
    "dont_compress_words", "dont_fragment_effect", "nosparse_effect", "no_tail_packing_only_large",
    "no_tail_packing_layout", "dont_compress_effect", "dont_dedup_effect", "layout_follows_order",
    "directives_preserve_content", "export_table_ok", "quoted_name_decodes", "directives_preserve_tree",
    "directives_preserve_size", "export_array_refines", "export_table_written", "export_table_of_tree", "exCodec_ok",
    "sort_then_pack_flags", "no_sort_file_pack_flags", "flag_list_decodes")]
ALL_ERR_KINDS = {"number", "overflow", "filename", "bracket", "flaglist", "afterflags", "unknownflag", "unmatched", "escape",
                 "trailing", "canon"}
TOOL_TIMEOUT = 1800        # seconds; generous: a timeout is reported as a result of the real code, never hit by load alone

F_DC, F_DF, F_DD, F_NS = 1, 4, 8, 16          # cross-checked against the generated constants in run()
FLAGNAMES = {F_DC: "dont_compress", F_DF: "dont_fragment", F_DD: "dont_deduplicate", F_NS: "nosparse"}
KEY_D24 = "D24:nosparse-zero-tail-fragment-block-sparse"
KEY_D26 = "D26:sortfile-quoted-name-unterminated"
KEY_D27 = "D27:dont_compress-tail-deduplicated-into-compressed-fragment-block"


def hx(b):
    return b.hex() if b else "-"


def unhx(t):
    return b"" if t == "-" else bytes.fromhex(t)


# ------------------------------------------------------------------------------------------------ processes
class Env:
    def __init__(self, ctx):
        self.ctx = ctx
        lib = ctx.build_lib()
        self.harness = ctx.cc("h_c17", ["h_c17.c", "bin/gensquashfs/src/sort_by_file.c", str(lib)],
                              flags=["-I%s" % (vlib.REPO / "bin/gensquashfs/src")], libs=vlib.CODEC_LIBS)
        self.gen = ctx.build_tool("gensquashfs")
        self.rd = ctx.build_tool("rdsquashfs")
        self.t2s = ctx.build_tool("tar2sqfs")
        self.env = ctx.san_env()
        self.driver = str(ctx.driver_path())

    def run_harness(self, lines):
        r = vlib.sh([str(self.harness)], input="\n".join(lines) + "\n", env=self.env, timeout=TOOL_TIMEOUT)
        out = r.stdout.splitlines()
        if r.returncode != 0 or len(out) != len(lines):
            raise HarnessCrash(len(out), r.returncode, r.stderr[-3000:], lines[min(len(out), len(lines) - 1)])
        return out

    def run_model(self, lines):
        r = vlib.sh([self.driver, "c17"], input="\n".join(lines) + "\n", timeout=TOOL_TIMEOUT)
        out = r.stdout.splitlines()
        if r.returncode != 0 or len(out) != len(lines):
            raise vlib.CheckFailure("model driver failed: rc=%s, %d answers for %d lines: %s" % (r.returncode, len(out), len(lines), r.stderr[-2000:]))
        bad = [(l, o) for l, o in zip(lines, out) if o == "bad-op"]
        if bad:
            raise vlib.CheckFailure("model driver did not understand %d line(s), first: %s" % (len(bad), bad[0][0][:300]))
        return out

    def tool(self, cmd, stdin=None, timeout=TOOL_TIMEOUT):
        """run a CLI tool of the working tree; stdout/stderr decoded leniently (names are arbitrary bytes)"""
        class R:
            pass
        r = R()
        try:
            p = vlib.sh([str(c) for c in cmd], input=stdin if stdin is not None else b"", env=self.env, timeout=timeout, text=False)
            r.returncode, r.stdout, r.stderr = p.returncode, p.stdout.decode("utf-8", "replace"), p.stderr.decode("utf-8", "replace")
        except Exception as e:                                   # timeout
            r.returncode, r.stdout, r.stderr = 124, "", "timeout: %s" % e
        return r


_reported = set()
_distinct = set()          # distinct non-trivial inputs of this run (measured)


def report_once(ctx, key, what, replay):
    """the D-keys identify a defect, not an input: report the first input that shows it"""
    if key in _reported:
        return
    _reported.add(key)
    ctx.violation(key, what, replay)


def san_summary(err):
    """the informative lines of a sanitizer report"""
    keep = [l.strip() for l in err.splitlines() if "ERROR:" in l or "SUMMARY:" in l or "runtime error" in l]
    return " | ".join(keep)[:600] or err[-400:]


class HarnessCrash(Exception):
    def __init__(self, k, rc, err, line):
        super().__init__("harness aborted rc=%s at line %d" % (rc, k))
        self.k, self.rc, self.err, self.line = k, rc, err, line


# ------------------------------------------------------------------------------------------------ generators
DIRS = [b"", b"bin", b"lib", b"bin/sub", b"d e"]
NAMES = [b"a", b"b", b"c.txt", b"lib.so", b"libx.so", b"mk1", b"mk2", b"chown", b"x y", b'q"r', b"[z]", b"#h",
         b"back\\slash", b"*star", b"?", b"tr ", b"\xc3\xa4", b"-1", b"7"]


def gen_paths(rng, nmax=8):
    n = rng.randint(1, nmax)
    seen, out = set(), []
    while len(out) < n:
        d = rng.choice(DIRS[:3] if rng.random() < 0.7 else DIRS)
        nm = rng.choice(NAMES[:8] if rng.random() < 0.6 else NAMES)
        p = (d + b"/" + nm) if d else nm
        if p in seen or p in DIRS:
            continue
        seen.add(p)
        out.append(p)
    return out


# part A only: names that tell the fnmatch flag word apart.  A leading '.' (of the path and of a component behind a '/')
# is matched by a wild card only without FNM_PERIOD; mixed case tells FNM_CASEFOLD; a name with a glob character tells
# FNM_NOESCAPE; `bin` against `bin/a` tells FNM_LEADING_DIR.
DIRS_A = DIRS + [b".git", b"h/.b", b"Bin", b".cfg/sub", b"h"]
NAMES_A = NAMES + [b".hidden", b".a", b".Xrc", b"Mk1", b"MK2", b"LIB.so", b"lib.SO", b"README", b"c", b".c.txt", b"A"]


def dir_prefixes(p):
    parts = p.split(b"/")
    return {b"/".join(parts[:k]) for k in range(1, len(parts))}


def gen_paths_a(rng, nmax=8):
    """like gen_paths, with hidden names, hidden directories inside a path (`h/.b/c`) and mixed case in ~half of the lists"""
    if rng.random() < 0.45:
        return gen_paths(rng, nmax)
    n = rng.randint(1, nmax)
    files, dirs, out = set(), set(), []
    tries = 0
    while len(out) < n and tries < 200:
        tries += 1
        d = rng.choice(DIRS_A[:3] if rng.random() < 0.35 else DIRS_A)
        nm = rng.choice(NAMES_A[len(NAMES):] if rng.random() < 0.6 else NAMES_A)
        p = (d + b"/" + nm) if d else nm
        pre = dir_prefixes(p)
        if p in files or p in dirs or (pre & files) or p in DIRS_A:
            continue
        files.add(p)
        dirs |= pre
        out.append(p)
    return out or [b"a"]


def quote_name(p):
    return b'"' + p.replace(b"\\", b"\\\\").replace(b'"', b'\\"') + b'"'


def plain_ok(p):
    return not (p[:1] in (b"[", b'"') or p[:1].isspace() or p[-1:].isspace())


GLOBS = [b"*", b"bin/*", b"*.so", b"*/mk*", b"lib/lib?.so", b"[ab]", b"bin/?", b"*a*", b"*/*", b"bin/sub/*", b"lib*",
         b"*[!a]", b"d e/*"]
# part A only (see DIRS_A): leading periods, components behind a slash, case, bracket classes, escapes, a bare directory name
GLOBS_A = GLOBS + [b".*", b"*/.*", b"[.]*", b"[!.]*", b"*/[!.]*", b"?hidden", b"?*", b"h/*/c", b"h/.b/*", b"h/?b/*", b"*/*/*",
                   b"h/*", b"[A-Z]*", b"[a-z]*", b"[[:upper:]]*", b"[[:lower:]]*", b"mk[0-9]", b"MK?", b"lib.SO", b"LIB.*", b"*.SO",
                   b"BIN/*", b"Bin/*", b"readme", b"R*", b".git/*", b"*/.?*", b"*rc", b"\\*star", b"\\?", b"bin", b"h", b"*/[a-z]",
                   b"[!A-Z]*", b"*.[sS][oO]", b".[a-z]*", b"*/.b/*", b"*c"]
BIGP = [9223372036854775806, -9223372036854775806, 9223372036854775807, 18446744073709551615, 18446744073709551616,
        1844674407370955161, 1844674407370955160, 99999999999999999999, -9223372036854775807]


# magnitudes on both sides of 2^31, 2^32, 2^53: a 32 bit (or double) priority changes the order of these among each
# other and against the small values (2^32 -> 0, 2^31 -> negative, 2^32+5 -> 5, ...)
WIDEP = [2147483647, 2147483648, 2147483649, -2147483648, -2147483649, 4294967295, 4294967296, 4294967301, -4294967296,
         -4294967303, 8589934593, 12884901890, 1099511627776, -1099511627776, 9007199254740993, 9007199254740992,
         -9007199254740993, 4611686018427387904, -4611686018427387904, 9223372036854775805, -9223372036854775805]


PRIO_MAX = 9223372036854775806        # ±(2^63 - 2): what decode_priority accepts


def gen_prio(rng):
    return max(-PRIO_MAX, min(PRIO_MAX, gen_prio_raw(rng)))


def gen_prio_raw(rng):
    r = rng.random()
    if r < 0.70:
        return rng.choice([0, 1, -1, 2, -2, 5, 5, -7, 10, 100, -10000])
    if r < 0.93:
        v = rng.choice(WIDEP)
        return v if rng.random() < 0.7 else v + rng.choice([-3, -1, 1, 2, 5])
    if r < 0.97:
        return rng.choice(BIGP[:2])
    return rng.randint(-(1 << 62), 1 << 62)


def gen_extras(rng, paths):
    """other node types around the regular files `paths` (sortx): [(kind, path, extra|None)]"""
    used = set(paths)
    for p in paths:                                    # the implicit parent directories
        parts = p.split(b"/")
        for k in range(1, len(parts)):
            used.add(b"/".join(parts[:k]))
    out = []
    for _ in range(rng.randint(1, 5)):
        kind = rng.choice("dlhhcbps")
        d = rng.choice([b"", b"", b"bin", b"lib", b"etc"])
        nm = rng.choice([b"hl", b"sl", b"node", b"zz", b"a.lnk", b"mk1", b"lib.so"]) + str(rng.randint(0, 9)).encode()
        p = (d + b"/" + nm) if d else nm
        if p in used or any(q.startswith(p + b"/") for q in used) or any(p.startswith(q + b"/") for q in paths):
            continue
        used.add(p)
        if kind == "l":
            out.append((kind, p, rng.choice([b"a", b"../x", b"/abs/target", rng.choice(paths)])))
        elif kind == "h":
            out.append((kind, p, b"/" + rng.choice(paths)))
        else:
            out.append((kind, p, None))
    return out


def gen_flags_token(rng, subset=None, glob=None, messy=False):
    """'[a,b]' list text for a set of flag bits (+ glob kind 0/1/2)"""
    names = [FLAGNAMES[b] for b in (F_DC, F_DF, F_DD, F_NS) if (subset or 0) & b]
    if glob == 1:
        names.append("glob_no_path")
    elif glob == 2:
        names.append("glob")
    if not names:
        return b""
    rng.shuffle(names)
    if glob and rng.random() < 0.15:      # both glob kinds: the last one wins
        names.insert(0, "glob" if glob == 1 else "glob_no_path")
    sep = "," if not messy else rng.choice([",", " , ", ", ", ",,", " ,"])
    body = sep.join(('"%s"' % n) if (messy and rng.random() < 0.2) else n for n in names)
    if messy and rng.random() < 0.3:
        body = " " + body + " "
    return ("[" + body + "]").encode()


def gen_line(rng, paths, valid_only=False, globs=None):
    """one sort-file line (bytes, without newline)"""
    globs = globs or GLOBS
    r = rng.random()
    if not valid_only and r < 0.06:
        return rng.choice([b"", b"   ", b"# comment", b"  # 5 a", b"#"])
    if not valid_only and r < 0.16:        # malformed
        p = rng.choice(paths)
        return rng.choice([
            b"x " + p, b"--1 " + p, b"- 3 " + p, b"5", b"5\t", b"5" + p, str(rng.choice(BIGP)).encode() + b" " + p,
            b"3 [glob " + p, b"3 [glob]" + p, b"3 [align] " + p, b"3 [globx] " + p, b"3 [\"glob] " + p,
            b"3 [gl\\ob] " + p, b'3 [glob] "' + p, b'3 "' + p + b'" x', b'3 "a\\qb"', b"3 ../" + p, b"3 a/../b",
            b"3 [] " + p, b"3 [,] " + p, b"3 [glob,] ]" + p, b"+3 " + p, b"3 [dont_compress]", b"0x10 " + p,
            b"3 [ glob , nosparse ] " + p, b"3 [GLOB] " + p, b'3 "' + p + b'"', b"3 \"\"", b"3 \"a\\\\\"", b"3 \"\\\"",
        ])
    prio = gen_prio(rng)
    ps = str(prio).encode()
    if rng.random() < 0.05:
        ps = (b"-" if prio < 0 else b"") + b"00" + str(abs(prio)).encode()
    sub = rng.choice([0, 0, 0, F_DC, F_DF, F_DD, F_NS, rng.randint(0, 31) & (F_DC | F_DF | F_DD | F_NS)])
    kind = rng.random()
    messy = (not valid_only) and rng.random() < 0.3
    if kind < 0.35:
        g = rng.choice([1, 2])
        name = rng.choice(globs) if rng.random() < 0.8 else rng.choice(paths)
        if globs is not GLOBS and rng.random() < 0.2:       # a quoted pattern (unescaped, then used as the pattern)
            name = quote_name(name)
        fl = gen_flags_token(rng, sub, g, messy)
    else:
        g = 0
        name = rng.choice(paths) if rng.random() < 0.9 else b"nonexistent/file"
        fl = gen_flags_token(rng, sub, None, messy)
        form = rng.random()
        if form < 0.25 or not plain_ok(name):
            name = quote_name(name)
        elif form < 0.35:
            name = b"/" + name
        elif form < 0.42:
            name = b"./" + name.replace(b"/", b"//")
    ws = b" " if not messy else rng.choice([b" ", b"\t", b"  ", b" \t "])
    lead = b"" if not messy else rng.choice([b"", b"  ", b"\t"])
    trail = b"" if not messy else rng.choice([b"", b" ", b"\t"])
    return lead + ps + ws + (fl + ws if fl else b"") + name + trail


def gen_sortfile(rng, paths, valid_only=False, globs=None):
    n = rng.randint(0, 7)
    lines = [gen_line(rng, paths, valid_only, globs) for _ in range(n)]
    eol = b"\r\n" if (not valid_only and rng.random() < 0.05) else b"\n"
    txt = eol.join(lines)
    if lines and rng.random() < 0.8:
        txt += eol
    return txt


# ------------------------------------------------------------------------------------------------ model of a sort run
def model_sort(env, jobs, mode):
    """jobs: list of (init_paths, sortfile bytes).  Returns list of result lines of `sort <mode>`; fnmatch answers
    come from libc via the harness."""
    dec_lines, owner = [], []
    for j, (paths, sf, *_) in enumerate(jobs):
        raws = sf.split(b"\n")
        for k, raw in enumerate(raws):
            dec_lines.append("decode %s %s" % (mode, hx(raw)))
            owner.append((j, k))
    dec = env.run_model(dec_lines) if dec_lines else []
    per = [[] for _ in jobs]
    for (j, k), d in zip(owner, dec):
        per[j].append(d)
    fn_lines, fn_owner = [], []
    for j, (paths, sf, *_) in enumerate(jobs):
        if any(d.startswith("err") for d in per[j]):
            continue
        for k, d in enumerate(per[j]):
            w = d.split()
            if w[0] == "ok" and w[3] != "0":
                for p in paths:
                    fn_lines.append("fnmatch %d %s %s" % (1 if w[3] == "2" else 0, w[4], hx(p)))
                    fn_owner.append(j)
    fn = env.run_harness(fn_lines) if fn_lines else []
    bits = ["" for _ in jobs]
    for j, b in zip(fn_owner, fn):
        bits[j] += b
    lines = []
    for j, (paths, sf, *tree) in enumerate(jobs):
        raws = sf.split(b"\n")
        # `sort` = the list-level model sortFiles, `sorttree` = fstreeSortFiles on a whole fstree_t (C17SortTree.lean)
        lines.append("%s %s %d %s %d %s %s" % ("sorttree" if tree and tree[0] else "sort", mode, len(paths),
                                               " ".join(hx(p) for p in paths), len(raws),
                                               " ".join(hx(r) for r in raws), bits[j] or "-"))
    return env.run_model(lines), per, bits


def parse_sorted(line):
    """'ok p:prio:flags ...' -> list of (path, prio, flags) or ('err', kind)"""
    w = line.split()
    if not w or w[0] != "ok":
        return None
    out = []
    for t in w[1:]:
        a, b, c = t.split(":")
        out.append((unhx(a), int(b), int(c)))
    return out


def sort_clause_failures(init, res, decoded, bits):
    """the theorem statements of part 1 evaluated on the implementation's answer (res = list of (path, prio, flags))"""
    bad = []
    if sorted(p for p, _, _ in res) != sorted(init):
        bad.append("sort_perm")
        return bad
    if any(res[i][1] > res[i + 1][1] for i in range(len(res) - 1)):
        bad.append("sort_sorted")
    pos = {p: i for i, p in enumerate(init)}
    for i in range(len(res) - 1):
        if res[i][1] == res[i + 1][1] and pos[res[i][0]] > pos[res[i + 1][0]]:
            bad.append("sort_stable")
            break
    # first match wins, with the decoded lines and libc's fnmatch answers
    want, bi = {}, 0
    for d in decoded:
        w = d.split()
        if w[0] != "ok":
            continue
        prio, fl, g, pat = int(w[1]), int(w[2]), w[3], unhx(w[4])
        for k, p in enumerate(init):
            hit = (bits[bi + k] == "1") if g != "0" else (p == pat)
            if hit and p not in want:
                want[p] = (prio, fl)
        if g != "0":
            bi += len(init)
    for p, prio, fl in res:
        if (prio, fl) != want.get(p, (0, 0)):
            bad.append("first_match_wins")
            break
    return bad


# ------------------------------------------------------------------------------------------------ part A
def s32(x):
    return ((x + (1 << 31)) & 0xFFFFFFFF) - (1 << 31)


def harness_sort_line(paths, sf, extras):
    if not extras:
        return "sort %d %s %s" % (len(paths), " ".join(hx(x) for x in paths), hx(sf))
    ents = [("f", x, None) for x in paths] + list(extras)
    toks = ["%s:%s%s" % (k, hx(x), "" if e is None else ":" + hx(e)) for k, x, e in ents]
    return "sortx %d %s %s" % (len(ents), " ".join(toks), hx(sf))


def split_sort_answer(line):
    """'init … ; ok|err … ; frame ok|changed' -> (init paths, result, frame)"""
    parts = line.split(" ; ")
    if len(parts) != 3 or not parts[0].startswith("init") or not parts[2].startswith("frame "):
        raise vlib.CheckFailure("harness answered a sort line with %r" % line[:300])
    return [unhx(t) for t in parts[0].split()[1:]], parts[1], parts[2].split()[1]


def part_a(ctx, env, cases):
    """cases: list of (paths, sortfile, extras).  Returns stats; reports violations."""
    hl = [harness_sort_line(p, sf, ex) for p, sf, ex in cases]
    try:
        real = env.run_harness(hl)
    except HarnessCrash as e:
        ctx.violation("crash:" + vlib.sha(e.line)[:12], "fstree_sort_files harness aborted (rc=%s): %s" % (e.rc, san_summary(e.err)),
                      {"kind": "sort", "harness_line": e.line, "stderr": e.err})
        return {"sort_cases": 0}
    if len(real) != len(cases):
        raise vlib.CheckFailure("sort harness: %d answers for %d cases" % (len(real), len(cases)))
    jobs, rres = [], []
    nframe = 0
    for j, ((paths, sf, extras), line) in enumerate(zip(cases, real)):
        if line == "bad-op":
            raise vlib.CheckFailure("sort harness did not understand: %s" % hl[j][:300])
        init, res_s, frame = split_sort_answer(line)
        if sorted(init) != sorted(paths):
            raise vlib.CheckFailure("fs->files of the harness tree is not the generated file list: %s" % hl[j][:300])
        jobs.append((init, sf, bool(extras)))
        rres.append(res_s)
        if frame != "ok":      # directives_preserve_tree evaluated on the real function: it wrote a field it must not touch
            nframe += 1
            if nframe <= 3:
                ctx.violation("frame:" + vlib.sha(hl[j])[:12], "fstree_sort_files changed the tree beyond fs->files order, "
                              "data.file.priority/flags and FLAG_FILE_ALREADY_MATCHED (names, modes, owners, inode numbers, "
                              "targets, fs->inodes or the set of files differ before/after)", {"kind": "sort", "harness_line": hl[j], "impl": line})
    mfix, per, bits = model_sort(env, jobs, "fix")
    mcur = None
    stats = {"sort_cases": len(cases), "sort_ok": 0, "sort_err": 0, "err_kinds": {}, "quoted_cur_diff": 0, "nontrivial": 0,
             "typed_trees": sum(1 for c in cases if c[2]), "frame_changed": nframe, "wide_priority_pairs": 0}
    nbad = 0
    if not (len(mfix) == len(jobs) == len(rres) == len(per) == len(bits)):
        raise vlib.CheckFailure("part A: streams of unequal length")
    for j, ((init, sf, _tree), rr) in enumerate(zip(jobs, rres)):
        mf = mfix[j]
        r_ok = rr.startswith("ok")
        same = (rr == mf) if r_ok else (mf.startswith("err") and rr.split()[1] == mf.split()[1])
        if r_ok:
            stats["sort_ok"] += 1
            res = parse_sorted(rr)
            if [p for p, _, _ in res] != init or any(x[1] or x[2] for x in res):
                stats["nontrivial"] += 1
                _distinct.add(vlib.sha(hl[j])[:16])
            pr = sorted({x[1] for x in res})
            if any(s32(a) >= s32(b) for a, b in zip(pr, pr[1:])):
                stats["wide_priority_pairs"] += 1        # a 32 bit comparison would order these two differently
        else:
            stats["sort_err"] += 1
            k = rr.split()[1]
            stats["err_kinds"][k] = stats["err_kinds"].get(k, 0) + 1
        if same:
            if r_ok:
                bad = sort_clause_failures(init, parse_sorted(rr), per[j], bits[j])
                if bad:       # cannot happen while the theorems hold and model = code
                    nbad += 1
                    ctx.violation("sort-clause:" + vlib.sha(hl[j])[:12], "fstree_sort_files violates %s" % bad,
                                  {"harness_line": hl[j], "impl": rr, "model": mf, "clauses": bad})
            continue
        # disagreement: does the model of the *pinned* decoder (unterminated quoted name, D26) predict it?
        if mcur is None:
            mcur, _, _ = model_sort(env, jobs, "cur")
        mc = mcur[j]
        same_cur = (rr == mc) if r_ok else (mc.startswith("err") and rr.split()[1] == mc.split()[1])
        replay = {"kind": "sort", "harness_line": hl[j], "impl": rr, "model": mf, "model_pinned_decoder": mc}
        if same_cur and b'"' in sf:
            stats["quoted_cur_diff"] += 1
            report_once(ctx, KEY_D26, "sort file: a quoted file name is not NUL-terminated after unescaping (decode_filename), "
                          "so the line does not select the named file: impl=%s spec=%s" % (rr[:200], mf[:200]), replay)
            continue
        nbad += 1
        if nbad <= 5:
            bad = sort_clause_failures(init, parse_sorted(rr), per[j], bits[j]) if r_ok and not mf.startswith("err") else []
            if bad or (r_ok != mf.startswith("ok")):
                ctx.violation("sort:" + vlib.sha(hl[j])[:12], "fstree_sort_files: %s; impl=%s model=%s" % (
                    ("violates " + str(bad)) if bad else "accepts/rejects a sort file differently from the documented format",
                    rr[:300], mf[:300]), replay)
            else:
                ctx.violation("sort-corr:" + vlib.sha(hl[j])[:12], "sort-file correspondence broke: impl=%s model=%s" % (rr[:300], mf[:300]),
                              replay, found_input=False)
    stats["disagreements"] = nbad
    return stats


# ------------------------------------------------------------------------------------------------ part A2: which files a glob line selects
def ref_glob(pat, s, pathname):
    """The documented matching (gensquashfs(1), SORT FILE FORMAT: "shell glob pattern"; `glob`: a wild card or a bracket
    range cannot match a path separator; `glob_no_path`: they can), written out independently of libc: `*`, `?`,
    `[set]` / `[!set]` / `[^set]` with ranges, backslash quotes the next character; nothing special about a leading
    period, case sensitive, the whole path must match.  Only used for patterns of PATTERN_SETS' grammar (no classes, no
    '/' inside brackets, no trailing backslash)."""
    toks, i = [], 0
    while i < len(pat):
        c = pat[i]
        if c == 0x5C and i + 1 < len(pat):
            toks.append(("lit", pat[i + 1]))
            i += 2
        elif c == 0x2A:
            toks.append(("star",))
            i += 1
        elif c == 0x3F:
            toks.append(("any",))
            i += 1
        elif c == 0x5B:
            j, neg = i + 1, False
            if pat[j:j + 1] in (b"!", b"^"):
                neg, j = True, j + 1
            items, first = [], True
            while j < len(pat) and (first or pat[j] != 0x5D):
                first = False
                if pat[j + 1:j + 2] == b"-" and j + 2 < len(pat) and pat[j + 2] != 0x5D:
                    items.append((pat[j], pat[j + 2]))
                    j += 3
                else:
                    items.append((pat[j], pat[j]))
                    j += 1
            if j >= len(pat):                      # no closing bracket: '[' stands for itself
                toks.append(("lit", 0x5B))
                i += 1
            else:
                toks.append(("set", neg, items))
                i = j + 1
        else:
            toks.append(("lit", c))
            i += 1
    memo = {}

    def m(ti, si):
        k = (ti, si)
        if k not in memo:
            memo[k] = m1(ti, si)
        return memo[k]

    def m1(ti, si):
        if ti == len(toks):
            return si == len(s)
        t = toks[ti]
        if t[0] == "star":
            k = si
            while True:
                if m(ti + 1, k):
                    return True
                if k >= len(s) or (pathname and s[k] == 0x2F):
                    return False
                k += 1
        if si >= len(s):
            return False
        ch = s[si]
        if t[0] == "lit":
            return ch == t[1] and m(ti + 1, si + 1)
        if pathname and ch == 0x2F:
            return False
        if t[0] == "any":
            return m(ti + 1, si + 1)
        return (any(a <= ch <= b for a, b in t[2]) != t[1]) and m(ti + 1, si + 1)

    return m(0, 0)


# one tree for the fixed table; every path is a regular file
MATCH_TREE = [b".hidden", b"h/.b/c", b"h/.x", b"h/y", b"bin/a", b"bin/sub/x", b"Mk1", b"mk1", b"LIB.so", b"lib.so", b"*star",
              b"README", b".git/config", b"Bin/a", b"x/.b/.c"]
# (glob kind: 2 = `glob` (FNM_PATHNAME), 1 = `glob_no_path` (0); pattern; path; selected?) — written by hand from the man page,
# each row names the fnmatch flag whose presence (or, for FNM_PATHNAME, absence) would flip it
MATCH_TABLE = [
    (2, b"*", b".hidden", 1), (1, b"*", b".hidden", 1), (2, b".*", b".hidden", 1), (2, b".*", b"mk1", 0),          # FNM_PERIOD
    (2, b"?hidden", b".hidden", 1), (2, b"[.]hidden", b".hidden", 1), (2, b"[!a]hidden", b".hidden", 1),              # FNM_PERIOD
    (2, b"h/*", b"h/.x", 1), (2, b"h/*", b"h/y", 1), (2, b"h/*/c", b"h/.b/c", 1), (2, b"*/?b/c", b"h/.b/c", 1),       # FNM_PERIOD|PATHNAME
    (2, b"*/*/*", b"x/.b/.c", 1), (1, b"h*c", b"h/.b/c", 1), (1, b"*", b"x/.b/.c", 1), (1, b"x/*", b"x/.b/.c", 1),
    (2, b"*", b"bin/a", 0), (1, b"*", b"bin/a", 1), (2, b"h*c", b"h/.b/c", 0), (2, b"bin/*", b"bin/sub/x", 0),      # FNM_PATHNAME
    (1, b"bin/*", b"bin/sub/x", 1), (2, b"bin?a", b"bin/a", 0), (1, b"bin?a", b"bin/a", 1), (2, b"bin[!x]a", b"bin/a", 0),
    (1, b"bin[!x]a", b"bin/a", 1),
    (2, b"mk1", b"Mk1", 0), (2, b"MK1", b"mk1", 0), (2, b"mk1", b"mk1", 1), (2, b"[a-z]*", b"Mk1", 0), (2, b"[A-Z]*", b"Mk1", 1),  # FNM_CASEFOLD
    (2, b"[A-Z]*", b"mk1", 0), (2, b"lib.so", b"LIB.so", 0), (2, b"*.so", b"LIB.so", 1), (2, b"*.SO", b"lib.so", 0),
    (1, b"bin/A", b"bin/a", 0), (2, b"readme", b"README", 0), (2, b"bin/*", b"Bin/a", 0), (2, b"Bin/*", b"Bin/a", 1),
    (2, b"[!.]*", b".hidden", 0), (2, b"[!.]*", b"mk1", 1), (2, b"[^.]*", b"README", 1),
    (2, b"\\*star", b"*star", 1), (2, b"\\*", b"mk1", 0), (2, b"\\m\\k1", b"mk1", 1), (2, b"[*]star", b"*star", 1),   # FNM_NOESCAPE
    (2, b"bin", b"bin/a", 0), (1, b"bin", b"bin/a", 0), (2, b"h", b"h/y", 0), (2, b"bin/sub", b"bin/sub/x", 0),         # FNM_LEADING_DIR
    (2, b"", b"mk1", 0), (2, b"*1", b"mk1", 1), (2, b"*1", b"Mk1", 1), (2, b"m*", b"mk1", 1), (2, b"m", b"mk1", 0),
]
PATTERN_SETS = [b"[abc]", b"[a-z]", b"[A-Z]", b"[!.]", b"[.]", b"[!a-z]", b"[0-9]", b"[.a]", b"[^A-Z]", b"[a-zA-Z]", b"[!x]", b"[.-z]"]
PATTERN_LIT = b"abchklmsxyAKLMRS1.-_"


def gen_pattern(rng, paths):
    """a pattern of the reference grammar; mostly derived from one of the paths so that it matches something"""
    if rng.random() < 0.75:
        p = rng.choice(paths)
        if any(c in b'*?[]\\"' or c > 126 or c < 33 for c in p):
            p = b"h/.b/c"
        out, i = b"", 0
        while i < len(p):
            c = p[i:i + 1]
            r = rng.random()
            if r < 0.12:
                out += b"?"
            elif r < 0.20:
                out += rng.choice(PATTERN_SETS)
            elif r < 0.32:
                out += b"*"
                i += rng.randint(0, 4)
            elif r < 0.38 and c.isalpha():
                out += c.swapcase()
            elif r < 0.42 and c != b"/":      # (glibc does not let `*\\/` match a slash under FNM_PATHNAME: outside the grammar)
                out += b"\\" + c
            else:
                out += c
            i += 1
        if rng.random() < 0.1:
            out = out.rstrip(b"/") or b"*"
        return out.lstrip(b"/") or b"*"
    n = rng.randint(1, 6)
    out = b""
    for _ in range(n):
        r = rng.random()
        out += (b"*" if r < 0.3 else b"?" if r < 0.4 else rng.choice(PATTERN_SETS) if r < 0.55 else b"/" if r < 0.65
                else b"." if r < 0.75 else bytes([rng.choice(PATTERN_LIT)]))
    return out.strip(b"/") or b"*"


def part_a_match(ctx, env, quick):
    """Which files does a `glob` / `glob_no_path` line select?  The real fstree_sort_files (one-line sort file
    `1 [glob] "pattern"`, priority 1 = selected) against (a) the hand-written table, (b) libc's fnmatch called with the
    documented flag word — FNM_PATHNAME for glob, 0 for glob_no_path, nothing else — (c) the reference matcher above."""
    rng = ctx.rng
    cases = []          # (paths, kind, pattern as written in the sort file, use reference matcher)
    for g, pat in sorted({(g, pat) for g, pat, _, _ in MATCH_TABLE}):
        cases.append((MATCH_TREE, g, pat, True))
    for pat in GLOBS_A:
        for g in (1, 2):
            cases.append((MATCH_TREE, g, pat, False))
    for _ in range(400 if quick else 4000):
        paths = gen_paths_a(rng, 10)
        cases.append((paths, rng.choice([1, 2]), gen_pattern(rng, paths), True))
    jobs_sf = [b"1 [%s] %s\n" % (b"glob" if g == 2 else b"glob_no_path", quote_name(pat)) for _, g, pat, _ in cases]
    hl = [harness_sort_line(paths, sf, []) for (paths, _, _, _), sf in zip(cases, jobs_sf)]
    try:
        real = env.run_harness(hl)
    except HarnessCrash as e:
        ctx.violation("crash:" + vlib.sha(e.line)[:12], "fstree_sort_files harness aborted (rc=%s): %s" % (e.rc, san_summary(e.err)),
                      {"kind": "sort", "harness_line": e.line, "stderr": e.err})
        return {"match_cases": 0}
    jobs = []
    for (paths, g, pat, _), line, h in zip(cases, real, hl):
        if line == "bad-op":
            raise vlib.CheckFailure("sort harness did not understand: %s" % h[:300])
        init, rr, _frame = split_sort_answer(line)
        jobs.append((init, rr))
    _m, per, bits = model_sort(env, [(init, sf, False) for (init, _), sf in zip(jobs, jobs_sf)], "fix")
    stats = {"match_cases": len(cases), "pairs": 0, "selected": 0, "table_rows": 0, "hidden_selected_by_wildcard": 0,
             "case_only_differs": 0, "ref_pairs": 0, "bad": 0}
    table = {}
    for g, pat, path, want in MATCH_TABLE:
        table.setdefault((g, pat), {})[path] = want
    for j, ((paths, g, pat, use_ref), (init, rr), h) in enumerate(zip(cases, jobs, hl)):
        res = parse_sorted(rr)
        if res is None and rr.startswith("err") and any(d.startswith("err") and d.split()[1] == rr.split()[1] for d in per[j]):
            stats["rejected"] = stats.get("rejected", 0) + 1      # e.g. a `..` component in the pattern: both refuse the line
            continue
        dec = [d.split() for d in per[j] if d.startswith("ok")]
        if res is None or len(dec) != 1 or dec[0][3] != str(g) or len(bits[j]) != len(init):
            raise vlib.CheckFailure("part A2: line not accepted as one glob line: %r -> impl %s model %s" % (jobs_sf[j], rr[:200], per[j]))
        cpat = unhx(dec[0][4])                                     # the pattern after decode_filename (canonicalize_name)
        got = {p: (1 if prio == 1 else 0) for p, prio, _ in res}
        problems = []
        for k, p in enumerate(init):
            stats["pairs"] += 1
            stats["selected"] += got[p]
            libc = int(bits[j][k])
            if got[p] != libc:
                problems.append("%r: selected=%d, fnmatch(pattern, path, %s)==0 is %d" % (p, got[p], "FNM_PATHNAME" if g == 2 else "0", libc))
            if use_ref:
                stats["ref_pairs"] += 1
                want = 1 if ref_glob(cpat, p, g == 2) else 0
                if got[p] != want:
                    problems.append("%r: selected=%d, documented glob semantics say %d" % (p, got[p], want))
                if want and any(c.startswith(b".") for c in p.split(b"/")) and ref_glob(cpat, p.replace(b".", b"x"), g == 2):
                    stats["hidden_selected_by_wildcard"] += 1      # (approximate: the period was matched by a wild card or set)
                if not want and ref_glob(cpat.lower(), p.lower(), g == 2):
                    stats["case_only_differs"] += 1
            if (g, pat) in table and p in table[(g, pat)] and paths is MATCH_TREE:
                stats["table_rows"] += 1
                if got[p] != table[(g, pat)][p]:
                    problems.append("%r: selected=%d, table says %d" % (p, got[p], table[(g, pat)][p]))
        if problems:
            stats["bad"] += 1
            if stats["bad"] <= 3:
                ctx.violation("glob-match:" + vlib.sha(h)[:12], "a [%s] line selects other files than the documented shell-glob matching "
                              "(fnmatch with flag word %s only; no FNM_PERIOD/FNM_CASEFOLD/FNM_NOESCAPE/FNM_LEADING_DIR): pattern %r: %s" % (
                                  "glob" if g == 2 else "glob_no_path", "FNM_PATHNAME" if g == 2 else "0", cpat, "; ".join(problems)[:800]),
                              {"kind": "sort", "harness_line": h, "impl": rr, "pattern": cpat.decode("latin1"), "glob_kind": g})
    return stats


# ------------------------------------------------------------------------------------------------ part C: export table alone
NOREF = 0xFFFFFFFFFFFFFFFF


def ideal_table(pairs):
    """what the export table must be after these (inum, iref) calls — written down independently of model and code"""
    t = []
    for inum, iref in pairs:
        if inum > len(t):
            t += [NOREF] * (inum - len(t))
        t[inum - 1] = iref
    return t


def gen_export_case(rng, idx, quick):
    band = rng.choice(["small", "small", "512", "513+", "1024", "1025+", "2049+", "big"])
    N = {"small": rng.randint(1, 40), "512": rng.randint(505, 512), "513+": rng.randint(513, 640), "1024": rng.randint(1017, 1024),
         "1025+": rng.randint(1025, 1300), "2049+": rng.randint(2049, 2200),
         "big": rng.randint(2500, 4200 if quick else 9000)}[band]
    nums = list(range(1, N))                       # the root gets N, as alloc_inode_num_dfs numbers it
    order = rng.choice(["asc", "asc", "perm", "desc", "first-big", "gaps", "repeats"])
    if order == "perm":
        rng.shuffle(nums)
    elif order == "desc":
        nums.reverse()
    elif order == "first-big":                     # the first call jumps far beyond the initial 512 cells
        nums = nums[-1:] + nums[:-1]
    elif order == "gaps":                          # numbers that are never added stay 0xFF..FF
        nums = [n for n in nums if rng.random() < 0.8]
    elif order == "repeats":                       # hard-link entries repeat a number (with the same reference)
        nums = nums + [rng.choice(nums) for _ in range(min(len(nums), rng.randint(1, 30)))] if nums else nums
        rng.shuffle(nums)
    refs = {}
    pairs = [(n, refs.setdefault(n, rng.getrandbits(48))) for n in nums]
    root = (N, rng.getrandbits(48)) if rng.random() < 0.9 else (rng.randint(1, N + 600), rng.getrandbits(48))
    if rng.random() < 0.04:                        # rejected: inode number 0
        if pairs and rng.random() < 0.5:
            k = rng.randrange(len(pairs))
            pairs[k] = (0, pairs[k][1])
        else:
            root = (0, root[1])
    return {"id": idx, "pairs": pairs + [root], "off": rng.choice([0, 96, rng.randrange(1 << 22)]),
            "comp": rng.choice(["raw", "gzip", "gzip", "zstd", "lz4", "xz"]), "order": order, "band": band}


def export_lines(c):
    return "exptbl %d %d %s" % (c["off"], len(c["pairs"]), " ".join("%d %d" % pr for pr in c["pairs"]))


def part_c(ctx, env, cases):
    """the real dir writer's export table (array growth, fill, sqfs_write_table) vs the model, byte for byte"""
    stats = {"export_cases": len(cases), "ok": 0, "rejected": 0, "inodes_ge_513": 0, "inodes_ge_1025": 0, "inodes_ge_2049": 0,
             "max_entries": 0, "blocks": 0, "compressed_blocks": 0, "disagreements": 0}
    # 1. compressor answers for the 8 KiB chunks of the expected table (oracle for the model's codec parameter)
    hl, where = [], []
    for c in cases:
        valid = all(n >= 1 for n, _ in c["pairs"])
        tbl = ideal_table(c["pairs"]) if valid else []
        c["ideal"] = struct.pack("<%dQ" % len(tbl), *tbl)
        c["chunks"] = [c["ideal"][i:i + 8192] for i in range(0, len(c["ideal"]), 8192)]
        hl.append("cinit %s 8192" % c["comp"])
        where.append(None)
        if c["comp"] != "raw":
            for ch in c["chunks"]:
                hl.append("cmp " + hx(ch))
                where.append((c, ch))
        hl.append(export_lines(c))
        where.append(c)
    try:
        out = env.run_harness(hl)
    except HarnessCrash as e:
        # the harness answers line by line, so the first unanswered line is the one that crashed
        culprit = next((c for c in cases if export_lines(c) == e.line), None)
        replay = {"kind": "export", "harness_line": e.line[:2000], "stderr": e.err}
        if culprit is not None:
            replay["case"] = {k: culprit[k] for k in ("id", "pairs", "off", "comp", "order", "band")}
        ctx.violation("export-crash:" + vlib.sha(e.line)[:12], "the dir writer's export table code aborted (rc=%s) on %s… (%s): %s" % (
            e.rc, e.line[:60], "%d calls, %s order" % (len(culprit["pairs"]), culprit["order"]) if culprit else "not an exptbl line",
            san_summary(e.err)), replay)
        return stats
    for c in cases:
        c["table"] = {}
    for w, o in zip(where, out):
        if w is None:
            if o != "ok":
                raise vlib.CheckFailure("harness cinit failed: %s" % o)
        elif isinstance(w, tuple):
            if o == "err" or o == "bad-op":
                raise vlib.CheckFailure("harness cmp failed")
            if o != "-":
                w[0]["table"][w[1]] = unhx(o)
        else:
            w["real"] = o
    # 2. the model on the same calls
    ml, mwhere = [], []
    for c in cases:
        ml.append("pack-begin 8192 0")
        mwhere.append(None)
        for k, v in c["table"].items():
            ml.append("cmp %s %s" % (hx(k), hx(v)))
            mwhere.append(None)
        ml.append(export_lines(c))
        mwhere.append(c)
    mo = env.run_model(ml)
    for w, o in zip(mwhere, mo):
        if w is not None:
            w["model"] = o
    # 3. compare; independently decode the real bytes against the ideal table
    for c in cases:
        real, model = c.get("real"), c.get("model")
        if real is None or model is None:
            raise vlib.CheckFailure("export case without an answer")
        n_entries = len(c["ideal"]) // 8
        stats["max_entries"] = max(stats["max_entries"], n_entries)
        why = None
        if real.startswith("ok"):
            stats["ok"] += 1
            for lim in (513, 1025, 2049):
                if n_entries >= lim:
                    stats["inodes_ge_%d" % lim] += 1
            _, start, body = real.split()
            why = export_decode_problem(c, int(start), unhx(body), stats)
            _distinct.add("export:%d" % c["id"])
        elif real.startswith("err"):
            stats["rejected"] += 1
            if all(n >= 1 for n, _ in c["pairs"]):
                why = "valid calls refused: %s" % real
        else:
            raise vlib.CheckFailure("export harness answered %r" % real[:200])
        if real != model or why:
            stats["disagreements"] += 1
            if stats["disagreements"] <= 4:
                replay = {"kind": "export", "case": {k: c[k] for k in ("id", "pairs", "off", "comp", "order", "band")},
                          "impl": real[:400], "model": model[:400]}
                if why:        # the specification (export_table_ok read on the bytes) is violated by the implementation
                    ctx.violation("export:" + vlib.sha(export_lines(c))[:12], "export table written by dir_writer.c is wrong (%d entries, "
                                  "%s order, %s): %s" % (n_entries, c["order"], c["comp"], why), replay)
                else:
                    ctx.violation("export-corr:" + vlib.sha(export_lines(c))[:12], "export table: dir_writer.c and the model disagree "
                                  "although the table decodes correctly: impl=%s… model=%s…" % (real[:80], model[:80]), replay, found_input=False)
    return stats


def export_decode_problem(c, start, body, stats):
    """export_table_ok / export_table_written read on the bytes the real code produced; None = fine"""
    rev = {v: k for k, v in c["table"].items()}
    pos, raw, locs = 0, b"", []
    nblk = (len(c["ideal"]) + 8191) // 8192
    for _ in range(nblk):
        if pos + 2 > len(body):
            return "file ends inside the metadata blocks"
        (hdr,) = struct.unpack_from("<H", body, pos)
        n = hdr & 0x7FFF
        stored = body[pos + 2:pos + 2 + n]
        if len(stored) != n:
            return "metadata block runs past the end"
        locs.append(c["off"] + pos)
        stats["blocks"] += 1
        if hdr & 0x8000:
            raw += stored
        else:
            stats["compressed_blocks"] += 1
            if stored not in rev:
                return "a compressed metadata block is not what the compressor makes of the table bytes"
            raw += rev[stored]
        pos += 2 + n
    if raw != c["ideal"]:
        k = next((i for i in range(0, min(len(raw), len(c["ideal"])), 8) if raw[i:i + 8] != c["ideal"][i:i + 8]), None)
        return "table contents differ (first wrong entry: %s; %d bytes for %d expected)" % (
            None if k is None else k // 8, len(raw), len(c["ideal"]))
    if start != c["off"] + pos:
        return "export_table_start %d, location list at %d" % (start, c["off"] + pos)
    if body[pos:] != struct.pack("<%dQ" % nblk, *locs):
        return "location list wrong"
    return None


# ------------------------------------------------------------------------------------------------ part B: pack cases
def gen_content(rng, B, prev):
    """bytes of one file; `prev` = contents generated so far (for duplicates / shared parts)"""
    size = rng.choice([0, 1, 2, 100, B - 1, B, B + 1, 2 * B, 2 * B + 17, 3 * B, rng.randint(1, 300), rng.randint(1, 3 * B),
                       B // 2, B // 2 + 1, B - 100])
    if B <= 8192 and rng.random() < 0.04:                         # a file of many blocks
        size = rng.choice([17 * B, 40 * B + 5, rng.randint(8 * B, 64 * B)])
    kind = rng.random()

    def rnd(n):
        return rng.randbytes(n)

    def text(n):
        w = rng.choice([b"hello world ", b"abc", b"squashfs-tools-ng ", b"0123456789abcdef"])
        off = rng.randint(0, len(w) - 1)
        return ((w * (n // len(w) + 2))[off:off + n])

    if prev and kind < 0.12:
        return rng.choice(prev)                                   # exact duplicate
    if prev and kind < 0.22:                                      # shared tail, different head
        p = rng.choice(prev)
        r = len(p) % B
        if r:
            k = rng.randint(0, 2)
            return rnd(k * B) + p[len(p) - r:]
    if prev and kind < 0.30:                                      # shared leading blocks, different tail
        p = rng.choice(prev)
        k = len(p) // B
        if k:
            return p[:k * B] + text(rng.choice([0, 7, 200]))
    if kind < 0.40:
        return bytes(size)                                        # all zero
    if kind < 0.50:                                               # zero tail / zero blocks inside
        k, r = divmod(size, B)
        parts = [rng.choice([bytes(B), text(B), rnd(B)]) for _ in range(k)]
        return b"".join(parts) + (bytes(r) if rng.random() < 0.6 else text(r))
    if kind < 0.75:
        return text(size)
    return rnd(size)


COMPS = ["gzip", "xz", "lz4", "zstd"]


def gen_pack_case(rng, idx, quick, flavour="gensquashfs"):
    # block sizes: mostly small (many blocks per file for little data); the large ones with few files
    B = rng.choice([4096] * 5 + [8192] * 2 + [16384, 65536, 131072] + ([262144, 1048576] if not quick else []))
    paths = gen_paths(rng, 9 if B <= 16384 else 4) if rng.random() < 0.9 or B > 16384 else gen_paths(rng, 30)
    contents, prev = [], []
    for _ in paths:
        c = gen_content(rng, B, prev)
        contents.append(c)
        prev.append(c)
    case = {"id": idx, "B": B, "paths": paths, "contents": contents, "comp": rng.choice(COMPS), "tool": flavour,
            "notail": rng.random() < 0.35, "export": rng.random() < 0.4, "devblk": rng.choice([4096, 4096, 1024, 8192]),
            "jobs": 1 if rng.random() < 0.55 else rng.choice([2, 3, 4])}
    case["backlog"] = None if rng.random() < 0.7 else rng.choice([1, 3, 4, 7])
    case["optseed"] = rng.randrange(1 << 30)
    if rng.random() < 0.3:
        # --no-tail-packing boundary: the limit is the *configured* block size whatever the default (128 KiB) is and
        # wherever -T stands on the command line: one file with a size between the two, block size below or above
        DEF = 131072
        B = rng.choice([4096, 8192, 16384, 65536, 262144, 262144] if quick else [4096, 8192, 32768, 65536, 262144, 524288, 1048576])
        lo, hi = min(B, DEF), max(B, DEF)
        n = rng.choice([lo + 1, hi, hi - 1, rng.randint(lo + 1, hi), rng.randint(lo + 1, hi)])
        if n % B == 0:
            n -= 1
        keep = min(rng.randint(1, 3), len(paths))
        paths, contents = paths[:keep], [gen_content(rng, 4096, []) for _ in range(keep)]
        word = rng.choice([b"tail packing limit ", b"0123456789"])
        body = (word * (n // len(word) + 1))[:n] if rng.random() < 0.7 else rng.randbytes(n)
        contents[rng.randrange(keep)] = body
        case.update({"B": B, "paths": paths, "contents": contents, "notail": rng.random() < 0.9, "limit_case": True})
    if flavour in ("gensquashfs", "packdir") and rng.random() < 0.85:
        case["sortfile"] = gen_sortfile(rng, paths, valid_only=True)
    else:
        case["sortfile"] = None
    # targeted: a later twin of an earlier file carries a directive (the situations the directives exist for)
    plain = [i for i, p in enumerate(paths) if plain_ok(p) and b'"' not in p]
    if flavour in ("gensquashfs", "packdir") and len(plain) >= 2 and rng.random() < 0.55:
        i, j = rng.sample(plain, 2)
        kind = rng.random()
        base = contents[i] if (len(contents[i]) and rng.random() < 0.6) else gen_content(rng, B, [])
        if not base:
            base = b"twin content " * rng.choice([3, 400, 1000])
        contents[i] = base
        if kind < 0.6:
            contents[j] = base                                           # identical
        elif kind < 0.8 and len(base) % B:
            contents[j] = rng.randbytes(B * rng.randint(0, 2)) + base[len(base) - len(base) % B:]   # same tail
        else:
            contents[j] = base[:(len(base) // B) * B] + b"other tail"    # same blocks
        fl = rng.choice([F_DD, F_DD, F_DC, F_NS, F_DF, F_DD | F_DC, F_DD | F_NS, F_DC | F_DF, rng.randint(0, 31) & 29])
        fi = rng.choice([0, 0, 0, F_DC, F_NS, F_DD])
        first, second = (i, j) if rng.random() < 0.8 else (j, i)
        head = b"2 " + (gen_flags_token(rng, fi) + b" " if fi else b"") + paths[first] + b"\n" \
            + b"3 " + (gen_flags_token(rng, fl) + b" " if fl else b"") + paths[second] + b"\n"
        case["sortfile"] = head + (case["sortfile"] or b"")
    gen_other_nodes(rng, case)
    # pack the same tree once more without sort file and -T and compare what a reader sees of the tree
    case["twin"] = bool(case.get("sortfile") or case["notail"]) and rng.random() < 0.25
    return case


def gen_other_nodes(rng, case):
    """nodes that are not plain `file` entries: other inode types, files that come from a `glob` line of the pack file,
    hard links to regular files (scanned directory, tar) — and sort-file lines that name them"""
    paths = case["paths"]
    used = set(paths)
    for p in paths:
        parts = p.split(b"/")
        for k in range(1, len(parts)):
            used.add(b"/".join(parts[:k]))
    if case.get("limit_case") or rng.random() < 0.55:
        return
    others = []                                                     # (kind, path, extra)

    def fresh(stem):
        for _ in range(20):
            d = rng.choice([b"", b"", b"bin", b"lib", b"opt"])
            p = (d + b"/" if d else b"") + stem + str(rng.randint(0, 99)).encode()
            if p not in used and not any(q.startswith(p + b"/") for q in used):
                used.add(p)
                return p
        return None

    kinds = {"gensquashfs": "dlcbps", "packdir": "dlp", "tar2sqfs": "dlcp"}[case["tool"]]
    for _ in range(rng.randint(1, 4)):
        k = rng.choice(kinds)
        p = fresh({"d": b"emptydir", "l": b"sym", "c": b"chr", "b": b"blk", "p": b"fifo", "s": b"sock"}[k])
        if p is not None:
            others.append((k, p, rng.choice([b"a", b"../up", b"/abs/olute", rng.choice(paths)]) if k == "l" else None))
    # hard links to regular files: the link sorts directly behind its target in the same directory, so that the
    # (name-sorted) scan meets the target first and makes the second name the link
    if case["tool"] in ("packdir", "tar2sqfs") and rng.random() < 0.6:
        for tgt in rng.sample(paths, min(len(paths), rng.randint(1, 2))):
            lp = tgt + b"\x01hl"
            if lp not in used:
                used.add(lp)
                others.append(("h", lp, tgt))
                # … and a directive of its own in the sort file: the flags of a file with several names must arrive too
                if case["tool"] == "packdir" and plain_ok(tgt) and b'"' not in tgt and rng.random() < 0.8:
                    fl = rng.choice([F_DC, F_NS, F_DF, F_DD, F_DC | F_NS])
                    case["sortfile"] = str(rng.choice([-6, 3, -2147483650])).encode() + b" " + gen_flags_token(rng, fl) + b" " + tgt + b"\n" \
                        + (case.get("sortfile") or b"")
    # files delivered by a `glob` line instead of `file` lines: the regular files directly inside one directory
    if case["tool"] == "gensquashfs" and rng.random() < 0.5:
        d = rng.choice([b"bin", b"lib"])
        idx = [i for i, p in enumerate(paths) if p.startswith(d + b"/") and b"/" not in p[len(d) + 1:]]
        if idx and not any(k == "d" and q == d for k, q, _ in others):
            case["glob_dir"] = d
            case["via_glob"] = idx
    case["others"] = others
    # sort-file lines that name the other nodes (never match: only regular files are on fs->files)
    if case.get("sortfile") is not None and others and rng.random() < 0.7:
        k, q, _ = rng.choice(others)
        if plain_ok(q) and b'"' not in q:
            line = str(rng.choice([-9, -1, 4, 2147483648, -4294967296])).encode() + b" " + q + b"\n"
            case["sortfile"] = line + case["sortfile"] if rng.random() < 0.5 else case["sortfile"] + (
                b"" if case["sortfile"].endswith(b"\n") or not case["sortfile"] else b"\n") + line


def gen_many_case(rng, idx, lo, hi):
    """an image with many inodes and -e: the export table beyond the initial 512 entries / beyond one 8 KiB block"""
    n = rng.randint(lo, hi)
    ndirs = rng.randint(1, 12)
    paths, contents = [], []
    pool = [b"", b"x", b"tiny", b"tiny", bytes(3), b"0123456789" * 5, rng.randbytes(24)]
    for i in range(n):
        paths.append(b"m%d/f%04d" % (rng.randrange(ndirs), i))
        contents.append(rng.choice(pool) if rng.random() < 0.8 else rng.randbytes(rng.randint(1, 60)))
    for k in rng.sample(range(n), 3):
        contents[k] = rng.randbytes(4096 * rng.randint(1, 3) + rng.randint(0, 50))
    case = {"id": idx, "B": 4096, "paths": paths, "contents": contents, "comp": rng.choice(["gzip", "zstd", "lz4"]),
            "tool": rng.choice(["gensquashfs", "gensquashfs", "tar2sqfs"]), "notail": rng.random() < 0.3, "export": True,
            "devblk": 4096, "jobs": rng.choice([1, 3]), "backlog": None, "optseed": rng.randrange(1 << 30), "many": True,
            "sample": sorted(rng.sample(range(n), 14))}
    case["sortfile"] = None
    if case["tool"] == "gensquashfs":
        a, b = rng.sample(paths, 2)
        case["sortfile"] = b"-3 [dont_deduplicate] " + a + b"\n7 [glob] m1/*\n-2147483649 " + b + b"\n"
    return case


def pack_entry_name(p):
    if any(c in p for c in b' "\\\t') or p[:1] in (b"#",):
        return b'"' + p.replace(b"\\", b"\\\\").replace(b'"', b'\\"') + b'"'
    return p


def build_image(env, case, d):
    """run the real packer; returns (rc, stderr, image path)"""
    d.mkdir(parents=True, exist_ok=True)
    img = d / "out.sqfs"
    extra = {}                                                     # input-selecting options, filled in per flavour below

    def cmdline(tool):
        """all options in a seeded random order, each in a randomly chosen spelling (short / long / long=value)"""
        import random
        r = random.Random(case.get("optseed", case["id"]))
        items = [("-b", "--block-size", case["B"]), ("-B", "--dev-block-size", case["devblk"]), ("-c", "--compressor", case["comp"]),
                 ("-j", "--num-jobs", case["jobs"]), ("-q", "--quiet", None), ("-f", "--force", None)]
        if case.get("backlog"):
            items.append(("-Q", "--queue-backlog", case["backlog"]))
        if case["notail"]:
            items.append(("-T", "--no-tail-packing", None))
        if case["export"]:
            items.append(("-e", "--exportable", None))
        items += [v for v in extra.values()]
        r.shuffle(items)
        out = [tool]
        for short, long, val in items:
            form = r.random()
            if val is None:
                out.append(short if form < 0.5 else long)
            elif form < 0.4:
                out += [short, val]
            elif form < 0.7:
                out += [long, val]
            else:
                out.append("%s=%s" % (long, val))
        case["cmdline"] = " ".join(str(x) for x in out[1:])
        return out

    if case["tool"] == "packdir":                                  # scan a directory instead of reading a pack file
        root = os.fsencode(str(d / "root"))
        for p, c in zip(case["paths"], case["contents"]):
            full = os.path.join(root, p)
            os.makedirs(os.path.dirname(full), exist_ok=True)
            with open(full, "wb") as f:
                f.write(c)
        for k, p, x in case.get("others", []):
            full = os.path.join(root, p)
            os.makedirs(os.path.dirname(full), exist_ok=True)
            if k == "d":
                os.makedirs(full, exist_ok=True)
            elif k == "l":
                os.symlink(x, full)
            elif k == "p":
                os.mkfifo(full)
            elif k == "h":
                os.link(os.path.join(root, x), full)
            else:
                raise vlib.CheckFailure("generator: node kind %r in a scanned directory" % k)
        extra["dir"] = ("-D", "--pack-dir", d / "root")
        if case["sortfile"] is not None:
            (d / "sort.txt").write_bytes(case["sortfile"])
            extra["sort"] = ("-S", "--sort-file", d / "sort.txt")
        r = env.tool(cmdline(env.gen) + [img])
        return r.returncode, r.stderr, img
    if case["tool"] == "gensquashfs":
        lines = []
        via_glob = set(case.get("via_glob", []))
        for i, (p, c) in enumerate(zip(case["paths"], case["contents"])):
            if i in via_glob:                                       # delivered by the glob line below
                gd = os.fsencode(str(d / "globsrc"))
                os.makedirs(gd, exist_ok=True)
                with open(os.path.join(gd, p.split(b"/")[-1]), "wb") as f:
                    f.write(c)
                continue
            (d / ("f%d.bin" % i)).write_bytes(c)
            h = sum(p)                                              # permission bits and owners vary with the name
            attr = b" 0%o %d %d " % ([0o644, 0o600, 0o755, 0o444][h % 4], h % 3, (h // 3) % 3)
            lines.append(b"file " + pack_entry_name(b"/" + p) + attr + str(d / ("f%d.bin" % i)).encode())
        if via_glob:
            lines.insert(min(len(lines), case["optseed"] % (len(lines) + 1)),
                         b"glob /" + case["glob_dir"] + b" 0644 0 0 -type f ./globsrc")
        for k, p, x in case.get("others", []):
            q = pack_entry_name(b"/" + p)
            lines.append({"d": b"dir " + q + b" 0750 3 4", "l": b"slink " + q + b" 0777 0 0 " + pack_entry_name(x or b"x"),
                          "c": b"nod " + q + b" 0600 0 0 c 5 1", "b": b"nod " + q + b" 0660 0 6 b 8 0",
                          "p": b"pipe " + q + b" 0600 0 0", "s": b"sock " + q + b" 0600 1 1"}[k])
        (d / "pack.txt").write_bytes(b"\n".join(lines) + b"\n")
        extra["pack"] = ("-F", "--pack-file", d / "pack.txt")
        if case["sortfile"] is not None:
            (d / "sort.txt").write_bytes(case["sortfile"])
            extra["sort"] = ("-S", "--sort-file", d / "sort.txt")
        r = env.tool(cmdline(env.gen) + [img])
        return r.returncode, r.stderr, img
    bio = io.BytesIO()
    with tarfile.open(fileobj=bio, mode="w", format=tarfile.GNU_FORMAT) as tf:
        for p, c in zip(case["paths"], case["contents"]):
            ti = tarfile.TarInfo(p.decode("utf-8", "surrogateescape"))
            ti.size = len(c)
            ti.mode = 0o644
            tf.addfile(ti, io.BytesIO(c))
        for k, p, x in case.get("others", []):
            ti = tarfile.TarInfo(p.decode("utf-8", "surrogateescape"))
            ti.mode = 0o640
            if k == "d":
                ti.type, ti.mode = tarfile.DIRTYPE, 0o750
            elif k == "l":
                ti.type, ti.linkname = tarfile.SYMTYPE, x.decode("utf-8", "surrogateescape")
            elif k == "h":
                ti.type, ti.linkname = tarfile.LNKTYPE, x.decode("utf-8", "surrogateescape")
            elif k == "c":
                ti.type, ti.devmajor, ti.devminor = tarfile.CHRTYPE, 5, 1
            elif k == "p":
                ti.type = tarfile.FIFOTYPE
            else:
                raise vlib.CheckFailure("generator: node kind %r in a tar archive" % k)
            tf.addfile(ti)
    r = env.tool(cmdline(env.t2s) + [img], stdin=bio.getvalue())
    return r.returncode, r.stderr, img


def parse_stat(text):
    out = {"words": []}
    for l in text.splitlines():
        l = l.strip()
        if l.startswith("Inode type:"):
            out["extended"] = "extended" in l
        elif l.startswith("Inode number:"):
            out["number"] = int(l.split(":")[1])
        elif l.startswith("Fragment index:"):
            out["fidx"] = int(l.split(":")[1], 16)
        elif l.startswith("Fragment offset:"):
            out["foff"] = int(l.split(":")[1])
        elif l.startswith("File size:"):
            out["size"] = int(l.split(":")[1])
        elif l.startswith("Sparse:"):
            out["sparse"] = int(l.split(":")[1])
        elif l.startswith("Blocks start:"):
            out["start"] = int(l.split(":")[1])
        elif l.startswith("Block #"):
            sz = int(l.split("size:")[1].split("(")[0])
            out["words"].append(sz | (0 if "(compressed)" in l else (1 << 24)))
    return out


def rd_bytes(env, args):
    """rdsquashfs with binary stdout; a timeout is a result (rc 124), not an exception"""
    try:
        r = vlib.sh([str(env.rd)] + [str(a) for a in args], env=env.env, text=False, timeout=TOOL_TIMEOUT)
        return r.returncode, r.stdout
    except Exception as e:                                           # subprocess.TimeoutExpired
        return 124, b"timeout: %r" % (e,)


def decode_image(env, case, img):
    """real layout: dict with base, area, frags, per-path inode records, exports, all inodes"""
    raw = img.read_bytes()
    im = sqfsraw.Image(raw)
    inodes = im.inodes()
    bynum = {i["number"]: i for i in inodes}
    files = {}
    problems = []
    todo = list(zip(case["paths"], case["contents"]))
    if case.get("many"):                                             # per-path decoding for a sample only
        todo = [todo[i] for i in case["sample"]]
    for p, c in todo:
        r = env.tool([env.rd, "-s", p.decode("utf-8", "surrogateescape"), img])
        if r.returncode != 0:
            problems.append("rdsquashfs -s %r failed rc=%s %s" % (p, r.returncode, r.stderr[-200:]))
            continue
        st = parse_stat(r.stdout)
        ino = bynum.get(st.get("number"))
        if ino is None or "size" not in ino:
            problems.append("inode %s of %r not found by the raw walk" % (st.get("number"), p))
            continue
        # the two decoders must agree (rdsquashfs is only trusted as far as the raw walk confirms it)
        rd_view = (st.get("size"), st.get("start"), st.get("fidx"), st.get("sparse", 0), st.get("extended"), st["words"])
        raw_view = (ino["size"], ino["start"], ino["frag"][0] if ino["frag"] else 0xFFFFFFFF, ino["sparse"], ino["extended"], ino["words"])
        if rd_view != raw_view:
            problems.append("rdsquashfs -s and the raw inode walk disagree on %r: %s vs %s" % (p, rd_view, raw_view))
        files[p] = ino
        rc, out = rd_bytes(env, ["-c", p.decode("utf-8", "surrogateescape"), img])
        if rc != 0 or out != c:
            problems.append("content:%r" % p)
    rc, desc = rd_bytes(env, ["-d", img])
    if rc != 0:
        problems.append("rdsquashfs -d failed rc=%s" % rc)
    return {"im": im, "base": im.data_base, "area": raw[im.data_base:im.inode_table], "frags": im.fragments(), "files": files,
            "exports": im.exports(), "inodes": inodes, "problems": problems, "imglen": len(raw), "describe": desc}


def tree_view(real):
    """what a reader sees of the *tree*: the listing (names, types, modes, owners, targets, device numbers) and per inode
    number its type class, permission bits and — for files — size.  Nothing about where data lies."""
    basic = {8: 1, 9: 2, 10: 3, 11: 4, 12: 5, 13: 6, 14: 7}
    per = sorted((i["number"], basic.get(i["type"], i["type"]), i["mode"], i.get("size")) for i in real["inodes"])
    return real["describe"], per


def show_file_real(ino):
    fr = "-:0" if ino["frag"] is None else "%d:%d" % ino["frag"]
    return "%d:%d:%s:%d:%d:%s" % (ino["size"], ino["start"], fr, ino["sparse"], 1 if ino["extended"] else 0,
                                  ",".join(str(w) for w in ino["words"]) or "-")


def parse_out(line):
    """model `pack-run` output -> dict"""
    w = line.split()
    out = {"blocks": [], "frags": [], "files": [], "d24": False, "d27": False}
    mode = None
    it = iter(w)
    for t in it:
        if t in ("blocks", "frags", "files"):
            mode = t
        elif t in ("d24", "d27"):
            out[t] = next(it) == "1"
        elif mode == "blocks":
            r, d = t.split(":")
            out["blocks"].append((r == "1", unhx(d)))
        elif mode == "frags":
            a, b, c = t.split(":")
            out["frags"].append({"start": int(a), "size": int(b), "raw": c == "1"})
        elif mode == "files":
            f = t.split(":")
            out["files"].append({"size": int(f[0]), "start": int(f[1]), "frag": None if f[2] == "-" else (int(f[2]), int(f[3])),
                                 "sparse": int(f[4]), "extended": f[5] == "1", "shared": f[6] == "1",
                                 "words": [] if f[7] == "-" else [int(x) for x in f[7].split(",")]})
    return out


def model_pack(env, case, order, table, mode):
    """order: list of (path, flags) in packing order; table: dict payload -> compressed|None"""
    lines = ["pack-begin %d %d" % (case["B"], case["base"])]
    for k, v in table.items():
        if v is not None:
            lines.append("cmp %s %s" % (hx(k), hx(v)))
    cont = dict(zip(case["paths"], case["contents"]))
    for p, fl in order:
        lines.append("file %d %s" % (fl, hx(cont[p])))
    lines.append("pack-run " + mode)
    return parse_out(env.run_model(lines)[-1])


def compress_table(env, case, payloads, table):
    todo = [p for p in payloads if p and p not in table and len(p) <= case["B"]]
    if not todo:
        return
    out = env.run_harness(["cinit %s %d" % (case["comp"], case["B"])] + ["cmp " + hx(p) for p in todo])
    if out[0] != "ok" or len(out) != len(todo) + 1 or "bad-op" in out:
        raise vlib.CheckFailure("block compressor oracle failed: %s" % out[0])
    for p, o in zip(todo, out[1:]):
        table[p] = None if o in ("-", "err") else unhx(o)


def effect_failures(case, order, real):
    """the directive clauses of the property evaluated on the *real* layout.  order: [(path, flags)] in packing order."""
    B, bad = case["B"], []
    files, frags = real["files"], real["frags"]
    cont = dict(zip(case["paths"], case["contents"]))
    seen = []                                                       # earlier files: (data range end, frag range)
    linked = {x for k, _, x in case.get("others", []) if k == "h"}
    for p, fl in order:
        ino = files.get(p)
        if ino is None:
            continue
        size = len(cont[p])
        stored = [w for w in ino["words"] if w != 0]
        nbytes = sum(w & 0xFFFFFF for w in stored)
        if fl & F_DC:
            if any(not (w & (1 << 24)) for w in stored):
                bad.append(("dont_compress_words", p))
            if ino["frag"] is not None and ino["frag"][0] < len(frags) and not frags[ino["frag"][0]]["raw"]:
                bad.append(("dont_compress_fragment_block", p))
        if fl & F_DF:
            if ino["frag"] is not None or len(ino["words"]) != (size + B - 1) // B:
                bad.append(("dont_fragment_effect", p))
        if fl & F_NS:
            if 0 in ino["words"] or ino["sparse"] != 0 or (ino["extended"] and p not in linked):
                bad.append(("nosparse_effect", p))
            if size % B and not (fl & F_DF) and ino["frag"] is None:
                bad.append(("nosparse_effect_tail", p))
            if ino["frag"] is not None and (ino["frag"][0] >= len(frags) or frags[ino["frag"][0]]["size"] == 0):
                bad.append(("nosparse_effect_tail_not_materialised", p))
        if fl & F_DD:
            if stored and any(e > ino["start"] for e, _ in seen):
                bad.append(("dont_dedup_effect_blocks", p))
            if ino["frag"] is not None:
                i, o = ino["frag"]
                for _, fr in seen:
                    if fr and fr[0] == i and not (fr[1] + fr[2] <= o):      # the earlier slot ends before this one begins
                        bad.append(("dont_dedup_effect_fragment", p))
                        break
        if case["notail"] and size > B and ino["frag"] is not None:
            bad.append(("no_tail_packing_large", p))
        if case["notail"] and 0 < size <= B and size % B and not (fl & F_DF) and ino["frag"] is None \
                and (any(cont[p]) or (fl & F_NS)):
            bad.append(("no_tail_packing_small", p))
        seen.append((ino["start"] + nbytes if stored else 0, (ino["frag"][0], ino["frag"][1], size % B) if ino["frag"] else None))
    return bad


def run_pack_case(env, case, scratch):
    """everything for one case; returns a result dict (no ctx calls: runs in a worker thread)"""
    res = {"id": case["id"], "problems": [], "known": [], "stats": {}}
    d = scratch / ("c%d" % case["id"])
    try:
        rc, err, img = build_image(env, case, d)
        if rc != 0:
            res["problems"].append(("tool-failed", "%s exited %s: %s" % (case["tool"], rc, san_summary(str(err)))))
            return res
        try:
            real = decode_image(env, case, img)
            case["base"] = real["base"]
        except (ValueError, struct.error, IndexError, KeyError) as e:
            # the image cannot be walked: is that what the model of the pinned fragment rule (D24: stray block word in
            # an inode, fragment entry 0/0) predicts for this input?
            real = None
            res["problems"].append(("undecodable", "image cannot be decoded: %r" % (e,)))
            try:
                case["base"] = sqfsraw.Image(img.read_bytes()).data_base
            except Exception:
                case["base"] = 96
        # --- packing order and flags -----------------------------------------------------------------------
        if case["tool"] in ("gensquashfs", "packdir"):
            hothers = [(k, q, (b"/" + x) if k == "h" else x) for k, q, x in case.get("others", [])]
            line = env.run_harness([harness_sort_line(case["paths"], case["sortfile"] or b"", hothers)])[0]
            if line == "bad-op":
                res["problems"].append(("generator", "the harness cannot build this tree"))
                return res
            init, _res, frame = split_sort_answer(line)
            if frame != "ok":
                res["problems"].append(("frame", "fstree_sort_files changed the tree beyond the file list order and the file attributes"))
            orders = {}
            for mode in ("fix", "cur"):
                m, _, _ = model_sort(env, [(init, case["sortfile"] or b"", bool(hothers))], mode)
                ps = parse_sorted(m[0])
                if ps is None:
                    res["problems"].append(("generator", "sort file rejected by the model: %s" % m[0]))
                    return res
                orders[mode] = [(p, fl) for p, _, fl in ps]
        else:
            orders = {"fix": [(p, 0) for p in case["paths"]]}
            orders["cur"] = orders["fix"]
        sizes = {p: len(c) for p, c in zip(case["paths"], case["contents"])}
        eff = env.run_model(["effective %d %d %d %d" % (1 if case["notail"] else 0, case["B"], sizes[p], fl)
                             for mode in ("fix", "cur") for p, fl in orders[mode]])
        n = len(orders["fix"])
        eorders = {"fix": [(p, int(e)) for (p, _), e in zip(orders["fix"], eff[:n])],
                   "cur": [(p, int(e)) for (p, _), e in zip(orders["cur"], eff[n:])]}
        # --- codec table: every data block, then the fragment blocks the model forms ---------------------------
        table = {}
        B = case["B"]
        pay = set()
        for c in case["contents"]:
            for i in range(0, len(c), B):
                pay.add(c[i:i + B])
        compress_table(env, case, pay, table)
        if real is None:
            res["d24"] = any(model_pack(env, case, eorders[m], table, "cur")["d24"] for m in ("fix", "cur"))
            return res
        variants, matched = {}, None
        for key in (("fix", "fix"), ("cur", "fix"), ("fix", "cur"), ("cur", "cur")):
            smode, pmode = key
            if key != ("fix", "fix") and eorders[smode] == eorders["fix"] and pmode == "fix":
                continue
            mo = model_pack(env, case, eorders[smode], table, pmode)
            newp = [b for raw, b in mo["blocks"] if raw and b not in table]
            if newp:
                compress_table(env, case, newp, table)
                mo = model_pack(env, case, eorders[smode], table, pmode)
            same, diffs = compare(case, eorders[smode], mo, real)
            mo["diffs"] = diffs
            variants[key] = mo
            if same:
                matched = key
                break
        spec = variants[("fix", "fix")]
        res["stats"] = {"files": len(case["paths"]), "blocks": len(spec["blocks"]), "frags": len(spec["frags"]),
                        "shared": sum(1 for f in spec["files"] if f["shared"]),
                        "sparse_files": sum(1 for f in spec["files"] if f["sparse"]),
                        "flags": sorted({fl for _, fl in eorders["fix"]}), "area": len(real["area"]),
                        "nlink_gt1": sum(1 for i in real["inodes"] if i.get("nlink", 1) > 1)}
        used = eorders[matched[0]] if matched else eorders["fix"]
        bad = effect_failures(case, used, real)
        res["effects"] = bad
        res["content_bad"] = [p for p in real["problems"] if p.startswith("content:")]
        res["problems"] += [("decode", p) for p in real["problems"] if not p.startswith("content:")]
        res["matched"] = matched
        res["spec_diffs"] = spec["diffs"]
        res["d24"] = any(mo.get("d24") for mo in variants.values())
        res["d27"] = any(mo.get("d27") for mo in variants.values())
        res["quoted"] = case["sortfile"] is not None and b'"' in case["sortfile"]
        # --- specification's read-back on the real layout ------------------------------------------------------
        rb, lean_eff = monitor_read(env, case, real, table, used)
        res["readback_bad"] = rb if matched is not None else []
        have = {c for c, _ in bad}
        res["effects"] = bad + [(c, b"(Lean monitor)") for c in lean_eff if c not in have]
        res["lean_monitor_only"] = [c for c in lean_eff if c not in have]
        res["python_monitor_only"] = sorted(have - set(lean_eff) - {"no_tail_packing_large", "no_tail_packing_small"})
        # --- order on disk, export table, padding ---------------------------------------------------------------
        res["order_bad"] = order_failures(case, used, real, spec if matched == ("fix", "fix") else None)
        res["export_bad"] = export_failures(env, case, real)
        res["tree_bad"] = tree_failures(env, case, real, d)
        nb = numbering_failures(env, case, real)
        res["stats"]["numbered"] = 0 if nb is None else 1
        for b in nb or []:
            res["problems"].append(("numbering", b))
        if real["imglen"] % case["devblk"]:
            res["problems"].append(("padding", "image length %d not a multiple of -B %d" % (real["imglen"], case["devblk"])))
    except HarnessCrash as e:
        res["problems"].append(("crash", "harness aborted rc=%s on %s: %s" % (e.rc, e.line[:200], e.err[-400:])))
    except (ValueError, struct.error, IndexError, KeyError) as e:
        res["problems"].append(("undecodable", "image cannot be decoded: %r" % (e,)))
    return res


def compare(case, order, mo, real):
    diffs = []
    area = b"".join(b for _, b in mo["blocks"])
    if area != real["area"]:
        diffs.append("data area differs (model %d bytes, image %d bytes)" % (len(area), len(real["area"])))
    mf = [(e["start"], e["size"], e["raw"]) for e in mo["frags"]]
    rf = [(e["start"], e["size"], e["raw"]) for e in real["frags"]]
    if mf != rf:
        diffs.append("fragment table: model %s image %s" % (mf, rf))
    if len(order) != len(mo["files"]) or len(order) != len(case["paths"]):
        raise vlib.CheckFailure("model answered %d files for %d inputs" % (len(mo["files"]), len(order)))
    linked = {x for k, _, x in case.get("others", []) if k == "h"}   # a file with a second name has an extended inode
    sampled = None if not case.get("many") else {case["paths"][i] for i in case["sample"]}
    want_all = []
    for (p, fl), f in zip(order, mo["files"]):
        a = (f["size"], f["start"], f["frag"], f["sparse"], f["extended"] or p in linked, f["words"])
        want_all.append(a)
        if sampled is not None and p not in sampled:
            continue
        ino = real["files"].get(p)
        if ino is None:
            diffs.append("file %r missing" % p)
            continue
        b = (ino["size"], ino["start"], ino["frag"], ino["sparse"], ino["extended"], ino["words"])
        if a != b:
            diffs.append("file %r flags %d: model %s image %s" % (p, fl, a, b))
    # every file inode of the image, whatever its path: the multiset of layouts is the model's
    have_all = [(i["size"], i["start"], i["frag"], i["sparse"], i["extended"], i["words"]) for i in real["inodes"] if "size" in i]
    key = lambda t: (t[0], t[1], t[2] or (-1, -1), t[3], t[4], t[5])
    if sorted(want_all, key=key) != sorted(have_all, key=key):
        diffs.append("the file inodes of the image (%d) are not the model's per-file results (%d)" % (len(have_all), len(want_all)))
    return (not diffs), diffs


def monitor_read(env, case, real, table, order):
    """`readFile` of the specification evaluated on the implementation's layout must give back the input; and the
    directive clauses as defined in Lean (Sqfs/Spec/Directives.lean) evaluated on the same layout"""
    lines = ["pack-begin %d %d" % (case["B"], real["base"])]
    for k, v in table.items():
        if v is not None:
            lines.append("cmp %s %s" % (hx(k), hx(v)))
    lines.append("mon-begin %d %d" % (case["B"], real["base"]))
    # cut the real data area into blocks along the block words / fragment entries
    cuts = {}
    for p, ino in real["files"].items():
        off = ino["start"]
        for w in ino["words"]:
            if w:
                cuts[off] = (w & 0xFFFFFF, bool(w & (1 << 24)))
                off += w & 0xFFFFFF
    for e in real["frags"]:
        if e["size"]:
            cuts[e["start"]] = (e["size"], e["raw"])
    pos = real["base"]
    for off in sorted(cuts):
        n, raw = cuts[off]
        if off < pos:
            continue                      # overlapping references (shared blocks inside a longer run)
        if off > pos:
            lines.append("mon-block 1 %s" % hx(real["area"][pos - real["base"]:off - real["base"]]))
        lines.append("mon-block %d %s" % (1 if raw else 0, hx(real["area"][off - real["base"]:off - real["base"] + n])))
        pos = off + n
    if pos < real["base"] + len(real["area"]):
        lines.append("mon-block 1 %s" % hx(real["area"][pos - real["base"]:]))
    for e in real["frags"]:
        lines.append("mon-frag %d %d %d" % (e["start"], e["size"], 1 if e["raw"] else 0))
    nset = len(lines)
    keys = []
    for p, c in zip(case["paths"], case["contents"]):
        ino = real["files"].get(p)
        if ino is None:
            continue
        keys.append((p, c))
        lines.append("mon-read %d %d %s %d %s" % (ino["size"], ino["start"], "-" if ino["frag"] is None else ino["frag"][0],
                                                  0 if ino["frag"] is None else ino["frag"][1],
                                                  ",".join(str(w) for w in ino["words"]) or "-"))
    eff = []
    for p, fl in order:
        ino = real["files"].get(p)
        if ino is None:
            eff = None
            break
        eff.append("%d %d %d %s %d %d %s" % (fl, ino["size"], ino["start"], "-" if ino["frag"] is None else ino["frag"][0],
                                             0 if ino["frag"] is None else ino["frag"][1], ino["sparse"],
                                             ",".join(str(w) for w in ino["words"]) or "-"))
    if eff is not None:
        lines.append("mon-effects " + " ".join(eff))
    out = env.run_model(lines)[nset:]
    lean_eff = []
    if eff is not None:
        last = out.pop()
        if last != "ok":
            lean_eff = last.split()
    if len(out) != len(keys):
        raise vlib.CheckFailure("mon-read: %d answers for %d files" % (len(out), len(keys)))
    return [p for (p, c), o in zip(keys, out) if unhx(o) != c], lean_eff


def tree_tokens(case):
    """the tree of a case as `number` tokens: (number of root children, tokens, paths in the same pre-order)"""
    root = {}

    def put(p, kind):
        parts, d = p.split(b"/"), root
        for c in parts[:-1]:
            d = d.setdefault(c, {})
            if not isinstance(d, dict):
                raise vlib.CheckFailure("generator: %r below a non-directory" % p)
        if kind == "d":
            d.setdefault(parts[-1], {})
        else:
            d[parts[-1]] = kind
    for p in case["paths"]:
        put(p, "f")
    for k, q, _ in case.get("others", []):
        put(q, {"h": "h", "d": "d"}.get(k, "f"))
    toks, order = [], []

    def walk(d, prefix):
        for name in sorted(d):                                       # strcmp order, as insert_sorted keeps the children
            v, path = d[name], prefix + name
            order.append(path)
            if isinstance(v, dict):
                toks.append("d%d" % len(v))
                walk(v, path + b"/")
            else:
                toks.append(v)
    walk(root, b"")
    return len(root), toks, order


def numbering_failures(env, case, real):
    """the inode numbering model behind export_table_of_tree (Sqfs/Model/Numbering.lean) against the image: inode
    count and the number of every file whose inode was located.  Not for trees with hard links (reorder_hard_links
    renumbers afterwards and is not modelled)."""
    if any(k == "h" for k, _, _ in case.get("others", [])):
        return None
    k, toks, order = tree_tokens(case)
    ans = env.run_model(["number %d %s" % (k, " ".join(toks))])[0].split()
    if len(ans) != len(order) + 2:
        raise vlib.CheckFailure("number: %d answers for %d nodes" % (len(ans) - 2, len(order)))
    bad = []
    if int(ans[0]) != real["im"].inode_count or int(ans[1]) != int(ans[0]):
        bad.append("inode count: model %s (root %s), image %d" % (ans[0], ans[1], real["im"].inode_count))
    want = dict(zip(order, ans[2:]))
    for p, ino in real["files"].items():
        if str(ino["number"]) != want.get(p):
            bad.append("inode number of %r: model %s, image %d" % (p, want.get(p), ino["number"]))
    return bad[:5]


def tree_failures(env, case, real, d):
    """directives_preserve_tree on the real tools: the same input packed without sort file and without -T describes the
    same tree (listing, inode numbers, types, modes, sizes); only a share of the cases (case["twin"])"""
    if not case.get("twin"):
        return []
    plain = dict(case, sortfile=None, notail=False, id="%st" % case["id"])
    rc, err, img = build_image(env, plain, d / "twin")
    if rc != 0:
        return ["packing the same tree without directives failed: rc=%s %s" % (rc, str(err)[-200:])]
    try:
        other = decode_image(env, dict(plain, many=True, sample=[]), img)
    except (ValueError, struct.error, IndexError, KeyError) as e:
        return ["image without directives cannot be decoded: %r" % (e,)]
    a, b = tree_view(real), tree_view(other)
    bad = []
    if a[0] != b[0]:
        la, lb = a[0].splitlines(), b[0].splitlines()
        k = next((i for i, (x, y) in enumerate(zip(la, lb)) if x != y), min(len(la), len(lb)))
        bad.append("listing differs at line %d: %r vs %r" % (k, la[k:k + 1], lb[k:k + 1]))
    if a[1] != b[1]:
        bad.append("inode numbers / types / modes / sizes differ: %s vs %s" % ([x for x in a[1] if x not in b[1]][:3], [x for x in b[1] if x not in a[1]][:3]))
    return bad


def order_failures(case, order, real, spec):
    """layout follows the order: among files that own stored blocks (not shared), Blocks start ascends"""
    bad, last = [], None
    shared = {}
    if spec is not None:
        shared = {p: f["shared"] for (p, _), f in zip(order, spec["files"])}
    ends = []
    for p, fl in order:
        ino = real["files"].get(p)
        if ino is None:
            continue
        stored = [w for w in ino["words"] if w]
        if not stored:
            continue
        is_shared = shared.get(p, any(ino["start"] < e for e in ends))
        if not is_shared:
            if last is not None and ino["start"] <= last:
                bad.append(p)
            last = ino["start"]
        ends.append(ino["start"] + sum(w & 0xFFFFFF for w in stored))
    return bad


def export_failures(env, case, real):
    ex = real["exports"]
    if not case["export"]:
        return ["export table present without -e"] if ex is not None else []
    if ex is None:
        return ["no export table although -e was given"]
    inodes = real["inodes"]
    bad = []
    if len(ex) != real["im"].inode_count or sorted(i["number"] for i in inodes) != list(range(1, len(inodes) + 1)):
        bad.append("export table length %d, inode count %d, inode numbers %s" % (len(ex), real["im"].inode_count,
                                                                               sorted(i["number"] for i in inodes)[:20]))
        return bad
    for i in inodes:
        if ex[i["number"] - 1] != i["ref"]:
            bad.append("export[%d]=%#x but inode %d lives at %#x" % (i["number"] - 1, ex[i["number"] - 1], i["number"], i["ref"]))
    root = [i for i in inodes if i["ref"] == real["im"].root_ref]
    pairs = [(i["number"], i["ref"]) for i in inodes if i["ref"] != real["im"].root_ref] + [(i["number"], i["ref"]) for i in root]
    m = env.run_model(["export %d %s" % (len(pairs), " ".join("%d %d" % pr for pr in pairs))])[0]
    if m.split() != [str(x) for x in ex]:
        bad.append("export table differs from the model: %s vs %s" % (m[:200], ex[:20]))
    return bad


# ------------------------------------------------------------------------------------------------ corpus
def corpus_cases():
    """hand-written regression inputs (run first): the D24 / D26 / D27 witnesses and boundary layouts"""
    B = 4096
    out = []
    out.append({"B": B, "paths": [b"z"], "contents": [bytes(100)], "comp": "gzip", "tool": "gensquashfs", "notail": False,
                "export": False, "devblk": 4096, "jobs": 1, "sortfile": b"0 [nosparse] z\n", "name": "D24 witness"})
    out.append({"B": B, "paths": [b"a", b"b"], "contents": [b"hello world aaa", b"bbbbbbbbbbbb"], "comp": "gzip", "tool": "gensquashfs",
                "notail": False, "export": False, "devblk": 4096, "jobs": 1, "sortfile": b'-5 "b"\n', "name": "D26 witness"})
    out.append({"B": B, "paths": [b"a", b"b"], "contents": [b"hello world " * 20, b"hello world " * 20], "comp": "gzip",
                "tool": "gensquashfs", "notail": False, "export": False, "devblk": 4096, "jobs": 1,
                "sortfile": b"5 [dont_compress] b\n", "name": "D27 witness"})
    out.append({"B": B, "paths": [b"a", b"b", b"c", b"d"], "contents": [b"x" * (2 * B), b"x" * (3 * B), bytes(B) + b"y" * 10, b"x" * B],
                "comp": "gzip", "tool": "gensquashfs", "notail": True, "export": True, "devblk": 4096, "jobs": 1,
                "sortfile": b"-1 [dont_deduplicate] d\n1 [glob,nosparse] *\n", "name": "overlapping dedup, -T, -e"})
    big = (b"0123456789abcdef" * 1000)[:2 * B + 17]
    out.append({"B": B, "paths": [b"a", b"b", b"c"], "contents": [big, big, big], "comp": "gzip", "tool": "gensquashfs", "notail": False,
                "export": False, "devblk": 4096, "jobs": 1, "sortfile": b"1 [dont_deduplicate] b\n", "name": "dont_deduplicate twin (blocks and tail)"})
    out.append({"B": B, "paths": [b"a", b"b", b"c"], "contents": [b"tiny tail", b"tiny tail", b"tiny tail"], "comp": "gzip", "tool": "gensquashfs",
                "notail": True, "export": True, "devblk": 1024, "jobs": 1, "sortfile": b"1 [dont_deduplicate] b\n", "name": "dont_deduplicate twin (fragment only), -T on small files"})
    out.append({"B": B, "paths": [b"a", b"b"], "contents": [bytes(B) + b"x" * 5, bytes(2 * B)], "comp": "xz", "tool": "gensquashfs", "notail": False,
                "export": False, "devblk": 4096, "jobs": 1, "sortfile": b"1 [nosparse] a\n2 [nosparse,dont_fragment] b\n", "name": "nosparse zero blocks"})
    out.append({"B": B, "paths": [b"a", b"b"], "contents": [b"x" * (B + 1), b"y" * 10], "comp": "lz4", "tool": "tar2sqfs", "notail": True,
                "export": True, "devblk": 4096, "jobs": 1, "sortfile": None, "name": "tar2sqfs -T -e"})
    for i, c in enumerate(out):
        c["id"] = 100000 + i
    return out


# ------------------------------------------------------------------------------------------------ run
def judge(case, res, summary):
    """one case's result -> list of (key, what, found_input); D-keys are known-finding candidates"""
    out = []
    cid = case.get("name") or ("case %d" % case["id"])
    for kind, what in res["problems"]:
        if kind == "generator":
            summary["generator_rejects"] += 1
            continue
        # an undecodable image / failing tool can be the consequence of D24 (stray block word in the inode table)
        if res.get("d24") and kind in ("undecodable", "decode", "padding"):
            out.append((KEY_D24, "nosparse all-zero tail alone in its fragment block: %s" % what, True))
            summary["d24"] += 1
            continue
        # model of the inode numbering ≠ image: the correspondence behind export_table_of_tree broke, no property clause fails
        out.append(("%s:%s" % (kind, case_hash(case)), "%s: %s" % (cid, what), kind != "numbering"))
    if "matched" not in res:
        return out
    summary["compared"] += 1
    _distinct.add("pack:" + case_hash(case))
    clause_bad = list(res["effects"]) + [("directives_preserve_content", p) for p in res["content_bad"]] \
        + [("directives_preserve_content(readFile)", p) for p in (res.get("readback_bad") or [])] \
        + [("layout_follows_order", p) for p in res["order_bad"]] + [("export_table_ok", e) for e in res["export_bad"]] \
        + [("directives_preserve_tree", e) for e in res.get("tree_bad", [])]
    if res["matched"] == ("fix", "fix") and not clause_bad:
        summary["agree"] += 1
        return out
    # known findings: the disagreement is the one the model of the pinned code predicts
    m = res["matched"]
    explained = False
    if m is not None and m != ("fix", "fix"):
        if m[0] == "cur" and res["quoted"]:
            out.append((KEY_D26, "sort file with a quoted name: the packed layout follows the mis-decoded name", True))
            summary["d26"] += 1
            explained = True
        if m[1] == "cur" and res["d24"]:
            out.append((KEY_D24, "nosparse all-zero tail alone in its fragment block is flagged sparse: fragment block not written, "
                        "first member's inode altered: %s" % "; ".join(res["spec_diffs"])[:400], True))
            summary["d24"] += 1
            explained = True
        if m[1] == "cur" and res["d27"]:
            out.append((KEY_D27, "fragment deduplication ignores DONT_COMPRESS: %s" % "; ".join(res["spec_diffs"])[:400], True))
            summary["d27"] += 1
            explained = True
        if explained:
            # clauses that fail must be the ones the finding is about; anything else is a fresh violation
            allowed = {"nosparse_effect", "nosparse_effect_tail", "nosparse_effect_tail_not_materialised", "dont_compress_fragment_block",
                       "directives_preserve_content", "directives_preserve_content(readFile)", "export_table_ok"}
            clause_bad = [c for c in clause_bad if c[0] not in allowed]
    if clause_bad:
        summary["clause_bad"] += 1
        out.append(("clause:%s:%s" % (clause_bad[0][0], case_hash(case)), "%s: the real layout violates %s" % (cid, clause_bad[:6]), True))
    elif not explained:
        summary["corr_bad"] += 1
        out.append(("pack-corr:" + case_hash(case), "%s: layout differs from specPack but no directive clause fails: %s" % (
            cid, "; ".join(res["spec_diffs"])[:600]), False))
    return out


def case_replay(case):
    def enc(k, v):
        if k == "others":
            return [[kind, q.hex(), None if x is None else x.hex()] for kind, q, x in v]
        if isinstance(v, bytes):
            return v.hex()
        if isinstance(v, list) and v and isinstance(v[0], bytes):
            return [x.hex() for x in v]
        return v
    return {"kind": "pack", "case": {k: enc(k, v) for k, v in case.items() if k not in ("cmdline", "base")}}


def case_from_json(c):
    case = dict(c)
    case["paths"] = [bytes.fromhex(x) for x in c["paths"]]
    case["contents"] = [bytes.fromhex(x) for x in c["contents"]]
    case["sortfile"] = None if c.get("sortfile") is None else bytes.fromhex(c["sortfile"])
    if "others" in c:
        case["others"] = [(k, bytes.fromhex(q), None if x is None else bytes.fromhex(x)) for k, q, x in c["others"]]
    if c.get("glob_dir") is not None:
        case["glob_dir"] = bytes.fromhex(c["glob_dir"])
    return case


def case_hash(case):
    return vlib.sha(json.dumps(case_replay(case), sort_keys=True))[:12]


def classify_and_report(ctx, case, res, summary):
    """turn one case's result into violations / known findings (main thread)"""
    for key, what, found in judge(case, res, summary):
        if key in (KEY_D24, KEY_D26, KEY_D27):
            report_once(ctx, key, what, case_replay(case))
        else:
            ctx.violation(key, what, dict(case_replay(case), diffs=res.get("spec_diffs")), found_input=found)


def consts_ok(ctx):
    txt = (vlib.LEAN / "Sqfs" / "Generated" / "Consts.lean").read_text()
    want = {"blkDontCompress": F_DC, "blkDontFragment": F_DF, "blkDontDeduplicate": F_DD, "blkIgnoreSparse": F_NS}
    return all(("def %s : Nat := %d\n" % kv) in txt for kv in want.items())


def run(ctx):
    ok, problems = vlib.proof_gate(ctx, MODULE, REQUIRED)
    if not ok:
        ctx.violation("proof:C17", "proof obligations of C17 no longer check: " + " | ".join(problems)[:1500],
                      {"broken": problems, "theorems_file": "lean/Sqfs/Props/C17.lean"}, found_input=False)
    wok, wlog = ctx.lean_build(["Sqfs.Witness.C17"])
    if not wok:
        ctx.violation("proof:C17-witness", "Sqfs/Witness/C17.lean (witnesses of D24/D26/D27 on the models of the pinned code) no longer builds",
                      {"log": wlog[-1500:]}, found_input=False)
    if not consts_ok(ctx):
        ctx.violation("consts:C17", "SQFS_BLK_* flag values changed; the check's flag decoding no longer matches the headers",
                      {"correspondence": "tools/checks/c17.py F_* vs Sqfs/Generated/Consts.lean"}, found_input=False)
    env = Env(ctx)
    quick = ctx.quick()
    # the flag names spelled out as byte lists in Sort.lean are the strings of decode_flags; pack_file's `flags |= DONT_FRAGMENT`
    # on the C flag word (C17Mkfs.packFileFlags) seen through Flags.ofNat is effectiveFlags (theorem ofNat_packFileFlags; evaluated too)
    pf = [(nt, b, sz, fl) for nt in (0, 1) for b, sz in ((4096, 4096), (4096, 4097), (131072, 5), (131072, 131073)) for fl in range(32)]
    ans = env.run_model(["flagnames"] + ["packflags %d %d %d %d" % t for t in pf] + ["effective %d %d %d %d" % t for t in pf])
    want = [fl | (F_DF if nt and sz > b else 0) for nt, b, sz, fl in pf]
    if ans[0] != "ok" or [int(x) for x in ans[1:1 + len(pf)]] != want or \
            [int(x) for x in ans[1 + len(pf):]] != want:
        ctx.violation("model:C17-flagwords", "flag names / pack_file flag word of the model differ from the source's: %s" % ans[:3],
                      {"correspondence": "Sqfs/Model/Sort.lean nm*, Sqfs/Model/C17Mkfs.lean packFileFlags vs mkfs.c:35-37"}, found_input=False)
    # ---- part A ------------------------------------------------------------------------------------------------
    cases_a = []
    cdir = vlib.CORPUS / "C17"
    if cdir.exists():
        for p in sorted(cdir.glob("sort-*.json")):
            j = json.loads(p.read_text())
            cases_a.append(([bytes.fromhex(x) for x in j["paths"]], bytes.fromhex(j["sortfile"]),
                            [(k, bytes.fromhex(q), None if x is None else bytes.fromhex(x)) for k, q, x in j.get("others", [])]))
    ncorpus_a = len(cases_a)
    for _ in range(4000 if quick else 30000):
        paths = gen_paths_a(ctx.rng)
        extras = gen_extras(ctx.rng, paths) if ctx.rng.random() < 0.3 else []
        # lines may name the other nodes too (a hard link, a directory, a symlink): they select nothing
        cand = paths + [q for _, q, _ in extras if ctx.rng.random() < 0.5]
        sf = gen_sortfile(ctx.rng, cand, globs=GLOBS_A)
        if ctx.rng.random() < 0.25:                 # several files at distinct wide priorities in one sort file
            ps = ctx.rng.sample(paths, min(len(paths), ctx.rng.randint(2, 4)))
            sf = b"".join(str(gen_prio(ctx.rng) if ctx.rng.random() < 0.3 else ctx.rng.choice(WIDEP)).encode() + b" " +
                          (x if plain_ok(x) and b'"' not in x else quote_name(x)) + b"\n" for x in ps) + sf
        cases_a.append((paths, sf, extras))
    sa = {"sort_cases": 0}
    for i in range(0, len(cases_a), 2500):
        s = part_a(ctx, env, cases_a[i:i + 2500])
        for k, v in s.items():
            if isinstance(v, dict):
                d = sa.setdefault(k, {})
                for kk, vv in v.items():
                    d[kk] = d.get(kk, 0) + vv
            else:
                sa[k] = sa.get(k, 0) + v
    ctx.log("part A: %s" % sa)
    # an empty or degenerate part is a failure of the check, never a pass
    if sa.get("sort_cases", 0) != len(cases_a) and not ctx.violations:
        raise vlib.CheckFailure("part A evaluated %s of %d cases" % (sa.get("sort_cases"), len(cases_a)))
    if sa.get("sort_cases") and (sa.get("sort_ok", 0) < len(cases_a) // 4 or sa.get("nontrivial", 0) < len(cases_a) // 8
                                 or sa.get("typed_trees", 0) < len(cases_a) // 8 or sa.get("wide_priority_pairs", 0) < len(cases_a) // 40):
        raise vlib.CheckFailure("part A generator degenerated: %s" % sa)
    missing = ALL_ERR_KINDS - set(sa.get("err_kinds", {}))
    if sa.get("sort_cases") and missing:
        raise vlib.CheckFailure("part A never exercised the rejection(s) %s" % sorted(missing))
    sm = part_a_match(ctx, env, quick)
    ctx.log("part A2 (glob matching): %s" % sm)
    sa["glob_matching"] = sm
    if not ctx.violations and (sm.get("table_rows", 0) < len(set(MATCH_TABLE)) or sm.get("hidden_selected_by_wildcard", 0) < 20
                               or sm.get("case_only_differs", 0) < 20 or sm.get("selected", 0) < sm.get("pairs", 0) // 20):
        raise vlib.CheckFailure("part A2 degenerated: %s" % sm)
    # ---- part C: the export table of dir_writer.c alone -----------------------------------------------------------
    cases_c = [gen_export_case(ctx.rng, i, quick) for i in range(160 if quick else 700)]
    # fixed shapes first: exactly at and just beyond the initial capacity and the first metadata block
    for k, (n, order) in enumerate([(512, "asc"), (513, "asc"), (513, "first-big"), (1024, "asc"), (1025, "asc"), (1025, "desc"),
                                    (2049, "perm"), (4097, "first-big")]):
        nums = list(range(1, n))
        if order == "desc":
            nums.reverse()
        elif order == "first-big":
            nums = nums[-1:] + nums[:-1]
        elif order == "perm":
            ctx.rng.shuffle(nums)
        cases_c.insert(k, {"id": 900000 + k, "pairs": [(m, 0x10000 * m + 7) for m in nums] + [(n, 0x10000 * n + 7)], "off": 96,
                           "comp": "gzip" if k % 2 else "raw", "order": order, "band": "fixed"})
    sc = {}
    for i in range(0, len(cases_c), 200):
        for k, v in part_c(ctx, env, cases_c[i:i + 200]).items():
            sc[k] = max(sc.get(k, 0), v) if k == "max_entries" else sc.get(k, 0) + v
    ctx.log("part C: %s" % sc)
    if not ctx.violations and (sc.get("ok", 0) < len(cases_c) * 3 // 4 or min(sc.get("inodes_ge_513", 0), sc.get("inodes_ge_1025", 0),
                                                                           sc.get("inodes_ge_2049", 0)) < 3 or sc.get("compressed_blocks", 0) == 0):
        raise vlib.CheckFailure("part C degenerated: %s" % sc)
    # ---- part B ------------------------------------------------------------------------------------------------
    cases_b = corpus_cases()
    if cdir.exists():
        for p in sorted(cdir.glob("pack-*.json")):
            j = case_from_json(json.loads(p.read_text()))
            j["id"] = 200000 + len(cases_b)
            cases_b.append(j)
    ncorpus_b = len(cases_b)
    ngen = 240 if quick else 2500
    for i in range(ngen):
        cases_b.append(gen_pack_case(ctx.rng, i, quick, "tar2sqfs" if i % 6 == 5 else "packdir" if i % 6 == 4 else "gensquashfs"))
    # images with more than 512 / more than 1024 inodes and -e (export table capacity growth, second metadata block)
    nmany = 0
    for k, (lo, hi) in enumerate([(515, 600), (1030, 1120)] * (1 if quick else 4)):
        cases_b.append(gen_many_case(ctx.rng, 300000 + k, lo, hi))
        nmany += 1
    summary = {k: 0 for k in ("compared", "agree", "d24", "d26", "d27", "clause_bad", "corr_bad", "generator_rejects")}
    hist = {"files": 0, "blocks": 0, "frags": 0, "shared": 0, "sparse_files": 0, "area_bytes": 0, "flagsets": {}, "comp": {}, "B": {},
            "notail": 0, "export": 0, "tar2sqfs": 0, "with_sortfile": 0}
    with concurrent.futures.ThreadPoolExecutor(max_workers=min(12, vlib.NCPU)) as ex:
        futs = [ex.submit(run_pack_case, env, c, ctx.scratch) for c in cases_b]
        for c, f in zip(cases_b, futs):
            res = f.result()
            classify_and_report(ctx, c, res, summary)
            st = res.get("stats") or {}
            for k in ("files", "blocks", "frags", "shared", "sparse_files"):
                hist[k] += st.get(k, 0)
            hist["nlink_gt1"] = hist.get("nlink_gt1", 0) + st.get("nlink_gt1", 0)
            hist["numbered"] = hist.get("numbered", 0) + st.get("numbered", 0)
            hist["area_bytes"] += st.get("area", 0)
            for fl in st.get("flags", []):
                hist["flagsets"][str(fl)] = hist["flagsets"].get(str(fl), 0) + 1
            hist["comp"][c["comp"]] = hist["comp"].get(c["comp"], 0) + 1
            hist["B"][str(c["B"])] = hist["B"].get(str(c["B"]), 0) + 1
            hist["notail"] += 1 if c["notail"] else 0
            hist["export"] += 1 if c["export"] else 0
            if res.get("lean_monitor_only") or res.get("python_monitor_only"):
                hist["monitors_disagree"] = hist.get("monitors_disagree", 0) + 1
                ctx.log("monitors disagree on case %s: lean-only %s python-only %s" % (c["id"], res.get("lean_monitor_only"), res.get("python_monitor_only")))
            hist["tar2sqfs"] += 1 if c["tool"] == "tar2sqfs" else 0
            hist["packdir"] = hist.get("packdir", 0) + (1 if c["tool"] == "packdir" else 0)
            hist["with_sortfile"] += 1 if c.get("sortfile") else 0
            for k, cond in (("twins", c.get("twin")), ("jobs_gt1", c["jobs"] > 1), ("backlog", c.get("backlog")), ("other_nodes", c.get("others")),
                            ("hardlinks", any(x[0] == "h" for x in c.get("others", []))), ("via_glob", c.get("via_glob")),
                            ("many_inodes", c.get("many")), ("big_block", c["B"] >= 65536)):
                hist[k] = hist.get(k, 0) + (1 if cond else 0)
            import shutil
            shutil.rmtree(ctx.scratch / ("c%d" % c["id"]), ignore_errors=True)
    ctx.log("part B: %s" % summary)
    big = [len(c["paths"]) for c in cases_b if c.get("many")]
    if not ctx.violations and (summary["compared"] != len(cases_b) - summary["generator_rejects"] or summary["generator_rejects"] > len(cases_b) // 20
                               or sum(1 for n in big if n >= 513) < 2 or sum(1 for n in big if n >= 1025) < 1
                               or hist.get("twins", 0) == 0 or hist.get("jobs_gt1", 0) == 0 or hist.get("other_nodes", 0) == 0
                               or hist.get("nlink_gt1", 0) < hist.get("hardlinks", 0) or hist.get("hardlinks", 0) == 0
                               or hist.get("numbered", 0) < len(cases_b) // 2):
        raise vlib.CheckFailure("part B degenerated: %s %s" % (summary, {k: hist.get(k) for k in ("twins", "jobs_gt1", "other_nodes", "hardlinks", "nlink_gt1", "via_glob")}))
    ctx.cov.update({
        "evaluations": sa.get("sort_cases", 0) + len(cases_b) + sc.get("export_cases", 0),
        "distinct_nontrivial": len(_distinct),
        "rule": "A: %d generated (file list, sort file) pairs + %d corpus through the real fstree_sort_files (ASan+UBSan) and the model, "
                "fnmatch answered by libc; non-trivial = the sort changed order/priority/flags of some file.  "
                "B: %d generated + %d corpus trees packed by the real gensquashfs/tar2sqfs, image decoded independently and compared "
                "with specPack (data area byte for byte, fragment table, every file inode's layout fields); non-trivial = image decoded "
                "and compared; distinct_nontrivial counts distinct inputs (hash of the harness line / of the case).  "
                "C: %d add_entry/write_export_table runs of the real dir writer (up to %d entries) vs the array model, byte for byte" % (
                    len(cases_a) - ncorpus_a, ncorpus_a, ngen + nmany, ncorpus_b, len(cases_c), sc.get("max_entries", 0)),
        "samples": [{"paths": [p.decode("latin1") for p in cases_a[i][0]], "sortfile": cases_a[i][1].decode("latin1")} for i in
                    (ncorpus_a, ncorpus_a + 1, len(cases_a) - 1)] +
                   [{"tool": c["tool"], "B": c["B"], "comp": c["comp"], "sizes": [len(x) for x in c["contents"]],
                     "sortfile": (c.get("sortfile") or b"").decode("latin1"), "notail": c["notail"], "export": c["export"]}
                    for c in cases_b[ncorpus_b:ncorpus_b + 3]],
        "disagreements_checked": sa.get("disagreements", 0) + sa.get("quoted_cur_diff", 0) + summary["d24"] + summary["d26"]
                                 + summary["d27"] + summary["clause_bad"] + summary["corr_bad"] + sc.get("disagreements", 0),
        "part_a": sa, "part_b": summary, "part_b_histogram": hist, "part_c": sc,
    })
    return ctx.finish(LEVEL, trusted_extra=[
        "fnmatch(3) is not modelled: the model's match queries are answered by libc's fnmatch called with the documented flag word "
        "(FNM_PATHNAME / 0); what the real fstree_sort_files selects is compared with that, a hand-written table and a reference matcher",
        "block codecs (gzip/xz/lz4/zstd) are a parameter of specPack; their outputs are supplied by the real compressor of the working tree "
        "(size oracle) and the read-back theorem assumes the Codec round-trip contract",
        "modelled: bin/gensquashfs/src/sort_by_file.c (+ parse_int, split_line, trim), the flag hand-over in mkfs.c / tar2sqfs "
        "process_tarball.c, and the data layout of lib/sqfs/src/block_processor/*.c + block_writer.c as the functional specification specPack "
        "(its refinement by the queue/thread implementation model is proved in C02: Sqfs.C02.run_eq_specPack / threaded_eq_specPack / "
        "threaded_directives), export table of dir_writer.c",
        "tools/sqfsraw.py (independent image reader) and rdsquashfs -s/-c as decoders of the real layout (cross-checked against each other)"],
        assumptions=["file paths in a tree are pairwise distinct (hypothesis of first_match_wins)",
                     "Codec.Ok (compress strictly smaller and non-empty, uncompress inverts) for the read-back theorems"])


def replay(ctx, path):
    body = json.loads(open(path).read())
    rp = body.get("replay", {})
    ok, _ = ctx.lean_build(["sqfsmodel"])
    env = Env(ctx)
    if rp.get("kind") == "sort":
        line = rp["harness_line"]
        real = env.run_harness([line])[0]
        sf = unhx(line.split()[-1])
        init, rr, frame = split_sort_answer(real)
        mf, per, bits = model_sort(env, [(init, sf, line.startswith("sortx"))], "fix")
        print("harness :", line[:400])
        print("sortfile:", sf)
        print("impl    :", real)
        print("model   :", mf[0])
        same = rr == mf[0] or (rr.startswith("err") and mf[0].startswith("err") and rr.split()[1] == mf[0].split()[1])
        if same and rr.startswith("ok"):
            same = not sort_clause_failures(init, parse_sorted(rr), per[0], bits[0])
        return 0 if same and frame == "ok" else 1
    if rp.get("kind") == "export" and "case" not in rp:
        try:
            print(env.run_harness([rp["harness_line"]])[0][:300])
            return 0
        except HarnessCrash as e:
            print("harness aborted rc=%s: %s" % (e.rc, san_summary(e.err)))
            return 1
    if rp.get("kind") == "export":
        c = dict(rp["case"])
        c["pairs"] = [tuple(x) for x in c["pairs"]]
        n0 = len(ctx.violations)
        st = part_c(ctx, env, [c])
        print("impl :", c.get("real", "")[:300])
        print("model:", c.get("model", "")[:300])
        print(st)
        return 1 if len(ctx.violations) > n0 or st.get("disagreements") else 0
    if rp.get("kind") == "pack":
        case = case_from_json(rp["case"])
        res = run_pack_case(env, case, ctx.scratch)
        for k in ("problems", "matched", "spec_diffs", "effects", "content_bad", "readback_bad", "order_bad", "export_bad", "tree_bad", "d24", "d27"):
            print("%-13s: %s" % (k, res.get(k)))
        summary = {k: 0 for k in ("compared", "agree", "d24", "d26", "d27", "clause_bad", "corr_bad", "generator_rejects")}
        verdicts = judge(case, res, summary)
        fresh = [v for v in verdicts if ctx.known_finding(v[0]) is None]
        for key, what, found in verdicts:
            print("%s %s: %s" % ("KNOWN-FINDING" if ctx.known_finding(key) else "VIOLATION", key, what[:300]))
        print("reproduces" if fresh else "does not reproduce")
        return 1 if fresh else 0
    print("replay file names a broken obligation, no input to replay:", json.dumps(rp)[:500])
    return 1
