"""
C16 — `rdsquashfs --describe` output is valid `gensquashfs --pack-file` input rebuilding the tree.

Proof: lean/Sqfs/Props/C16.lean.  `Sqfs.QuoteLF` models describe.c **as it is in /repo** (quoting of 96e45c1, line-feed
test of 4b35342), `Sqfs.Quote` the pack-file parser (incl. the keyword table's flags column: `link` = hard link since
99d70b1) and — for the proofs and to name a regression — the printer without the line-feed test; `Sqfs.QuoteFs` models
lib/fstree as the parser feeds it (hard-link entries, nesting limit of 9724762).  printer ∘ parser = identity for all
names/targets/locations without NUL/LF; with LF in a target or --unpack-root the printer refuses (describe_newline_*);
the listing rebuilds the tree in gensquashfs' memory (rebuild_fstree_partial); describe never prints a `link` line
(describe_prints_no_link): the names of a hard-link group come back as independent regular files.

Tie (every run, real code from the working tree under ASan+UBSan):
  unit level — harness/h_c16.c (+ h_c16_desc.c): the real split_line / parse_uint / istream_get_line (memory stream
    with small windows and the real 128 KiB file stream) / fstree_from_file_stream+handle_line (fstree_add_generic
    replaced by a recorder), print_escaped, describe_tree on nodes and trees built in the harness, glibc
    major/minor/makedev, against `sqfsmodel c16`, byte for byte;
  fstree level — harness/h_c16_fs.c: the real fstree_from_file.c on top of the real lib/fstree; the in-memory tree
    dumped node by node against `Sqfs.QuoteFs.buildFromFile`, and — on the real describe output of generated trees —
    against the specification `normTree` (theorem rebuild_fstree_partial);
  tool level — gensquashfs → image A → rdsquashfs -d [-p R] + rdsquashfs -u / -p R → gensquashfs -F → image B;
    A and B compared entry by entry through rdsquashfs -s / -c / -l (stat.c, not describe.c); trees with hard-link
    groups (built with the `link` keyword): every name must come back with the same type, mode, owner and contents.

The real printer must equal the model of /repo's printer on every input.  A string with LF must be refused: a listing
printed for it is reported under the key `LF:target` / `LF:location` (the defect repaired by 4b35342).
Every part of the check raises (infrastructure failure) when it evaluated nothing or lost its coverage.
"""
import itertools, json, os, shutil, subprocess, hashlib
import vlib

LEVEL = "proof"
MODULE = "Sqfs.Props.C16"
REQUIRED = ["Sqfs.C16.rebuild_fstree_partial", "Sqfs.C16.split_print_roundtrip", "Sqfs.C16.handle_print_roundtrip", "Sqfs.C16.handle_print_roundtrip_line",
            "Sqfs.C16.describe_roundtrip", "Sqfs.C16.describe_newline_sound", "Sqfs.C16.describe_newline_refusal",
            "Sqfs.C16.describe_newline_same", "Sqfs.C16.handle_print_newline_sound",
            "Sqfs.C16.split_never_fuel", "Sqfs.C16.split_dst_le_src", "Sqfs.C16.parse_print_dec",
            "Sqfs.C16.parse_print_mode", "Sqfs.C16.device_number_roundtrip", "Sqfs.C16.describe_prints_no_link",
            "Sqfs.C16.exComps_good", "Sqfs.C16.exNode_wf", "Sqfs.C16.exUr_lineSafe", "Sqfs.C16.exFs_rootOk", "Sqfs.C16.exLF_rootOkN",
            "Sqfs.C16.exTab_rootOkN"]

SP, TAB, DQ, BS, CR, HASH, LF = 0x20, 0x09, 0x22, 0x5c, 0x0d, 0x23, 0x0a
CORE = [SP, TAB, DQ, BS, CR, HASH]
EXTRA = [0x0b, 0x0c, 0x27, 0x80, 0xff, 0x2a, 0x01, 0x7f]
KINDS = ["dir", "file", "slink", "chr", "blk", "fifo", "sock"]
IFMT = {"dir": 0o040000, "file": 0o100000, "slink": 0o120000, "chr": 0o020000, "blk": 0o060000, "fifo": 0o010000,
        "sock": 0o140000, "other": 0}


def tok(b):
    return b.hex() if b else "-"


def untok(t):
    return b"" if t == "-" else bytes.fromhex(t)


# --------------------------------------------------------------------------------------------------------------
# helpers that fail loudly

def need(cond, what):
    """an infrastructure condition of the check itself: never a pass when it does not hold"""
    if not cond:
        raise vlib.CheckFailure("C16 check infrastructure: " + what)


def szip(*lists):
    """zip() of streams that must have the same length"""
    n = len(lists[0])
    need(all(len(l) == n for l in lists), "streams of unequal length zipped: %s" % [len(l) for l in lists])
    return zip(*lists)


# --------------------------------------------------------------------------------------------------------------
# classification of a failing round trip by the open defect: a LF printed into the listing

def lf_cause(root, kind, comps, target):
    """which string with a LF the printer in /repo writes into the line of this node (None: none).  A LF in an entry
    *name* is outside the property's quantifier and never reaches this function."""
    if kind == "slink" and b"\n" in target:
        return "target"
    if kind == "file" and root is not None and b"\n" in root:
        return "location"
    return None


def in_scope(comps):
    """the property's quantifier: entry names an image can hold (non-empty, not "." / "..", no '/', at most 255 bytes)
    without newline"""
    return all(valid_name(c) for c in comps)


# --------------------------------------------------------------------------------------------------------------
# generators

def special_strings(ctx, exh_len):
    out = []
    for b in CORE + EXTRA:
        c = bytes([b])
        out += [c, c + b"ab", b"a" + c + b"b", b"ab" + c, c + c, c + b"a" + c]
    for b1 in CORE:
        for b2 in CORE:
            out += [bytes([b1, b2]), b"x" + bytes([b1, b2]), bytes([b1]) + b"x" + bytes([b2]), bytes([b1, b2]) + b"x"]
    alpha = [SP, TAB, DQ, BS, CR, HASH, 0x61]
    nexh = 0
    for n in range(1, exh_len + 1):
        for t in itertools.product(alpha, repeat=n):
            out.append(bytes(t)); nexh += 1
    return out, nexh


def random_string(rng, maxlen=40, slash=False):
    n = rng.randint(1, maxlen)
    pool = CORE * 3 + EXTRA + [0x61, 0x62, 0x2e, 0x2d]
    if slash:
        pool = pool + [0x2f, 0x2f]
    s = bytearray()
    for _ in range(n):
        r = rng.random()
        if r < 0.45:
            s.append(rng.choice(pool))
        elif r < 0.8:
            s.append(rng.randint(0x61, 0x7a))
        else:
            b = rng.randint(1, 255)
            if b == 0x0a or (b == 0x2f and not slash):
                b = 0x5c
            s.append(b)
    return bytes(s)


def valid_name(s):
    return s not in (b"", b".", b"..") and b"/" not in s and b"\n" not in s and b"\0" not in s and len(s) <= 255


PERMS = [0, 0o7777, 0o644, 0o755, 0o4711, 0o1000]
IDS = [0, 1, 1000, 65535, 65536, 4294967295]
DEVS = [0, 0x0101, 0xfff00, 0xffffffff, 0xfffff0ff, 0x000fffff, 0x12345678, 259 << 8 | 7]


def node_spec(kind, perm, uid, gid, devno, target):
    return "%s %d %d %d %d %s" % (kind, perm, uid, gid, devno, tok(target))


class Case:
    __slots__ = ("root", "kind", "perm", "uid", "gid", "devno", "target", "comps", "tag")

    def __init__(self, root, kind, perm, uid, gid, devno, target, comps, tag):
        self.root, self.kind, self.perm, self.uid, self.gid, self.devno = root, kind, perm, uid, gid, devno
        self.target, self.comps, self.tag = target, comps, tag

    def args(self):
        return "%s %s %d %s" % ("NONE" if self.root is None else tok(self.root),
                                node_spec(self.kind, self.perm, self.uid, self.gid, self.devno, self.target),
                                len(self.comps), " ".join(tok(c) for c in self.comps))

    def as_dict(self):
        return {"root": None if self.root is None else tok(self.root), "kind": self.kind, "perm": self.perm, "uid": self.uid,
                "gid": self.gid, "devno": self.devno, "target": tok(self.target), "comps": [tok(c) for c in self.comps]}

    @staticmethod
    def from_dict(d):
        return Case(None if d["root"] is None else untok(d["root"]), d["kind"], d["perm"], d["uid"], d["gid"], d["devno"],
                    untok(d["target"]), [untok(c) for c in d["comps"]], "replay")


def gen_cases(ctx):
    rng = ctx.rng
    strings, nexh = special_strings(ctx, 3 if ctx.quick() else 5)
    nrand = 400 if ctx.quick() else 15000
    strings += [random_string(rng) for _ in range(nrand)]
    cases = []
    cdir = vlib.CORPUS / "C16"
    if cdir.exists():
        for p in sorted(cdir.glob("*.cases.json")):
            cases += [Case.from_dict(d) for d in json.loads(p.read_text())]
    ncorpus = len(cases)

    def numbers():
        return rng.choice(PERMS), rng.choice(IDS), rng.choice(IDS), rng.choice(DEVS)

    for i, s in enumerate(strings):
        p, u, g, d = numbers()
        if valid_name(s):
            # the string as an entry name, every node kind, at depth 1 and below a parent that itself needs quoting
            for k in KINDS:
                comps = [s] if (i + len(k)) % 3 else [b"p q", s]
                cases.append(Case(None, k, p if k != "slink" else 0o777, u, g, d, b"tgt" if k == "slink" else b"", comps, "name"))
            cases.append(Case(b"unp", "file", p, u, g, 0, b"", [s], "name+root"))
        else:
            # refused by describe_tree (".", "..") — the models must refuse too
            if b"\n" not in s and b"\0" not in s and b"/" not in s:
                cases.append(Case(None, "dir", p, u, g, 0, b"", [s], "badname"))
        # the string as a symlink target (slashes allowed) and as --unpack-root
        if b"\n" not in s and b"\0" not in s:
            cases.append(Case(None, "slink", 0o777, u, g, 0, s, [b"l"], "target"))
            cases.append(Case(s, "file", p, u, g, 0, b"", [b"d", b"f"], "root"))
    for s in (b".", b"..", b"...", b".a", b"a."):
        for k in ("dir", "file", "slink"):
            cases.append(Case(None, k, 0o755, 0, 0, 0, b"t", [s], "dots"))
            cases.append(Case(None, k, 0o755, 0, 0, 0, b"t", [s, b"x"], "dots"))
    cases.append(Case(None, "slink", 0o777, 0, 0, 0, b"", [b"l"], "target-empty"))
    cases.append(Case(b"", "file", 0o644, 0, 0, 0, b"", [b"f"], "root-empty"))
    # targets / roots with slashes, long strings
    for _ in range(nrand // 4):
        s = random_string(rng, 120, slash=True)
        cases.append(Case(None, "slink", 0o777, 0, 0, 0, s, [random_string(rng, 12).replace(b"/", b"_") or b"l"], "target/"))
        cases.append(Case(s, "file", 0o600, 0, 0, 0, b"", [b"f g"], "root/"))
    # numeric boundaries, every kind, plain names
    for k in KINDS + ["other"]:
        for p in PERMS:
            for u in IDS:
                cases.append(Case(None, k, p, u, IDS[(IDS.index(u) + 1) % len(IDS)], 0, b"t" if k == "slink" else b"", [b"n"], "num"))
    for k in ("chr", "blk"):
        for d in DEVS + [rng.randint(0, 2**32 - 1) for _ in range(40 if ctx.quick() else 2000)]:
            cases.append(Case(None, k, 0o600, 0, rng.randint(0, 1), d, b"", [b"dev"], "dev"))
    # the root directory (its line carries the root's mode and owner)
    for p in PERMS:
        cases.append(Case(None, "dir", p, rng.choice(IDS), rng.choice(IDS), 0, b"", [], "rootdir"))
    # names of 255 bytes (the longest an image can hold) made of quoting-relevant bytes, long targets and roots
    for j in range(6 if ctx.quick() else 60):
        n1 = bytes(rng.choice([SP, TAB, DQ, BS, CR, HASH, 0x61, 0x80]) for _ in range(255))
        n2 = bytes(rng.choice(b"abc.-") for _ in range(255))
        n2 = n2 if valid_name(n2) else b"x" * 255
        for k in ("file", "dir", "slink"):
            cases.append(Case(rng.choice([None, b"r" * 300 + b" s"]), k, 0o644, 1, 2, 0, random_string(rng, 6000, slash=True), [n2, n1, n2][:1 + j % 3], "long"))
    # line feeds: in a symlink target and in --unpack-root (inside the property: only *names* are LF-free), and in
    # names (outside the property; the printer must still be the modelled one)
    lfs = lf_strings(rng, 12 if ctx.quick() else 400)
    for s in lfs:
        cases.append(Case(None, "slink", 0o777, rng.choice(IDS), 0, 0, s, [b"l"], "lf-target"))
        cases.append(Case(s, "file", 0o644, 0, rng.choice(IDS), 0, b"", [b"d", b"f"], "lf-root"))
        cases.append(Case(s, "dir", 0o755, 0, 0, 0, b"", [b"d"], "lf-root-unused"))
        cases.append(Case(None, "file", 0o644, 0, 0, 0, s, [b"f"], "lf-target-unused"))
        nm = s.replace(b"/", b"_")
        for k in KINDS + ["other"]:
            cases.append(Case(None, k, 0o755, 0, 0, 0, b"t", [nm] if len(nm) % 2 else [nm, b"x"], "lf-name"))
    cases = [c for c in cases if all(b"\0" not in x for x in c.comps)]
    return cases, len(strings), nexh, nrand, ncorpus


def lf_strings(rng, nrand):
    out = [b"a\nb", b"a\n", b"\n", b"\na", b"a\n#b", b"a\n\nb", b"a b\nc", b"a\r\n", b"a\n\r", b"\"\n\"", b"a\\\nb", b"a\n b",
           b"t\npipe p 0644 0 0", b"t\n\tx", b"u/\n/v", b"\n\n"]
    for _ in range(nrand):
        s = bytearray(random_string(rng, 16, slash=True))
        for _ in range(rng.randint(1, 2)):
            s.insert(rng.randint(0, len(s)), LF)
        out.append(bytes(s))
    return out


def gen_split_lines(ctx):
    alpha = [SP, TAB, DQ, BS, 0x61, 0x00]
    maxlen = 6 if ctx.quick() else 8
    lines = []
    for n in range(0, maxlen + 1):
        for t in itertools.product(alpha[:5] if n > 6 else alpha, repeat=n):
            lines.append(bytes(t))
    nexh = len(lines)
    nrand = 2000 if ctx.quick() else 30000
    for _ in range(nrand):
        k = ctx.rng.randint(1, 4000 if ctx.rng.random() < 0.02 else 60)
        lines.append(bytes(ctx.rng.choice([SP, TAB, DQ, BS, BS, DQ, 0x61, 0x62, 0x23, 0x0d, ctx.rng.randint(0, 255)]) for _ in range(k)))
    return lines, nexh, nrand


def gen_numbers(ctx):
    out = []
    digits = b"0123456789"
    for n in range(0, 5):
        for t in itertools.product(b"0178 9a", repeat=n):
            out.append(bytes(t))
    for s in [b"4294967295", b"4294967296", b"07777", b"7777", b"10000", b"18446744073709551615", b"18446744073709551616",
              b"1844674407370955161", b"1844674407370955162", b"18446744073709551610", b"1777777777777777777777",
              b"2000000000000000000000", b"0000000000000000000000000000000000000001", b"-1", b"+1", b" 1", b"1 ", b"0x10"]:
        out.append(s)
    for _ in range(300 if ctx.quick() else 5000):
        k = ctx.rng.randint(1, 24)
        out.append(bytes(ctx.rng.choice(digits) for _ in range(k)))
    out = [s for s in out if b"\0" not in s]
    return out


KEYWORDS = [b"dir", b"slink", b"link", b"nod", b"pipe", b"sock", b"file", b"glob", b"Dir", b"fil", b"", b"#dir", b"\"dir\"", b"d\"ir"]


def gen_packfiles(ctx):
    """structure-aware pack-file contents: mostly well-formed lines with one field perturbed, comments, blank lines, CRLF"""
    rng = ctx.rng
    files = []

    def field_path():
        r = rng.random()
        if r < 0.3:
            return rng.choice([b"/a", b"a/b", b"/", b"\"/\"", b"//a//b/", b"./a", b"a/..", b"../a", b"\"a b\"", b"\"a\\\"b\"", b"\"a\\\\b\"",
                               b"\"a\\nb\"", b"\"a", b"a\"b", b"\"\"", b".", b"a/./b", b"\"a\"b"])
        return b"/" + random_string(rng, 10).replace(b" ", b"_").replace(b"\t", b"_").replace(b"\"", b"q").replace(b"\r", b"r")

    def field_mode():
        return rng.choice([b"0644", b"644", b"0", b"07777", b"10000", b"0788", b"*", b"", b"rw", b"00000000644", b"0644x"])

    def field_id():
        return rng.choice([b"0", b"1000", b"4294967295", b"4294967296", b"*", b"-1", b"0x1", b"12a", b"007"])

    def extra(kw):
        r = rng.random()
        if kw == b"nod":
            return rng.choice([b"c 5 1", b"b 8 0", b"C 1 2", b"B 3 4", b"x 1 2", b"c 1", b"c 1 2 3", b"c a 1", b"c 1 4294967296",
                               b"c 4294967295 4294967295", b"c  4095\t1048575", b"", b"\"c\" \"1\" \"2\""])
        if r < 0.35:
            return b""
        if r < 0.7:
            return rng.choice([b"target", b"\"a b\"", b"a b", b"\"x\\\\y\"", b"\"x\\y\"", b"\"\"", b"\"unterminated", b"t\r", b"#x", b"a\tb c"])
        return random_string(rng, 12)

    for _ in range(300 if ctx.quick() else 5000):
        lines = []
        for _ in range(rng.randint(1, 6)):
            r = rng.random()
            if r < 0.08:
                lines.append(rng.choice([b"", b"   ", b"\t", b"# comment", b"  # indented comment", b"\r", b"\x0b\x0c", b"#"]))
                continue
            kw = rng.choice(KEYWORDS[:7]) if rng.random() < 0.9 else rng.choice(KEYWORDS)
            parts = [kw, b"/" + random_string(rng, 6).translate(None, b' \t"\r\\/') + b"x", b"0%o" % rng.choice(PERMS), b"%d" % rng.choice(IDS), b"%d" % rng.choice(IDS)]
            if rng.random() < 0.35:
                j = rng.randint(1, 4)
                parts[j] = [None, field_path, field_mode, field_id, field_id][j]()
            if rng.random() < 0.05:
                parts = parts[:rng.randint(0, 4)]
            ex = extra(kw)
            if rng.random() < 0.7:
                ex = {b"nod": rng.choice([b"c 5 1", b"b 259 65536", b"C 4095 1048575"]), b"slink": rng.choice([b"tgt", b"\"a b\""]), b"link": b"/x"}.get(kw, rng.choice([b"", b"", b"loc"]) if kw == b"file" else b"")
            sep = rng.choice([b" ", b" ", b"\t", b"  ", b" \t "])
            l = sep.join(parts) + (sep + ex if ex else b"")
            if rng.random() < 0.2:
                l = rng.choice([b" ", b"\t", b"\x0b ", b"\r"]) + l
            if rng.random() < 0.2:
                l = l + rng.choice([b" ", b"\r", b"\t\r", b" \r\r", b"\x0c"])
            lines.append(l.replace(b"\n", b""))
        content = b"\n".join(lines) + (b"\n" if rng.random() < 0.8 else b"")
        files.append(content)
    return files


def gen_trees(ctx, count, maxnodes=25, names=None, need_file=False):
    """random trees in pre-order: list of (depth, kind, perm, uid, gid, devno, target, name); children sorted by name"""
    rng = ctx.rng
    trees = []
    for _ in range(count):
        n = rng.randint(1, maxnodes)

        def name():
            for _ in range(20):
                s = rng.choice(names) if names and rng.random() < 0.5 else random_string(rng, 8)
                if valid_name(s):
                    return s
            return b"n"

        def build(depth, budget):
            kids = {}
            k = rng.randint(1 if depth == 1 else 0, min(6, max(budget[0], 1)))
            if depth == 1 and need_file:
                # rdsquashfs -u with no regular file at all calls qsort(NULL, 0, …) (UBSan: not this property's business)
                nm = name()
                kids[nm] = ([depth, "file", rng.choice(PERMS), rng.choice(IDS), rng.choice(IDS), 0, b"", nm], [])
            for _ in range(k):
                if budget[0] <= 0 and depth > 1:
                    break
                nm = name()
                if nm in kids:
                    continue
                budget[0] -= 1
                kind = rng.choice(KINDS)
                node = [depth, kind, rng.choice(PERMS) if kind != "slink" else 0o777, rng.choice(IDS), rng.choice(IDS),
                        rng.choice(DEVS) if kind in ("chr", "blk") else 0,
                        (random_string(rng, 10, slash=True) if kind == "slink" else b""), nm]
                sub = build(depth + 1, budget) if kind == "dir" and depth < 4 else []
                kids[nm] = (node, sub)
            out = []
            for nm in sorted(kids):
                out.append(tuple(kids[nm][0]))
                out += kids[nm][1]
            return out

        root = (0, "dir", rng.choice(PERMS[1:]), rng.choice(IDS), rng.choice(IDS), 0, b"", b"")
        trees.append([root] + build(1, [n]))
    return trees


def sorted_preorder(nodes):
    """re-sort the depth-1 subtrees of a pre-order node list by the name of their first node (directory order of an image)"""
    groups = []
    for n in nodes:
        if n[0] == 1:
            groups.append([n])
        else:
            groups[-1].append(n)
    groups.sort(key=lambda g: g[0][7])
    return [n for g in groups for n in g]


def tree_line(which, root, tree):
    return "dtree %s %s %d %s" % (which, "NONE" if root is None else tok(root), len(tree),
                                   " ".join("%d %s %s" % (t[0], node_spec(*t[1:7]), tok(t[7])) for t in tree))


def tree_nodes(tree):
    """(comps, node tuple) per node in pre-order"""
    out, stack = [], []
    for t in tree:
        d = t[0]
        stack = stack[:max(d - 1, 0)]
        if d > 0:
            stack.append(t[7])
        out.append((list(stack), t))
    return out


# --------------------------------------------------------------------------------------------------------------
# running harness and model

class Pair:
    def __init__(self, ctx, harness):
        self.ctx, self.harness = ctx, harness
        self.evals = 0
        self.wd = ctx.scratch / "hwd"          # cwd of the harness (the `parsef` op writes its file there)
        self.wd.mkdir(exist_ok=True)

    def impl(self, lines):
        need(len(lines) > 0, "empty script for the harness")
        text = "\n".join(lines) + "\n"
        r = vlib.sh([str(self.harness)], input=text, env=self.ctx.san_env(), timeout=3600, cwd=str(self.wd))
        out = r.stdout.split("\n")
        if out and out[-1] == "":
            out.pop()
        self.evals += len(lines)
        if r.returncode != 0 or len(out) != len(lines):
            k = min(len(out), len(lines) - 1)
            return out, (k, r.returncode, r.stderr[-3000:])
        return out, None

    def model(self, lines):
        need(len(lines) > 0, "empty script for the model driver")
        out = self.ctx.driver(["c16"], "\n".join(lines) + "\n", timeout=3600)       # raises on a non-zero exit status
        need(len(out) == len(lines), "model driver answered %d lines to %d operations" % (len(out), len(lines)))
        return out


def capped(ctx, caps, cat, key, what, replay, found_input, limit=5):
    """report at most `limit` violations per category (each still counted in the evidence)"""
    caps[cat] = caps.get(cat, 0) + 1
    if caps[cat] <= limit:
        ctx.violation(key, what, replay, found_input)


def report_crash(ctx, lines, crash, what):
    k, rc, err = crash
    ctx.violation("crash:" + vlib.sha(lines[k])[:16], "real code aborted (rc=%s) in %s on line %d: %s" % (rc, what, k, err[-600:]),
                  {"op": lines[k], "stderr": err})


def printer_verdict(got, cur, nolf, old):
    """'cur' when the real printer's answer equals the model of the printer in /repo, otherwise None (the second
    component names a regression to an earlier printer)"""
    if got == cur:
        return "cur", ""
    if got == nolf:
        return None, " — it equals the printer without the line-feed test (before 4b35342): a regression of the LF defect"
    return None, (" — it equals the printer of the pinned snapshot (before 96e45c1): a regression of D13" if got == old else "")


# --------------------------------------------------------------------------------------------------------------
# unit level

SEPS = [b",", b" \t", b" ", b",;", b"=", b"a", b"\"", b"\\"]


def gen_long_packfiles(ctx):
    """pack files whose lines straddle the 128 KiB buffer of the file stream (lib/sqfs/src/io/istream.c)"""
    rng = ctx.rng
    out = []
    BUF = 131072
    for variant in range(3 if ctx.quick() else 12):
        lines = []
        size = 0
        # filler lines up to shortly before the boundary, then a line that crosses it, then a few more
        while size < BUF - rng.randint(5, 400):
            l = b"dir /" + bytes(rng.choice(b"abcdefgh") for _ in range(rng.randint(1, 200))) + b"%d 0755 0 0" % len(lines)
            lines.append(l); size += len(l) + 1
        cross = [b"slink /l%d 0777 1 2 \"" % variant + b"t \\\" \\\\" * rng.randint(20, 200) + b"\"",
                 b"file \"/f " + b"x" * rng.randint(300, 900) + b"\" 0644 0 0 \"in put\"",
                 b"nod /n%d 0600 0 0 c 4095 1048575" % variant + b" " * rng.randint(500, 1500)][variant % 3]
        lines.append(cross)
        if variant % 2:
            lines.append(b"slink /long 0777 0 0 " + b"y" * (BUF + rng.randint(1, 5000)))     # one line longer than the buffer
        lines.append(b"pipe /p 0644 0 0")
        if variant % 4 == 3:
            lines.append(b"slink /bad 0777 0 0 \"unterminated " + b"z" * 1000)
        out.append(b"\n".join(lines) + (b"\n" if variant % 2 else b""))
    return out


def run_simple_ops(ctx, pair, stats):
    """split / splitsep / pos / num / esc / dev / mkdev / parse / parsef: real code vs model"""
    rng = ctx.rng
    lines, nexh, nrand = gen_split_lines(ctx)
    ops = []            # (harness op, [model ops whose answers are acceptable])
    cdir = vlib.CORPUS / "C16"
    ncorpus = 0
    if cdir.exists():
        for p in sorted(cdir.glob("*.ops")):
            for l in p.read_text().splitlines():
                l = l.strip()
                if l and not l.startswith("#") and l.split(" ", 1)[0] in ("split", "pos", "num", "parse", "splitsep", "possep", "dev", "mkdev"):
                    ops.append((l, [l])); ncorpus += 1
    for s in lines:
        ops.append(("split " + tok(s), None))
    for s in lines[::7]:
        ops.append(("pos " + tok(s), None))
    nsep = 0
    for i, s in enumerate(lines[::5]):
        sep = SEPS[i % len(SEPS)]
        if i % 3 == 0:
            s = s.replace(b" ", sep[:1])
        ops.append(("splitsep %s %s" % (tok(sep), tok(s)), None)); nsep += 1
        if i % 4 == 0:
            ops.append(("possep %s %s" % (tok(sep), tok(s)), None))
    nums = gen_numbers(ctx)
    for s in nums:
        ops.append(("num 8 4095 " + tok(s), None))
        ops.append(("num 10 4294967295 " + tok(s), None))
    # print_escaped alone: short strings over the quoting alphabet + LF, and random strings
    esc = [b""]
    for n in range(1, 4 if ctx.quick() else 6):
        for t in itertools.product([SP, TAB, DQ, BS, CR, LF, 0x61], repeat=n):
            esc.append(bytes(t))
    esc += [random_string(rng, 60, slash=True) for _ in range(300 if ctx.quick() else 5000)] + lf_strings(rng, 30 if ctx.quick() else 500)
    for s in esc:
        ops.append(("esc x " + tok(s), ["esc cur " + tok(s)]))
    # glibc major/minor/makedev
    devs = DEVS + [0xffffffffffffffff, 0xfffff00000000000, 0x00000ffffff00000, 1 << 32, (1 << 44) - 1] \
        + [rng.getrandbits(32) for _ in range(300 if ctx.quick() else 5000)] + [rng.getrandbits(64) for _ in range(100 if ctx.quick() else 2000)]
    for d in devs:
        ops.append(("dev %d" % d, None))
    mk = [(0, 0), (4095, 255), (4096, 256), (0xffffffff, 0xffffffff), (0xfff, 0xfffff), (0x1000, 0x100000)] \
        + [(rng.getrandbits(rng.choice([8, 12, 20, 32])), rng.getrandbits(rng.choice([8, 20, 32]))) for _ in range(300 if ctx.quick() else 5000)]
    for a, b in mk:
        ops.append(("mkdev %d %d" % (a, b), None))
    files = gen_packfiles(ctx)
    for i, c in enumerate(files):
        o = [("1", 0, "1", 0), ("0", 7, "1", 0), ("1", 0, "0", 4294967295), ("0", 0, "0", 0)][i % 4 if i % 5 == 0 else 0]
        ops.append(("parse %s %d %s %d %s" % (o[0], o[1], o[2], o[3], tok(c)), None))
        if i % 10 == 0:
            # the same content through the real file stream
            ops.append(("parsef %s %d %s %d %s" % (o[0], o[1], o[2], o[3], tok(c)), ["parse %s %d %s %d %s" % (o[0], o[1], o[2], o[3], tok(c))]))
    longs = gen_long_packfiles(ctx)
    for c in longs:
        ops.append(("parsef 1 0 1 0 " + tok(c), ["parse 1 0 1 0 " + tok(c)]))
        ops.append(("parse 1 0 1 0 " + tok(c), None))
    ops = [(o, m if m is not None else [o]) for o, m in ops]
    impl, crash = pair.impl([o for o, _ in ops])
    if crash:
        report_crash(ctx, [o for o, _ in ops], crash, "split/num/esc/dev/parse")
        return
    flat = [x for _, m in ops for x in m]
    mout = pair.model(flat)
    bad = 0
    hist = {}
    pos = 0
    esc_lf_printed = esc_lf_refused = 0
    for (o, m), a in szip(ops, impl):
        answers = mout[pos: pos + len(m)]
        pos += len(m)
        kind = o.split(" ", 1)[0]
        if kind == "esc" and a == "nofn":
            hist["esc:ok"] = hist.get("esc:ok", 0) + 1          # tie lost, already reported by build_harness
            continue
        if kind in ("pos", "possep"):
            answers = [" ".join(x.split(":")[0] for x in b.split(" ")) for b in answers]
        need(a != "bad-op" and "bad-op" not in answers, "operation not understood by harness or driver: %s" % o[:120])
        st = a.split(" ")[0] if kind not in ("parse", "parsef") else a.rsplit("st=", 1)[-1]
        if kind in ("dev", "mkdev"):
            st = "ok"
        hist[kind + ":" + st] = hist.get(kind + ":" + st, 0) + 1
        if kind == "esc" and a.startswith("err"):
            esc_lf_refused += 1
        if a not in answers:
            bad += 1
            if bad <= 5:
                ctx.violation("corr:" + vlib.sha(o)[:16], "real code and model disagree on `%s`: impl=%s model=%s" % (o[:200], a[:300], " | ".join(answers)[:400]),
                              {"op": o, "impl": a, "model": answers, "model_ops": m, "correspondence": "harness/h_c16.c vs lean/Driver/C16.lean"}, found_input=False)
    need(pos == len(mout), "model answers left over")
    for k in ("split:ok", "split:err", "splitsep:ok", "pos:ok", "possep:ok", "num:ok", "num:err", "esc:ok", "dev:ok", "mkdev:ok", "parse:ok", "parsef:ok"):
        need(hist.get(k, 0) > 0, "no operation of class %s was evaluated" % k)
    stats.update({"corpus_ops": ncorpus, "split_lines": len(lines), "split_exhaustive": nexh, "split_random": nrand, "splitsep_lines": nsep,
                  "num_strings": len(nums), "esc_strings": len(esc), "esc_with_lf_refused": esc_lf_refused,
                  "dev_values": len(devs), "mkdev_pairs": len(mk), "packfiles": len(files), "long_packfiles_through_file_stream": len(longs),
                  "parser_branch_histogram": dict(sorted(hist.items())), "parser_disagreements": bad})


def check_cases(ctx, pair, cases, stats):
    need(len(cases) > 0, "no describe cases generated")
    ops_i = ["desc x " + c.args() for c in cases]
    impl, crash = pair.impl(ops_i)
    if crash:
        report_crash(ctx, ops_i, crash, "describe_tree")
        return
    ops_m = []
    for c in cases:
        a = c.args()
        ops_m += ["desc cur " + a, "desc nolf " + a, "desc old " + a, "expect " + a]
    model = pair.model(ops_m)
    # second pass: what the real parser (and its model) decode from the real printer's line
    idx = [i for i, l in enumerate(impl) if l.startswith("ok ")]
    need(len(idx) > 0, "describe_tree printed no line at all")
    ops2 = ["parse 1 0 1 0 " + impl[i][3:] for i in idx]
    impl2, crash2 = pair.impl(ops2)
    if crash2:
        report_crash(ctx, ops2, crash2, "fstree_from_file_stream on describe output")
        return
    model2 = pair.model(ops2)
    dec = {i: (a, b) for i, a, b in szip(idx, impl2, model2)}
    n_cur = n_fix = n_fail = n_err = n_lfname = n_lf_scope = n_rt = 0
    caps = {}
    nontrivial = set()
    known = {}
    samples = []
    tags = {}
    for i, c in enumerate(cases):
        got = impl[i]
        cur, nolf, old, exp = model[4 * i: 4 * i + 4]
        need("bad-op" not in (got, cur, nolf, old, exp), "describe case not understood: %s" % c.args()[:160])
        tags[c.tag] = tags.get(c.tag, 0) + 1
        rep = dict(c.as_dict(), impl=got, model=cur, model_without_lf_test=nolf, expect=exp)
        verdict, regress = printer_verdict(got, cur, nolf, old)
        if verdict == "cur":
            n_cur += 1
            if cur != nolf:
                n_fix += 1          # a string with LF, refused
        if not got.startswith("ok "):
            n_err += 1
            if verdict is None:
                capped(ctx, caps, "corr:desc", "corr:desc:" + vlib.sha(c.args())[:16],
                       "describe_tree refuses a node (or fails differently) where its model does not%s: %s" % (regress, json.dumps(rep)[:900]),
                       dict(rep, correspondence="harness/h_c16_desc.c vs Sqfs.QuoteLF.describeNode"), False)
            continue
        a, b = dec[i]
        rep.update(impl_decoded=a, model_decoded=b)
        nontrivial.add(got)
        if a != b:
            capped(ctx, caps, "corr:parse", "corr:parse:" + vlib.sha(ops2[idx.index(i)])[:16],
                   "parser side disagrees with its model on a describe line: %s" % json.dumps(rep)[:900],
                   dict(rep, correspondence="fstree_from_file.c vs Sqfs.Quote.fstreeFromFile"), False)
        if not in_scope(c.comps):
            # a LF in an entry name: outside the property; only the printer/model tie above applies
            n_lfname += 1
            if verdict is None:
                capped(ctx, caps, "corr:desc", "corr:desc:" + vlib.sha(c.args())[:16],
                       "describe_tree output differs from its model (name with LF)%s: %s" % (regress, json.dumps(rep)[:900]), rep, False)
            continue
        n_rt += 1
        # the specification, evaluated on the implementation's behaviour: printer ∘ parser must yield the node
        if a != exp:
            n_fail += 1
            cause = lf_cause(c.root, c.kind, c.comps, c.target) if got == nolf and cur != nolf else None
            key = "LF:" + cause if cause else "rt:" + vlib.sha(c.args())[:16]
            what = ("describe line for %s is not decoded back to the node by the pack-file parser (%s%s): line=%r decoded=%s expected=%s"
                    % (c.as_dict(), "a line feed in the " + cause + " is printed into the listing" if cause else "unexpected", regress,
                       untok(got[3:]), a, exp))
            known[key if cause else "rt:*"] = known.get(key if cause else "rt:*", 0) + 1
            capped(ctx, caps, key if cause else "rt", key, what[:1200], dict(rep, cls=cause), True, limit=3 if cause else 5)
        elif verdict is None:
            # round trip holds but the printer is no longer the one the theorems are about
            capped(ctx, caps, "corr:desc", "corr:desc:" + vlib.sha(c.args())[:16],
                   "describe_tree output differs from the model of the printer although it decodes to the node%s: %s" % (regress, json.dumps(rep)[:900]),
                   dict(rep, correspondence="harness/h_c16_desc.c vs Sqfs.QuoteLF.describeNode"), False)
        if lf_cause(c.root, c.kind, c.comps, c.target):
            n_lf_scope += 1
        if len(samples) < 6 and (i % 997 == 3):
            samples.append({"case": c.as_dict(), "line": repr(untok(got[3:])), "decoded": a})
    need(n_rt > 1000, "only %d describe lines went through the round trip" % n_rt)
    for t in ("name", "target", "root", "num", "dev", "rootdir", "long", "lf-target", "lf-root", "lf-name", "dots"):
        need(tags.get(t, 0) > 0, "no describe case of class %s" % t)
    stats.update({"desc_cases": len(cases), "desc_case_classes": dict(sorted(tags.items())), "printer_eq_repo_model": n_cur,
                  "refused_for_a_line_feed": n_fix, "desc_refused": n_err, "roundtrips_checked": n_rt,
                  "lines_with_lf_in_target_or_root_printed": n_lf_scope, "out_of_scope_names_tied_only": n_lfname, "roundtrip_failures": n_fail,
                  "roundtrip_failure_keys": dict(sorted(known.items())), "distinct_lines": len(nontrivial), "desc_samples": samples})
    return nontrivial


def check_trees(ctx, pair, trees, stats, roots, min_rt):
    need(len(trees) > 0, "no trees generated")
    ops_i, ops_m, meta = [], [], []
    for i, t in enumerate(trees):
        r = roots[i % len(roots)]
        ops_i.append(tree_line("x", r, t))
        ops_m += [tree_line("cur", r, t), tree_line("nolf", r, t), tree_line("old", r, t), tree_line("etree", r, t).replace("dtree etree ", "etree ", 1)]
        for comps, nd in tree_nodes(t):
            ops_m.append("expect " + Case(r, nd[1], nd[2], nd[3], nd[4], nd[5], nd[6], comps, "tree").args())
        meta.append(r)
    impl, crash = pair.impl(ops_i)
    if crash:
        report_crash(ctx, ops_i, crash, "describe_tree (trees)")
        return
    model = pair.model(ops_m)
    okidx = [i for i, l in enumerate(impl) if l.startswith("ok ")]
    need(len(okidx) > 0, "describe_tree printed no tree at all")
    ops2 = ["parse 1 0 1 0 " + impl[i][3:] for i in okidx]
    impl2, crash2 = pair.impl(ops2)
    if crash2:
        report_crash(ctx, ops2, crash2, "fstree_from_file_stream on describe output (trees)")
        return
    model2 = pair.model(ops2)
    dec = {i: (a, b) for i, a, b in szip(okidx, impl2, model2)}
    pos, fails, n_rt, n_refused, n_named = 0, 0, 0, 0, 0
    caps = {}
    for i, t in enumerate(trees):
        r = meta[i]
        nn = len(t)
        cur, nolf, old, etree = model[pos: pos + 4]
        exps = model[pos + 4: pos + 4 + nn]
        pos += 4 + nn
        got = impl[i]
        need("bad-op" not in (got, cur, nolf, old, etree) and "bad-op" not in exps, "tree not understood: %s" % ops_i[i][:160])
        rep = {"tree": ops_i[i], "impl": got, "model": cur, "model_without_lf_test": nolf}
        verdict, regress = printer_verdict(got, cur, nolf, old)
        if verdict is None:
            capped(ctx, caps, "corr:dtree", "corr:dtree:" + vlib.sha(ops_i[i])[:16], "describe_tree on a tree differs from its model%s: %s" % (regress, json.dumps(rep)[:900]),
                   rep, False)
        named = t[0][7] != b""
        n_named += named
        if not got.startswith("ok "):
            n_refused += 1
            continue
        a, b = dec[i]
        if a != b:
            capped(ctx, caps, "corr:parse", "corr:parse:" + vlib.sha(ops_i[i])[:16], "parser side disagrees with its model on describe output of a tree",
                   dict(rep, impl_decoded=a, model_decoded=b), False)
        if named or not all(in_scope(comps) for comps, _ in tree_nodes(t)):
            continue
        # the specification of the whole tree (`specTree`, the right-hand side of describe_roundtrip) must be the
        # concatenation of the per-node specifications the unit cases use
        ents = [e.split(" ", 2)[2].rsplit(" st=", 1)[0] for e in exps if e.startswith("ents 1 ")]
        want = "ents %d%s st=ok" % (len(ents), "".join(" " + e for e in ents))
        need(etree == want, "specTree and the per-node specEntry disagree on %s" % ops_i[i][:200])
        n_rt += 1
        if a != want:
            fails += 1
            cause = None
            if got == nolf and cur != nolf:
                for comps, nd in tree_nodes(t):
                    cause = lf_cause(r, nd[1], comps, nd[6])
                    if cause:
                        break
            key = "LF:" + cause if cause else "rt:tree:" + vlib.sha(ops_i[i])[:16]
            capped(ctx, caps, key if cause else "rt:tree", key,
                   "describe output of a tree is not decoded back to its nodes (%s%s): decoded=%s expected=%s"
                   % ("a line feed in a " + cause + " is printed into the listing" if cause else "unexpected", regress, a[:400], want[:400]),
                   dict(rep, decoded=a, expected=want, cls=cause), True, limit=2 if cause else 5)
    need(pos == len(model), "model answers left over (trees)")
    need(n_rt >= min_rt, "only %d of %d trees went through the round trip (at least %d expected)" % (n_rt, len(trees), min_rt))
    stats.update({"trees": len(trees), "tree_nodes": sum(len(t) for t in trees), "trees_roundtripped": n_rt, "trees_refused": n_refused,
                  "trees_with_named_root": n_named, "tree_roundtrip_failures": fails})


def special_trees(ctx):
    """trees the random generator does not produce: a parentless node with a name (all kinds), LF in targets"""
    out = []
    for k in KINDS + ["other"]:
        for nm in (b"x", b".", b"..", b"a/b", b"r t"):
            out.append([(0, k, 0o755, 0, 0, 0, b"t", nm)])
            out.append([(0, k, 0o755, 0, 0, 0, b"t", nm), (1, "file", 0o644, 0, 0, 0, b"", b"f")])
    root = (0, "dir", 0o755, 0, 0, 0, b"", b"")
    for tgt in lf_strings(ctx.rng, 4):
        out.append([root, (1, "dir", 0o700, 1, 2, 0, b"", b"d"), (2, "slink", 0o777, 0, 0, 0, tgt, b"l"), (1, "file", 0o644, 0, 0, 0, b"", b"z")])
    # a nameless directory below the root prints nothing itself, its children fail in sqfs_tree_node_get_path
    out.append([root, (1, "dir", 0o755, 0, 0, 0, b"", b""), (2, "file", 0o644, 0, 0, 0, b"", b"f")])
    out.append([root, (1, "dir", 0o755, 0, 0, 0, b"", b"")])
    out.append([root, (1, "other", 0, 0, 0, 0, b"", b"o"), (1, "sock", 0o600, 0, 0, 0, b"", b"s")])
    return out


# --------------------------------------------------------------------------------------------------------------
# the tree in gensquashfs' memory (real lib/fstree below the real fstree_from_file.c)

FS_NAMES = [b"a", b"b", b"c c", b"d\"", b"e\\", b"z", b"a"]


def gen_fs_packfiles(ctx):
    """pack files over a small set of names, so that implicit directories, their later definition, duplicates, files
    used as directories and the root line all occur"""
    rng = ctx.rng
    out = []
    for _ in range(400 if ctx.quick() else 8000):
        lines = []
        for _ in range(rng.randint(1, 12)):
            kw = rng.choice([b"dir", b"dir", b"file", b"slink", b"nod", b"pipe", b"sock", b"link"])
            comps = [rng.choice(FS_NAMES) for _ in range(rng.randint(1, 4))]
            path = rng.choice([b"/", b"", b"//", b"./"]) + rng.choice([b"/", b"/", b"//"]).join(comps) + rng.choice([b"", b"", b"/"])
            if rng.random() < 0.06:
                path = b"/"
            parts = [kw, q(path) if rng.random() < 0.7 or any(c in path for c in b' "\\') else path,
                     b"0%o" % rng.choice(PERMS), b"%d" % rng.choice(IDS), b"%d" % rng.choice(IDS)]
            if kw == b"slink" or kw == b"link":
                parts.append(rng.choice([b"t", b"\"a b\"", b"/x", b"../x", b"a/../b", b"//a//b/", b"."]))
            elif kw == b"nod":
                parts += [rng.choice([b"c", b"b"]), b"%d" % rng.choice([0, 5, 4095, 4096, 4294967295]), b"%d" % rng.choice([0, 1, 255, 1048575, 4294967295])]
            elif kw == b"file" and rng.random() < 0.5:
                parts.append(rng.choice([b"loc", b"\"in put\""]))
            lines.append(b" ".join(parts))
        out.append(b"\n".join(lines) + b"\n")
    # the nesting limit of mknode (SQFS_MAX_DIR_NESTING = 4096): directories at depth 4096 / 4097, defined and implicit,
    # other types below the deepest directory
    deep = lambda n: b"/".join([b"a"] * n)
    out.append(b"dir /" + deep(4096) + b" 0755 0 0\nfile /" + deep(4096) + b"/f 0644 0 0\nlink /" + deep(4096) + b"/l 0 0 0 /x\n")
    out.append(b"dir /" + deep(4097) + b" 0755 0 0\n")
    out.append(b"file /" + deep(4097) + b"/f 0644 0 0\n")
    out.append(b"dir /" + deep(4095) + b" 0755 0 0\ndir /" + deep(4096) + b" 0700 1 1\ndir /" + deep(4096) + b"/b 0755 0 0\n")
    out.append(b"pipe /" + deep(4097) + b" 0644 0 0\nsock /" + deep(4098) + b" 0644 0 0\n")
    return out


def build_fs_harness(ctx):
    lib = ctx.build_lib()
    return ctx.cc("h_c16_fs", ["h_c16_fs.c"], libs=[str(lib)] + vlib.CODEC_LIBS)


def check_fs(ctx, pair, stats):
    """`Sqfs.QuoteFs.buildFromFile` against fstree_from_file_stream on the real lib/fstree; on the real describe output of
    generated trees also against the specification `normTree` (the right-hand side of rebuild_fstree_partial)"""
    pfs = Pair(ctx, build_fs_harness(ctx))
    rng = ctx.rng

    def defaults():
        return "%d %d %d %d" % (rng.choice(IDS), rng.choice(IDS), rng.choice([0o755, 0o700, 0, 0o7777, 0o177777]), rng.choice([0, 1, 1234567890, 4294967295]))

    ops = []
    files = gen_fs_packfiles(ctx) + gen_packfiles(ctx)[::3]
    cdir = vlib.CORPUS / "C16"
    for p in sorted(cdir.glob("*.ops")):
        for l in p.read_text().splitlines():
            if l.startswith("parse "):
                files.append(untok(l.split(" ")[5]))
    for i, c in enumerate(files):
        o = [("1", 0, "1", 0), ("0", 7, "1", 0), ("1", 0, "0", 4294967295)][i % 3 if i % 7 == 0 else 0]
        ops.append("fsbuild %s %d %s %d %s %s" % (o[0], o[1], o[2], o[3], defaults(), tok(c)))
    impl, crash = pfs.impl(ops)
    if crash:
        report_crash(ctx, ops, crash, "fstree_from_file_stream on the real fstree")
        return
    model = pair.model(ops)
    hist, bad = {}, 0
    for o, a, b in szip(ops, impl, model):
        need(a != "bad-op" and b != "bad-op", "fsbuild not understood: %s" % o[:120])
        st = a.rsplit("st=", 1)[-1]
        hist[st] = hist.get(st, 0) + 1
        if a != b:
            bad += 1
            if bad <= 5:
                ctx.violation("corr:fs:" + vlib.sha(o)[:16], "lib/fstree and its model disagree on `%s`: impl=%s model=%s" % (o[:200], a[:400], b[:400]),
                              {"op": o, "impl": a, "model": b, "correspondence": "harness/h_c16_fs.c vs Sqfs.QuoteFs.buildFromFile"}, found_input=False)
    for k in ("ok", "fs:exist", "fs:notdir", "fs:range", "fs:inval", "fs:nametoolong"):
        need(hist.get(k, 0) > 0, "no pack file ended in status %s on the real fstree" % k)
    # real describe output of generated trees → real fstree, against the model and against the specification
    trees = gen_trees(ctx, 80 if ctx.quick() else 3000, maxnodes=30)
    # links with permission bits other than 0777 (a foreign image can hold them; `mknode` normalises them)
    trees = [[(n[0], n[1], rng.choice(PERMS)) + tuple(n[3:]) if n[1] == "slink" and rng.random() < 0.5 else tuple(n) for n in t] for t in trees]
    roots = [None, b"R", b"r s", b"/abs/\"q\"", None]
    dops = [tree_line("x", roots[i % len(roots)], t) for i, t in enumerate(trees)]
    dimpl, crash = pair.impl(dops)
    if crash:
        report_crash(ctx, dops, crash, "describe_tree (trees for the fstree step)")
        return
    ops2, mops2, meta = [], [], []
    for i, (t, l) in enumerate(szip(trees, dimpl)):
        if not l.startswith("ok "):
            continue
        dflt = defaults()
        ops2.append("fsbuild 1 0 1 0 %s %s" % (dflt, l[3:]))
        mops2 += [ops2[-1], tree_line("ntree", roots[i % len(roots)], t).replace("dtree ntree ", "ntree %s " % dflt, 1)]
        meta.append(i)
    need(len(ops2) * 10 >= len(trees) * 9, "describe_tree printed only %d of %d trees" % (len(ops2), len(trees)))
    impl2, crash = pfs.impl(ops2)
    if crash:
        report_crash(ctx, ops2, crash, "fstree_from_file_stream on describe output")
        return
    model2 = pair.model(mops2)
    nspec = nodes = 0
    caps = {}
    for k, (o, a) in enumerate(szip(ops2, impl2)):
        b, spec = model2[2 * k], model2[2 * k + 1]
        need("bad-op" not in (a, b, spec), "fsbuild/ntree not understood: %s" % o[:120])
        if a != b:
            capped(ctx, caps, "corr:fs", "corr:fs:" + vlib.sha(o)[:16], "lib/fstree and its model disagree on the describe output of a tree: impl=%s model=%s" % (a[:400], b[:400]),
                   {"op": o, "impl": a, "model": b, "correspondence": "harness/h_c16_fs.c vs Sqfs.QuoteFs.buildFromFile"}, False)
        # the specification on the implementation's behaviour: the rebuilt in-memory tree is normTree of the original
        nspec += 1
        nodes += int(a.split(" ")[1])
        if a != spec:
            capped(ctx, caps, "rt:fs", "rt:fs:" + vlib.sha(o)[:16],
                   "the tree gensquashfs builds from the describe output is not the original tree: built=%s expected=%s" % (a[:500], spec[:500]),
                   {"tree": dops[meta[k]], "op": o, "built": a, "expected": spec}, True)
    stats.update({"fs_packfiles": len(files), "fs_status_histogram": dict(sorted(hist.items())), "fs_disagreements": bad,
                  "fs_trees_rebuilt_and_compared_with_normTree": nspec, "fs_nodes_rebuilt": nodes})
    pair.evals += pfs.evals


# --------------------------------------------------------------------------------------------------------------
# tool level

def q(s):
    """a pack-file token for an arbitrary NUL/LF-free string (written independently of the Lean model)"""
    return b'"' + s.replace(b"\\", b"\\\\").replace(b'"', b'\\"') + b'"'


def stat_of(ctx, rd, img, path):
    r = vlib.sh([str(rd), "-s", path, str(img)], env=ctx.san_env(), timeout=600, text=False)
    if r.returncode != 0:
        return ("ERR", r.returncode, r.stderr[-300:])
    keep = {}
    out = r.stdout
    lt = out.find(b"\nLink target: ")
    if lt >= 0:
        # the last field of the output; the target may itself contain line feeds
        keep[b"Link target: "] = out[lt + 14:][:-1]
        out = out[:lt + 1]
    for l in out.split(b"\n"):
        for k in (b"Inode type: ", b"Access: ", b"UID: ", b"GID: ", b"Device number: "):
            if l.startswith(k):
                v = l[len(k):]
                if k in (b"UID: ", b"GID: "):
                    v = v.split(b" ")[0]
                if k == b"Inode type: ":
                    v = v.replace(b"extended ", b"")
                keep[k] = v
    need(b"Inode type: " in keep, "rdsquashfs -s output not understood: %r" % r.stdout[:200])
    return tuple(sorted(keep.items()))


def nest(tree):
    """pre-order node list → nested [node, [children…]]"""
    root = [tree[0], []]
    stack = [root]
    for nd in tree[1:]:
        d = nd[0]
        stack = stack[:d]
        n = [nd, []]
        stack[-1][1].append(n)
        stack.append(n)
    return root


def unnest(n, depth=0):
    """nested → pre-order list with the children of every directory in the order of the image (sorted by name)"""
    nd = n[0]
    out = [(depth,) + tuple(nd[1:])]
    for c in sorted(n[1], key=lambda c: c[0][7]):
        out += unnest(c, depth + 1)
    return out


def add_links(ctx, tree, files):
    """add names that are hard links to regular files of the tree (also to other links: chains), in the same or another
    directory, sorting before and after their target.  Returns the tree as `rdsquashfs` will see it (every link is one
    more regular file with the attributes of the file it leads to) and {path of the link: path of its target}."""
    rng = ctx.rng
    root = nest(tree)
    dirs, fpaths = [], {}

    def walk(n, comps):
        if n[0][1] == "dir":
            dirs.append((n, comps))
            for c in n[1]:
                walk(c, comps + [c[0][7]])
        elif n[0][1] == "file":
            fpaths[tuple(comps)] = n[0]
    walk(root, [])
    links = {}
    if not fpaths:
        return tree, links
    for _ in range(rng.randint(1, 4)):
        target = rng.choice(sorted(fpaths))
        final = fpaths[target]
        dn, dcomps = rng.choice(dirs)
        used = {c[0][7] for c in dn[1]}
        for cand in (rng.choice([b"!", b"~", b"", b"l k "]) + rng.choice([target[-1], b"hl", b"h\"l"]))[:200], b"hl%d" % len(links):
            if valid_name(cand) and cand not in used:
                break
        else:
            continue
        node = (len(dcomps) + 1, "file", final[2], final[3], final[4], 0, b"", cand)
        dn[1].append([node, []])
        path = tuple(dcomps + [cand])
        links[path] = target
        fpaths[path] = final
        files[b"/".join(path)] = files[b"/".join(target)]
    return unnest(root), links


def inode_of(ctx, rd, img, path):
    """(inode number, hard link count or None) as `rdsquashfs -s` prints them"""
    r = vlib.sh([str(rd), "-s", path, str(img)], env=ctx.san_env(), timeout=600, text=False)
    need(r.returncode == 0, "rdsquashfs -s %r failed: %r" % (path, r.stderr[-200:]))
    ino = nl = None
    for l in r.stdout.split(b"\n"):
        if l.startswith(b"Inode number: "):
            ino = int(l[14:])
        if l.startswith(b"Hard link count: "):
            nl = int(l[17:])
    need(ino is not None, "rdsquashfs -s prints no inode number: %r" % r.stdout[:200])
    return ino, nl


def tool_roundtrip(ctx, tools, tree, root, files, wd, idx, links=None):
    """returns (status, detail, describe_output_bytes, hard-link statistics); status ∈ ok | fail | infra"""
    links = links or {}
    hl = {"links": len(links), "same_inode_in_original": 0, "same_inode_in_rebuilt": 0}
    gen, rd = tools
    env = ctx.san_env()
    d = wd / ("t%d" % idx)
    (d / "in").mkdir(parents=True)
    nodes = tree_nodes(tree)
    lines = []
    no_slink = False
    for comps, nd in nodes:
        _, kind, perm, uid, gid, devno, target, _ = nd
        path = b"/" + b"/".join(comps)
        base = b" ".join([q(path), b"0%o" % perm, b"%d" % uid, b"%d" % gid])
        if tuple(comps) in links:
            tgt = b"/".join(links[tuple(comps)])
            lines.append(b"link " + b" ".join([q(path), b"0%o" % (idx % 8), b"%d" % (idx % 3), b"0"]) + b" " + q((b"/" if idx % 2 else b"") + tgt))
        elif kind == "dir":
            lines.append(b"dir " + base)
        elif kind == "file":
            fn = "f%d" % len(lines)
            (d / "in" / fn).write_bytes(files[b"/".join(comps)])
            lines.append(b"file " + base + b" " + fn.encode())
        elif kind == "slink":
            lines.append(b"slink " + base + b" " + q(target))
            # the host cannot create an empty or over-long link: unpack without symbolic links (only the files are needed)
            no_slink = no_slink or target == b"" or len(target) > 4000 or len(path) > 3500
        elif kind in ("chr", "blk"):
            maj = ((devno >> 8) & 0xfff)
            mnr = (devno & 0xff) | ((devno >> 12) & 0xfff00)
            lines.append(b"nod " + base + b" %s %d %d" % (b"c" if kind == "chr" else b"b", maj, mnr))
        elif kind == "fifo":
            lines.append(b"pipe " + base)
        elif kind == "sock":
            lines.append(b"sock " + base)
    (d / "pack.txt").write_bytes(b"\n".join(lines) + b"\n")
    A, B = d / "a.sqfs", d / "b.sqfs"
    r = vlib.sh([str(gen), "-q", "-F", str(d / "pack.txt"), "-D", str(d / "in"), str(A)], env=env, timeout=900, text=False)
    if r.returncode != 0:
        # the generated pack file is valid by construction (quoting written independently of the model): the pipeline
        # of the property cannot even start
        return "fail", "gensquashfs refused the generated (valid) pack file (%d): %r" % (r.returncode, r.stderr[-300:]), b"", hl
    for lp, tp in links.items():
        # premise of these cases: the `link` keyword made the two names one inode of the original image
        il, it = inode_of(ctx, rd, A, b"/" + b"/".join(lp)), inode_of(ctx, rd, A, b"/" + b"/".join(tp))
        if il[0] != it[0] or (il[1] or 1) < 2:
            return "fail", "the `link` line for %r did not make a hard link to %r in the original image: inode/nlink %r vs %r" % (lp, tp, il, it), b"", hl
        hl["same_inode_in_original"] += 1
    dargs = [str(rd), "-d"] + (["-p", os.fsdecode(root)] if root is not None else []) + [str(A)]
    r = vlib.sh(dargs, env=env, timeout=900, text=False, cwd=str(d))
    if r.returncode != 0:
        return "fail", "rdsquashfs -d failed (%d): %r" % (r.returncode, r.stderr[-300:]), r.stdout, hl
    listing = r.stdout
    (d / "list.txt").write_bytes(listing)
    uroot = os.fsdecode(root) if root is not None else "unpacked"
    if uroot.startswith("a/../"):
        (d / "a").mkdir(exist_ok=True)
    r = vlib.sh([str(rd), "-q", "-D", "-S", "-F"] + (["-L"] if no_slink else []) + ["-u", "/", "-p", uroot, str(A)], env=env, timeout=900, text=False, cwd=str(d))
    if r.returncode != 0:
        return "fail", "rdsquashfs -u / -p %r failed (%d): %r" % (uroot, r.returncode, r.stderr[-300:]), listing, hl
    gargs = [str(gen), "-q", "-F", "list.txt"] + ([] if root is not None else ["-D", uroot]) + [str(B)]
    r = vlib.sh(gargs, env=env, timeout=900, text=False, cwd=str(d))
    if r.returncode != 0:
        return "fail", "gensquashfs -F <describe output> failed (%d): %r" % (r.returncode, r.stderr[-300:]), listing, hl
    # compare A and B entry by entry
    for comps, nd in nodes:
        path = b"/" + b"/".join(comps)
        sa, sb = stat_of(ctx, rd, A, path), stat_of(ctx, rd, B, path)
        if sa != sb or (sa and sa[0] == "ERR"):
            return "fail", "entry %r differs: original %r rebuilt %r" % (path, sa, sb), listing, hl
        if nd[1] == "file":
            ca = vlib.sh([str(rd), "-c", path, str(A)], env=env, timeout=600, text=False)
            cb = vlib.sh([str(rd), "-c", path, str(B)], env=env, timeout=600, text=False)
            if ca.returncode != 0 or cb.returncode != 0 or ca.stdout != cb.stdout or ca.stdout != files[b"/".join(comps)]:
                return "fail", "contents of %r differ" % path, listing, hl
        if nd[1] == "dir":
            la = vlib.sh([str(rd), "-l", path, str(A)], env=env, timeout=600, text=False)
            lb = vlib.sh([str(rd), "-l", path, str(B)], env=env, timeout=600, text=False)
            if la.returncode != 0 or lb.returncode != 0 or la.stdout != lb.stdout:
                return "fail", "directory %r lists differently: original %r rebuilt %r" % (path, la.stdout[-300:], lb.stdout[-300:]), listing, hl
    for lp, tp in links.items():
        # recorded, not required: describe has no `link` lines, the names come back as independent files
        if inode_of(ctx, rd, B, b"/" + b"/".join(lp))[0] == inode_of(ctx, rd, B, b"/" + b"/".join(tp))[0]:
            hl["same_inode_in_rebuilt"] += 1
    shutil.rmtree(str(d), ignore_errors=True)
    return "ok", "", listing, hl


LF_TOOL_CASES = [("target", b"a\nb", None), ("target", b"a\n#b", None), ("target", b"a b\nc", None), ("location", b"t", b"u\np"),
                 ("location", b"t", b"u\n#")]


def tool_lf_case(ctx, tools, wd, idx, case):
    """An image with a LF in a symlink target (built by scanning a host directory: a pack file cannot express it) or
    an --unpack-root with a LF.  returns (status, detail): refused (diagnostic + non-zero exit) | fail | infra"""
    which, target, root = case
    gen, rd = tools
    env = ctx.san_env()
    d = wd / ("lf%d" % idx)
    (d / "in" / "sub").mkdir(parents=True)
    os.symlink(target, str(d / "in" / "l"))
    (d / "in" / "f").write_bytes(b"payload")
    (d / "in" / "sub" / "g h").write_bytes(b"x" * 300)
    A, B = d / "a.sqfs", d / "b.sqfs"
    r = vlib.sh([str(gen), "-q", "-D", str(d / "in"), str(A)], env=env, timeout=900, text=False)
    need(r.returncode == 0, "gensquashfs --pack-dir failed on the LF test directory: %r" % r.stderr[-300:])
    sa = stat_of(ctx, rd, A, b"/l")
    need(sa[0] != "ERR" and any(target in v for _, v in sa), "the LF test image does not hold the link target: %r" % (sa,))
    dargs = [str(rd), "-d"] + (["-p", os.fsdecode(root)] if root is not None else []) + [str(A)]
    r = vlib.sh(dargs, env=env, timeout=900, text=False, cwd=str(d))
    if r.returncode != 0:
        if r.returncode in (98, 99) or b"line feed" not in r.stderr:
            return "fail", "rdsquashfs -d failed (%d) without the diagnostic for a line feed: %r" % (r.returncode, r.stderr[-300:])
        return "refused", r.stderr[-200:].decode("latin-1")
    listing = r.stdout
    (d / "list.txt").write_bytes(listing)
    uroot = os.fsdecode(root) if root is not None else "unpacked"
    r = vlib.sh([str(rd), "-q", "-L", "-u", "/", "-p", uroot, str(A)], env=env, timeout=900, text=False, cwd=str(d))
    if r.returncode != 0:
        return "fail", "rdsquashfs -u failed (%d): %r" % (r.returncode, r.stderr[-300:])
    gargs = [str(gen), "-q", "-F", "list.txt"] + ([] if root is not None else ["-D", uroot]) + [str(B)]
    r = vlib.sh(gargs, env=env, timeout=900, text=False, cwd=str(d))
    if r.returncode != 0:
        return "fail", "`rdsquashfs -d` printed a listing without complaint, `gensquashfs -F` rejects it (%d): %r; listing %r" % (
            r.returncode, r.stderr[-200:], listing[:300])
    for path in (b"/l", b"/f", b"/sub/g h"):
        sa, sb = stat_of(ctx, rd, A, path), stat_of(ctx, rd, B, path)
        if sa != sb:
            return "fail", "`rdsquashfs -d` printed a listing without complaint, it is accepted, and entry %r of the rebuilt image differs: original %r rebuilt %r" % (path, sa, sb)
        if path != b"/l":
            ca = vlib.sh([str(rd), "-c", path, str(A)], env=env, timeout=600, text=False)
            cb = vlib.sh([str(rd), "-c", path, str(B)], env=env, timeout=600, text=False)
            if ca.returncode != 0 or cb.returncode != 0 or ca.stdout != cb.stdout:
                return "fail", "`rdsquashfs -d` printed a listing without complaint, it is accepted, and the contents of %r differ" % path
    return "fail", "a listing with a line feed in a field was printed and rebuilt the same tree: the pack-file format cannot do that — the check is wrong"


def gen_roots(ctx, names, count):
    """--unpack-root values: fixed quoting cases, then generated relative paths with quoting-relevant components,
    `./`, `..`, doubled and trailing slashes, and an absolute path"""
    rng = ctx.rng
    fixed = [None, b"out", b"un pack", b"a\\b", b"q\"r", b"t\tu", None, b"x/y z", b"out/", b"./o", b"a/../b", b"x//y", b"ABS", b"-x", b"r\r"]
    out = []
    for i in range(count):
        if i < len(fixed):
            out.append(fixed[i]); continue
        comps = [rng.choice(names)[:40] for _ in range(rng.randint(1, 3))]
        r = rng.choice([b"", b"./", b"a/../"]) + rng.choice([b"/", b"//"]).join(comps) + rng.choice([b"", b"", b"/"])
        out.append(r if len(r) < 200 else b"long")
    return out


def long_trees(ctx):
    """names of 255 bytes, a listing line longer than the 128 KiB buffer of the file stream, a line that needs quotes
    and is longer than that"""
    rng = ctx.rng
    root = (0, "dir", 0o755, 0, 0, 0, b"", b"")
    n255 = bytes(rng.choice(b"abcxyz") for _ in range(254)) + b" "
    m255 = b"\"" + bytes(rng.choice(b"abc\\") for _ in range(254))
    # children in the order of the image (sorted by name: '"' < 'a')
    t1 = [root, (1, "dir", 0o755, 0, 0, 0, b"", m255), (2, "dir", 0o700, 1, 1, 0, b"", n255), (3, "slink", 0o777, 0, 0, 0, m255 * 8, m255),
          (3, "file", 0o644, 0, 0, 0, b"", n255), (1, "file", 0o600, 0, 0, 0, b"", n255)]
    t2 = [root, (1, "slink", 0o777, 0, 0, 0, b"y" * (131072 + rng.randint(0, 3000)), b"big"), (1, "file", 0o644, 0, 0, 0, b"", b"f"),
          (1, "slink", 0o777, 0, 0, 0, b"a \"b\" \\" * 20000, b"quoted big")]
    return [t1, t2]


def check_tools(ctx, pair, stats):
    gen = ctx.build_tool("gensquashfs")
    rd = ctx.build_tool("rdsquashfs")
    wd = ctx.scratch / "tool"
    wd.mkdir(exist_ok=True)
    strings, _ = special_strings(ctx, 2)
    names = [s for s in strings if valid_name(s)]
    ntrees = 24 if ctx.quick() else 300
    trees = gen_trees(ctx, ntrees, maxnodes=14 if ctx.quick() else 30, names=names, need_file=True)
    roots = gen_roots(ctx, names, ntrees)
    jobs = []
    # the D13 witnesses (corpus) one by one, each below a root with default attributes so that nothing else fails first
    cdir = vlib.CORPUS / "C16"
    nwit = 0
    if cdir.exists():
        for p in sorted(cdir.glob("*.cases.json")):
            for dct in json.loads(p.read_text()):
                c = Case.from_dict(dct)
                if not c.comps or not all(valid_name(x) for x in c.comps) or b"\n" in c.target or (c.root is not None and b"\n" in c.root):
                    continue
                t = [(0, "dir", 0o755, 0, 0, 0, b"", b"")]
                for depth, nm in enumerate(c.comps[:-1]):
                    t.append((depth + 1, "dir", 0o755, 0, 0, 0, b"", nm))
                t.append((len(c.comps), c.kind, c.perm, c.uid, c.gid, c.devno, c.target, c.comps[-1]))
                if not any(x[1] == "file" for x in t):
                    t.append((1, "file", 0o644, 0, 0, 0, b"", b"~file"))     # sorts after every generated name's first byte ≤ '~'
                    t = [t[0]] + sorted_preorder(t[1:])
                jobs.append((t, c.root)); nwit += 1
    need(nwit >= 10, "only %d corpus witnesses reached the tool level" % nwit)
    for t in long_trees(ctx):
        jobs.append((t, None))
    for i, t in enumerate(trees):
        jobs.append(([tuple(x) for x in t], roots[i]))
    prepared = []
    for i, (t, root) in enumerate(jobs):
        files = {}
        for comps, nd in tree_nodes(t):
            if nd[1] == "file":
                files[b"/".join(comps)] = bytes(ctx.rng.randint(0, 255) for _ in range(ctx.rng.choice([0, 1, 17, 300, 5000])))
        links = {}
        if i >= nwit + 2 and i % 2 == 0:
            # every second generated tree also holds hard-link groups (`link` keyword): rdsquashfs sees one more file per name
            t, links = add_links(ctx, t, files)
        if root == b"ABS":
            root = os.fsencode(str(wd / ("abs%d" % i) / "un pack"))
        prepared.append((t, root, files, i, links))
    from concurrent.futures import ThreadPoolExecutor
    with ThreadPoolExecutor(max_workers=5) as ex:
        def one(a):
            try:
                return tool_roundtrip(ctx, (gen, rd), a[0], a[1], a[2], wd, a[3], a[4])
            except subprocess.TimeoutExpired as e:
                # a loaded machine is not a property violation; the number of such runs is bounded below
                return "timeout", "timeout (machine load): %s" % str(e)[:120], b"", {}
        results = list(ex.map(one, prepared))
        lfres = list(ex.map(lambda a: tool_lf_case(ctx, (gen, rd), wd, a[0], a[1]), enumerate(LF_TOOL_CASES)))
    res = {"ok": 0, "fail": 0, "timeout": 0}
    ops_m, runs = [], []
    hlstat = {"trees_with_links": 0, "links": 0, "same_inode_in_original": 0, "same_inode_in_rebuilt": 0}
    for (t, root, files, i, links), (st, detail, listing, hl) in szip(prepared, results):
        res[st] += 1
        runs.append((t, root, st, detail, listing, links))
        if st == "ok" and hl.get("links"):
            hlstat["trees_with_links"] += 1
            for k in ("links", "same_inode_in_original", "same_inode_in_rebuilt"):
                hlstat[k] += hl[k]
        ops_m += [tree_line("cur", root, t), tree_line("nolf", root, t), tree_line("old", root, t)]
    model = pair.model(ops_m)
    caps = {}
    n_bytes = 0
    for i, (t, root, st, detail, listing, links) in enumerate(runs):
        cur, nolf, old = model[3 * i: 3 * i + 3]
        got = "ok " + tok(listing)
        rep = {"tree": tree_line("x", root, t), "root": None if root is None else tok(root), "status": st, "detail": detail,
               "listing": tok(listing)[:20000],
               "links": {"/".join(tok(x) for x in k): "/".join(tok(x) for x in v) for k, v in links.items()}}
        if st == "timeout":
            continue
        if st == "ok":
            n_bytes += 1
            verdict, regress = printer_verdict(got, cur, nolf, old)
            if verdict is None:
                capped(ctx, caps, "corr:tool", "corr:tool:" + vlib.sha(rep["tree"])[:16],
                       "`rdsquashfs -d` output differs from the printer's model on a generated image%s: got %r" % (regress, listing[:300]),
                       dict(rep, model_cur=cur[:20000]), False)
        if st == "fail":
            capped(ctx, caps, "tool", "tool:" + vlib.sha(rep["tree"])[:16], "tool-level round trip failed: %s" % detail[:700], rep, True)
    lfstat = {"refused": 0, "fail": 0}
    for case, (st, detail) in szip(LF_TOOL_CASES, lfres):
        lfstat[st] += 1
        if st == "fail":
            capped(ctx, caps, "LF:" + case[0], "LF:" + case[0],
                   "tool level, line feed in the %s (%r%s): %s" % (case[0], case[1], "" if case[2] is None else ", --unpack-root %r" % case[2], detail[:700]),
                   {"lf_case": [case[0], tok(case[1]), None if case[2] is None else tok(case[2])], "detail": detail}, True, limit=1)
    # coverage of the clause "together with the files produced by --unpack-path /" must not evaporate
    done = res["ok"] + res["fail"]
    need(res["timeout"] <= 2 and done >= len(jobs) - 2, "tool-level round trips lost: %s of %d (timeouts %d)" % (res, len(jobs), res["timeout"]))
    need(res["ok"] + res["fail"] > 0 and (res["fail"] > 0 or res["ok"] >= len(jobs) - 2), "too few completed tool-level round trips: %s" % res)
    need(res["fail"] > 0 or hlstat["links"] >= 5, "only %d hard links went through the tool-level round trip" % hlstat["links"])
    stats.update({"tool_hard_links": hlstat, "tool_trees": len(jobs), "tool_witness_trees": nwit, "tool_results": res, "tool_listings_compared_with_model": n_bytes,
                  "tool_lf_cases": lfstat, "tool_unpack_roots": sorted({repr(r[1]) for r in prepared})[:40],
                  "tool_timeouts": [r[3][:160] for r in runs if r[2] == "timeout"][:5]})
    pair.evals += len(jobs) + len(LF_TOOL_CASES)


# --------------------------------------------------------------------------------------------------------------

def build_harness(ctx):
    lib = ctx.build_lib()
    try:
        return ctx.cc("h_c16", ["h_c16.c", "h_c16_desc.c"], libs=[str(lib)] + vlib.CODEC_LIBS)
    except vlib.CheckFailure as e:
        # describe.c without a `print_escaped(const char *)`: the direct tie of that function is lost (reported), the
        # rest of the check — describe_tree as a whole, the parser, the tools — still runs
        h = ctx.cc("h_c16", ["h_c16.c", "h_c16_desc.c"], flags=["-DC16_NO_PRINT_ESCAPED"], libs=[str(lib)] + vlib.CODEC_LIBS)
        ctx.violation("corr:print_escaped", "harness/h_c16_desc.c no longer compiles against describe.c's print_escaped(): the model function "
                      "Sqfs.Quote.printEscaped is no longer compared with it directly: %s" % str(e)[-600:],
                      {"correspondence": "harness/h_c16_desc.c: c16_capture_escaped", "error": str(e)[-3000:]}, found_input=False)
        return h


def run(ctx):
    ok, problems = vlib.proof_gate(ctx, MODULE, REQUIRED)
    if not ok:
        ctx.violation("proof:C16", "proof obligations of C16 no longer check: " + " | ".join(problems)[:1500],
                      {"broken": problems, "theorems_file": "lean/Sqfs/Props/C16.lean"}, found_input=False)
    wok, wlog = ctx.lean_build(["Sqfs.Witness.C16"])
    if not wok:
        ctx.violation("proof:C16:witness", "the witness theorems (Sqfs.Witness.C16) no longer build: " + wlog[-800:],
                      {"broken": ["Sqfs.Witness.C16"], "log": wlog[-3000:]}, found_input=False)
    pair = Pair(ctx, build_harness(ctx))
    stats = {}
    run_simple_ops(ctx, pair, stats)
    cases, nstrings, nexh, nrand, ncorpus_cases = gen_cases(ctx)
    need(ncorpus_cases >= 20, "corpus/C16/*.cases.json holds only %d cases" % ncorpus_cases)
    stats["corpus_cases"] = ncorpus_cases
    distinct = check_cases(ctx, pair, cases, stats) or set()
    rtrees = gen_trees(ctx, 60 if ctx.quick() else 3000)
    check_trees(ctx, pair, special_trees(ctx) + rtrees, stats, [None, b"R", b"r s", b"/abs/\"q\"", b"t\\", None, b"u\nv"], (len(rtrees) * 3) // 4)
    check_fs(ctx, pair, stats)
    check_tools(ctx, pair, stats)
    ctx.cov.update(stats)
    ctx.cov.update({
        "evaluations": pair.evals,
        "distinct_nontrivial": len(distinct),
        "rule": "unit level: every quoting-relevant byte (space, tab, '\"', '\\\\', '#', CR, VT, FF, ', 0x80, 0xff, …) first/middle/last/alone/"
                "doubled, all ordered pairs of the six core bytes, every string over {space,tab,'\"','\\\\',CR,'#','a'} up to length %d "
                "(%d strings) and %d seeded random strings, each as entry name of all 7 node kinds, as symlink target and as --unpack-root; "
                "strings with LF as target, --unpack-root (in the property) and name (outside; printer tie only); "
                "numeric boundary values of mode/uid/gid/devno; random trees, trees with a named root, nameless directories through "
                "describe_tree; print_escaped alone on every string over {space,tab,'\"','\\\\',CR,LF,'a'} up to length 3/5 plus random; "
                "split_line on every string over {space,tab,'\"','\\\\','a',NUL} up to length 6/8 plus random lines, also with 8 other "
                "separator sets; parse_uint(_oct) on digit strings; glibc major/minor/makedev on random 32/64-bit values; structure-aware "
                "malformed pack files through a memory stream with 1..61-byte windows and through the real file stream, pack files with "
                "lines across and longer than its 128 KiB buffer.  non-trivial = distinct describe lines produced by the real printer and "
                "decoded by the real parser.  tool level: generated trees (quoting-relevant names, 255-byte names, > 128 KiB lines, generated "
                "--unpack-root values with ./, .., //, trailing slash, absolute) through gensquashfs/rdsquashfs (ASan+UBSan) and back, "
                "compared by rdsquashfs -s/-c/-l; images with LF in a link target built from a host directory.  fstree level: pack files over a small "
                "name set (implicit directories, redefinition, duplicates, files as directories, device numbers out of range) and the real describe "
                "output of generated trees (links with arbitrary modes) through the real lib/fstree."
                % (3 if ctx.quick() else 5, nexh, nrand),
        "exhaustive": False,
        "witness_theorems_build": wok,
        "disagreements_checked": stats.get("roundtrip_failures", 0) + stats.get("tree_roundtrip_failures", 0) + stats.get("parser_disagreements", 0),
    })
    ctx.cov.setdefault("samples", stats.get("desc_samples", []))
    return ctx.finish(LEVEL, trusted_extra=[
        "C strings are modelled as their bytes before the NUL; split_line's in-place rewrite is modelled as read-original/emit-tokens (dst ≤ src: split_dst_le_src)",
        "modelled, not verified directly: lib/util/src/split_line.c, parse_int.c, get_line.c (LTRIM|SKIP_EMPTY path), bin/gensquashfs/src/fstree_from_file.c "
        "(handle_line and callbacks up to the arguments of fstree_add_generic; glob lines excluded), bin/rdsquashfs/src/describe.c (what it prints "
        "before a failure is not modelled, only the class of the failure), lib/common/src/dir_tree.c:sqfs_tree_node_get_path; glibc "
        "major/minor/makedev, printf %o/%u, isspace/isdigit in the C locale",
        "lib/fstree/src/fstree.c is modelled (Sqfs.QuoteFs) as fstree_from_file.c drives it: names as canonicalize_name leaves them, hard-link entries "
        "(`link`) as unresolved leaves; inode numbers, xattr indices and fstree_post_process (hard-link resolution: C07) are not modelled",
        "what happens after the in-memory tree (tree → image) and before describe_tree (image → tree), `rdsquashfs -u` and the contents of files are "
        "not modelled (C01/C06); here they are exercised at tool level only",
    ], assumptions=["entry names contain no LF (the property's quantifier) and no NUL/'/' (cannot occur in an image)",
                    "the round-trip theorems also assume no LF in symlink targets and --unpack-root; with one, the printer refuses "
                    "(describe_newline_sound/_refusal assume nothing about LF) and the check requires the refusal",
                    "rebuild_fstree_partial: sibling names pairwise different, fewer than 2^32 - 3 entries per directory, directories nested at "
                    "most SQFS_MAX_DIR_NESTING deep (the readers hand out nothing else)"])


def replay(ctx, path):
    body = json.loads(open(path).read())
    rp = body.get("replay", {})
    ok, _ = ctx.lean_build(["sqfsmodel"])
    pair = Pair(ctx, build_harness(ctx))
    if "op" in rp and rp["op"].startswith("fsbuild "):
        pfs = Pair(ctx, build_fs_harness(ctx))
        impl, crash = pfs.impl([rp["op"]])
        model = pair.model([rp["op"]])
        print("op      :", rp["op"][:2000]); print("impl    :", [x[:3000] for x in impl], crash); print("model   :", model[0][:3000])
        if "expected" in rp:
            # the in-memory tree gensquashfs builds from a describe output against the specification recorded with it
            if "tree" in rp:
                d = pair.impl([rp["tree"]])[0]
                print("describe:", [x[:2000] for x in d], "(recorded listing %s)" % ("reproduced" if d and d[0][3:] == rp["op"].split(" ")[-1] else "differs now"))
                if d and d[0].startswith("ok "):
                    op2 = " ".join(rp["op"].split(" ")[:-1] + [d[0][3:]])
                    impl, crash = pfs.impl([op2])
                    print("impl on the present listing:", [x[:3000] for x in impl], crash)
            print("expected:", rp["expected"][:3000])
            return 1 if crash or not impl or impl[0] != rp["expected"] else 0
        return 1 if crash or not impl or impl[0] != model[0] else 0
    if "comps" in rp:
        c = Case.from_dict(rp)
        impl, crash = pair.impl(["desc x " + c.args()])
        model = pair.model(["desc cur " + c.args(), "desc nolf " + c.args(), "desc old " + c.args(), "expect " + c.args()])
        print("node   :", c.as_dict())
        print("impl   :", impl, "crash:", crash)
        print("model  : repo=%s without-lf-test=%s" % (model[0], model[1]))
        print("expect :", model[3])
        verdict = printer_verdict(impl[0], model[0], model[1], model[2])[0] if impl else None
        print("printer matches model:", verdict)
        if crash or not impl or not impl[0].startswith("ok "):
            return 1 if (crash or verdict is None) else 0
        print("line   : %r" % untok(impl[0][3:]))
        dec, crash2 = pair.impl(["parse 1 0 1 0 " + impl[0][3:]])
        print("decoded:", dec, "crash:", crash2)
        bad = crash2 or (in_scope(c.comps) and dec[0] != model[3])
        print("round trip", "FAILS" if bad else "holds")
        return 1 if (bad or verdict is None) else 0
    if "lf_case" in rp:
        which, target, root = rp["lf_case"]
        gen, rd = ctx.build_tool("gensquashfs"), ctx.build_tool("rdsquashfs")
        wd = ctx.scratch / "tool"; wd.mkdir(exist_ok=True)
        st, detail = tool_lf_case(ctx, (gen, rd), wd, 0, (which, untok(target), None if root is None else untok(root)))
        print("status:", st, detail)
        return 1 if st == "fail" else 0
    if "tree" in rp and "listing" in rp:
        # tool-level: re-run the whole pipeline on the recorded tree
        parts = rp["tree"].split(" ")
        cnt = int(parts[3])
        tree = []
        for i in range(cnt):
            f = parts[4 + 8 * i: 12 + 8 * i]
            tree.append((int(f[0]), f[1], int(f[2]), int(f[3]), int(f[4]), int(f[5]), untok(f[6]), untok(f[7])))
        root = None if rp.get("root") is None else untok(rp["root"])
        gen, rd = ctx.build_tool("gensquashfs"), ctx.build_tool("rdsquashfs")
        files = {b"/".join(c): b"replay" for c, nd in tree_nodes(tree) if nd[1] == "file"}
        wd = ctx.scratch / "tool"; wd.mkdir(exist_ok=True)
        links = {tuple(untok(x) for x in k.split("/")): tuple(untok(x) for x in v.split("/")) for k, v in rp.get("links", {}).items()}
        for lp, tp in links.items():
            files[b"/".join(lp)] = files[b"/".join(tp)] = b"replay"
        st, detail, listing, _ = tool_roundtrip(ctx, (gen, rd), tree, root, files, wd, 0, links)
        print("status:", st, detail)
        print("listing:\n" + listing[:4000].decode("latin-1"))
        return 1 if st == "fail" else 0
    if "tree" in rp:
        impl, crash = pair.impl([rp["tree"]])
        print("impl:", [x[:2000] for x in impl], crash)
        if crash or not impl[0].startswith("ok "):
            return 1 if crash else 0
        dec, _ = pair.impl(["parse 1 0 1 0 " + impl[0][3:]])
        print("output:\n" + untok(impl[0][3:])[:4000].decode("latin-1"))
        print("decoded :", dec[0][:2000])
        print("expected:", str(rp.get("expected"))[:2000])
        return 1 if dec[0] != rp.get("expected") else 0
    if "op" in rp:
        impl, crash = pair.impl([rp["op"]])
        mops = rp.get("model_ops") or [rp["op"]]
        model = pair.model(mops)
        print("op:", rp["op"][:2000]); print("impl :", [x[:2000] for x in impl], crash); print("model:", [x[:2000] for x in model])
        return 1 if crash or impl[0] not in model else 0
    print("replay file names a broken obligation, no input to replay:", json.dumps(rp)[:500])
    return 1
