"""
C16 — `rdsquashfs --describe` output is valid `gensquashfs --pack-file` input rebuilding the tree.

Proof: lean/Sqfs/Props/C16.lean over lean/Sqfs/Model/Quote.lean (repaired printer ∘ unchanged parser = identity,
for all names/targets/locations without NUL/LF).  The printer of the pinned snapshot is modelled separately
(lean/Sqfs/Model/QuoteOld.lean) and provably violates the property (lean/Sqfs/Witness/C16.lean, defect D13).

Tie (every run, real code from the working tree under ASan+UBSan):
  unit level — harness/h_c16.c (+ h_c16_desc.c): the real split_line / parse_uint / istream_get_line /
    fstree_from_file_stream+handle_line (fstree_add_generic replaced by a recorder) and the real describe_tree on
    nodes built in the harness, against `sqfsmodel c16`, byte for byte;
  tool level — gensquashfs → image A → rdsquashfs -d [-p R] + rdsquashfs -u / -p R → gensquashfs -F → image B;
    A and B compared entry by entry through rdsquashfs -s / -c / -l (stat.c, not describe.c).

The real printer must equal the repaired model or the snapshot model on every input; where it equals the snapshot
model and the round trip fails, the failure is defect D13 (key by input class, listed in known_findings.d/C16.json
until the fix is committed); anything else is a fresh violation.
"""
import itertools, json, os, subprocess, hashlib
import vlib

LEVEL = "proof"
MODULE = "Sqfs.Props.C16"
REQUIRED = ["Sqfs.C16.split_print_roundtrip", "Sqfs.C16.handle_print_roundtrip", "Sqfs.C16.handle_print_roundtrip_line",
            "Sqfs.C16.describe_roundtrip", "Sqfs.C16.split_never_fuel", "Sqfs.C16.split_dst_le_src", "Sqfs.C16.parse_print_dec",
            "Sqfs.C16.parse_print_mode", "Sqfs.C16.device_number_roundtrip"]

SP, TAB, DQ, BS, CR, HASH = 0x20, 0x09, 0x22, 0x5c, 0x0d, 0x23
CORE = [SP, TAB, DQ, BS, CR, HASH]
EXTRA = [0x0b, 0x0c, 0x27, 0x80, 0xff, 0x2a, 0x01, 0x7f]
KINDS = ["dir", "file", "slink", "chr", "blk", "fifo", "sock"]
IFMT = {"dir": 0o040000, "file": 0o100000, "slink": 0o120000, "chr": 0o020000, "blk": 0o060000, "fifo": 0o010000,
        "sock": 0o140000, "other": 0}


def tok(b):
    return b.hex() if b else "-"


def untok(t):
    return b"" if t == "-" else bytes.fromhex(t)


# --------------------------------------------------------------------------------------------------------------
# classification of a failing round trip by the input class that the snapshot printer gets wrong (D13)

def old_name_cause(path):
    quoted = (b" " in path) or (b'"' in path)
    if quoted and b"\\" in path:
        return "name:backslash"
    if not quoted and b"\t" in path:
        return "name:tab"
    return None


def old_verbatim_cause(field, s):
    if s == b"":
        return field + ":empty"
    if b" " in s or b"\t" in s:
        return field + ":sep"
    if s[:1] == b'"':
        return field + ":leading-dquote"
    if s[-1:] == b"\r":
        return field + ":trailing-cr"
    return None


def d13_cause(root, kind, comps, target):
    """first reason why the snapshot printer's line for this node does not decode to the node (None: it does)"""
    if kind == "other":
        return None
    if not comps:
        return "root-dir" if kind == "dir" else None
    path = b"/".join(comps)
    c = old_name_cause(path)
    if c:
        return c
    if kind == "slink":
        return old_verbatim_cause("target", target)
    if kind == "file" and root is not None:
        return old_verbatim_cause("location", root + b"/" + path)
    return None


# --------------------------------------------------------------------------------------------------------------
# generators

def special_strings(ctx, exh_len):
    out = []
    for b in CORE + EXTRA:
        c = bytes([b])
        out += [c, c + b"ab", b"a" + c + b"b", b"ab" + c, c + c, c + b"a" + c]
    for b1 in CORE:
        for b2 in CORE:
            out += [bytes([b1, b2]), b"x" + bytes([b1, b2]), bytes([b1]) + b"x" + bytes([b2]), bytes([b1, b2]) + b"x"]
    alpha = [SP, TAB, DQ, BS, CR, HASH, 0x61]
    nexh = 0
    for n in range(1, exh_len + 1):
        for t in itertools.product(alpha, repeat=n):
            out.append(bytes(t)); nexh += 1
    return out, nexh


def random_string(rng, maxlen=40, slash=False):
    n = rng.randint(1, maxlen)
    pool = CORE * 3 + EXTRA + [0x61, 0x62, 0x2e, 0x2d]
    if slash:
        pool = pool + [0x2f, 0x2f]
    s = bytearray()
    for _ in range(n):
        r = rng.random()
        if r < 0.45:
            s.append(rng.choice(pool))
        elif r < 0.8:
            s.append(rng.randint(0x61, 0x7a))
        else:
            b = rng.randint(1, 255)
            if b == 0x0a or (b == 0x2f and not slash):
                b = 0x5c
            s.append(b)
    return bytes(s)


def valid_name(s):
    return s not in (b"", b".", b"..") and b"/" not in s and b"\n" not in s and b"\0" not in s and len(s) <= 255


PERMS = [0, 0o7777, 0o644, 0o755, 0o4711, 0o1000]
IDS = [0, 1, 1000, 65535, 65536, 4294967295]
DEVS = [0, 0x0101, 0xfff00, 0xffffffff, 0xfffff0ff, 0x000fffff, 0x12345678, 259 << 8 | 7]


def node_spec(kind, perm, uid, gid, devno, target):
    return "%s %d %d %d %d %s" % (kind, perm, uid, gid, devno, tok(target))


class Case:
    __slots__ = ("root", "kind", "perm", "uid", "gid", "devno", "target", "comps", "tag")

    def __init__(self, root, kind, perm, uid, gid, devno, target, comps, tag):
        self.root, self.kind, self.perm, self.uid, self.gid, self.devno = root, kind, perm, uid, gid, devno
        self.target, self.comps, self.tag = target, comps, tag

    def args(self):
        return "%s %s %d %s" % ("NONE" if self.root is None else tok(self.root),
                                node_spec(self.kind, self.perm, self.uid, self.gid, self.devno, self.target),
                                len(self.comps), " ".join(tok(c) for c in self.comps))

    def as_dict(self):
        return {"root": None if self.root is None else tok(self.root), "kind": self.kind, "perm": self.perm, "uid": self.uid,
                "gid": self.gid, "devno": self.devno, "target": tok(self.target), "comps": [tok(c) for c in self.comps]}

    @staticmethod
    def from_dict(d):
        return Case(None if d["root"] is None else untok(d["root"]), d["kind"], d["perm"], d["uid"], d["gid"], d["devno"],
                    untok(d["target"]), [untok(c) for c in d["comps"]], "replay")


def gen_cases(ctx):
    rng = ctx.rng
    strings, nexh = special_strings(ctx, 3 if ctx.quick() else 5)
    nrand = 400 if ctx.quick() else 15000
    strings += [random_string(rng) for _ in range(nrand)]
    cases = []
    cdir = vlib.CORPUS / "C16"
    if cdir.exists():
        for p in sorted(cdir.glob("*.cases.json")):
            cases += [Case.from_dict(d) for d in json.loads(p.read_text())]
    ncorpus = len(cases)

    def numbers():
        return rng.choice(PERMS), rng.choice(IDS), rng.choice(IDS), rng.choice(DEVS)

    for i, s in enumerate(strings):
        p, u, g, d = numbers()
        if valid_name(s):
            # the string as an entry name, every node kind, at depth 1 and below a parent that itself needs quoting
            for k in KINDS:
                comps = [s] if (i + len(k)) % 3 else [b"p q", s]
                cases.append(Case(None, k, p if k != "slink" else 0o777, u, g, d, b"tgt" if k == "slink" else b"", comps, "name"))
            cases.append(Case(b"unp", "file", p, u, g, 0, b"", [s], "name+root"))
        else:
            # refused by describe_tree (".", "..") — the models must refuse too
            if b"\n" not in s and b"\0" not in s and b"/" not in s:
                cases.append(Case(None, "dir", p, u, g, 0, b"", [s], "badname"))
        # the string as a symlink target (slashes allowed) and as --unpack-root
        if b"\n" not in s and b"\0" not in s:
            cases.append(Case(None, "slink", 0o777, u, g, 0, s, [b"l"], "target"))
            cases.append(Case(s, "file", p, u, g, 0, b"", [b"d", b"f"], "root"))
    for s in (b".", b"..", b"...", b".a", b"a."):
        for k in ("dir", "file", "slink"):
            cases.append(Case(None, k, 0o755, 0, 0, 0, b"t", [s], "dots"))
            cases.append(Case(None, k, 0o755, 0, 0, 0, b"t", [s, b"x"], "dots"))
    cases.append(Case(None, "slink", 0o777, 0, 0, 0, b"", [b"l"], "target-empty"))
    cases.append(Case(b"", "file", 0o644, 0, 0, 0, b"", [b"f"], "root-empty"))
    # targets / roots with slashes, long strings
    for _ in range(nrand // 4):
        s = random_string(rng, 120, slash=True)
        cases.append(Case(None, "slink", 0o777, 0, 0, 0, s, [random_string(rng, 12).replace(b"/", b"_") or b"l"], "target/"))
        cases.append(Case(s, "file", 0o600, 0, 0, 0, b"", [b"f g"], "root/"))
    # numeric boundaries, every kind, plain names
    for k in KINDS + ["other"]:
        for p in PERMS:
            for u in IDS:
                cases.append(Case(None, k, p, u, IDS[(IDS.index(u) + 1) % len(IDS)], 0, b"t" if k == "slink" else b"", [b"n"], "num"))
    for k in ("chr", "blk"):
        for d in DEVS + [rng.randint(0, 2**32 - 1) for _ in range(40 if ctx.quick() else 2000)]:
            cases.append(Case(None, k, 0o600, 0, rng.randint(0, 1), d, b"", [b"dev"], "dev"))
    # the root directory (its line carries the root's mode and owner)
    for p in PERMS:
        cases.append(Case(None, "dir", p, rng.choice(IDS), rng.choice(IDS), 0, b"", [], "rootdir"))
    cases = [c for c in cases if all(b"\n" not in x and b"\0" not in x for x in c.comps)]
    return cases, len(strings), nexh, nrand, ncorpus


def gen_split_lines(ctx):
    alpha = [SP, TAB, DQ, BS, 0x61, 0x00]
    maxlen = 6 if ctx.quick() else 8
    lines = []
    for n in range(0, maxlen + 1):
        for t in itertools.product(alpha[:5] if n > 6 else alpha, repeat=n):
            lines.append(bytes(t))
    nexh = len(lines)
    nrand = 2000 if ctx.quick() else 30000
    for _ in range(nrand):
        k = ctx.rng.randint(1, 4000 if ctx.rng.random() < 0.02 else 60)
        lines.append(bytes(ctx.rng.choice([SP, TAB, DQ, BS, BS, DQ, 0x61, 0x62, 0x23, 0x0d, ctx.rng.randint(0, 255)]) for _ in range(k)))
    return lines, nexh, nrand


def gen_numbers(ctx):
    out = []
    digits = b"0123456789"
    for n in range(0, 5):
        for t in itertools.product(b"0178 9a", repeat=n):
            out.append(bytes(t))
    for s in [b"4294967295", b"4294967296", b"07777", b"7777", b"10000", b"18446744073709551615", b"18446744073709551616",
              b"1844674407370955161", b"1844674407370955162", b"18446744073709551610", b"1777777777777777777777",
              b"2000000000000000000000", b"0000000000000000000000000000000000000001", b"-1", b"+1", b" 1", b"1 ", b"0x10"]:
        out.append(s)
    for _ in range(300 if ctx.quick() else 5000):
        k = ctx.rng.randint(1, 24)
        out.append(bytes(ctx.rng.choice(digits) for _ in range(k)))
    out = [s for s in out if b"\0" not in s]
    return out


KEYWORDS = [b"dir", b"slink", b"link", b"nod", b"pipe", b"sock", b"file", b"glob", b"Dir", b"fil", b"", b"#dir", b"\"dir\"", b"d\"ir"]


def gen_packfiles(ctx):
    """structure-aware pack-file contents: mostly well-formed lines with one field perturbed, comments, blank lines, CRLF"""
    rng = ctx.rng
    files = []

    def field_path():
        r = rng.random()
        if r < 0.3:
            return rng.choice([b"/a", b"a/b", b"/", b"\"/\"", b"//a//b/", b"./a", b"a/..", b"../a", b"\"a b\"", b"\"a\\\"b\"", b"\"a\\\\b\"",
                               b"\"a\\nb\"", b"\"a", b"a\"b", b"\"\"", b".", b"a/./b", b"\"a\"b"])
        return b"/" + random_string(rng, 10).replace(b" ", b"_").replace(b"\t", b"_").replace(b"\"", b"q").replace(b"\r", b"r")

    def field_mode():
        return rng.choice([b"0644", b"644", b"0", b"07777", b"10000", b"0788", b"*", b"", b"rw", b"00000000644", b"0644x"])

    def field_id():
        return rng.choice([b"0", b"1000", b"4294967295", b"4294967296", b"*", b"-1", b"0x1", b"12a", b"007"])

    def extra(kw):
        r = rng.random()
        if kw == b"nod":
            return rng.choice([b"c 5 1", b"b 8 0", b"C 1 2", b"B 3 4", b"x 1 2", b"c 1", b"c 1 2 3", b"c a 1", b"c 1 4294967296",
                               b"c 4294967295 4294967295", b"c  4095\t1048575", b"", b"\"c\" \"1\" \"2\""])
        if r < 0.35:
            return b""
        if r < 0.7:
            return rng.choice([b"target", b"\"a b\"", b"a b", b"\"x\\\\y\"", b"\"x\\y\"", b"\"\"", b"\"unterminated", b"t\r", b"#x", b"a\tb c"])
        return random_string(rng, 12)

    for _ in range(300 if ctx.quick() else 5000):
        lines = []
        for _ in range(rng.randint(1, 6)):
            r = rng.random()
            if r < 0.08:
                lines.append(rng.choice([b"", b"   ", b"\t", b"# comment", b"  # indented comment", b"\r", b"\x0b\x0c", b"#"]))
                continue
            kw = rng.choice(KEYWORDS[:7]) if rng.random() < 0.9 else rng.choice(KEYWORDS)
            parts = [kw, b"/" + random_string(rng, 6).translate(None, b' \t"\r\\/') + b"x", b"0%o" % rng.choice(PERMS), b"%d" % rng.choice(IDS), b"%d" % rng.choice(IDS)]
            if rng.random() < 0.35:
                j = rng.randint(1, 4)
                parts[j] = [None, field_path, field_mode, field_id, field_id][j]()
            if rng.random() < 0.05:
                parts = parts[:rng.randint(0, 4)]
            ex = extra(kw)
            if rng.random() < 0.7:
                ex = {b"nod": rng.choice([b"c 5 1", b"b 259 65536", b"C 4095 1048575"]), b"slink": rng.choice([b"tgt", b"\"a b\""]), b"link": b"/x"}.get(kw, rng.choice([b"", b"", b"loc"]) if kw == b"file" else b"")
            sep = rng.choice([b" ", b" ", b"\t", b"  ", b" \t "])
            l = sep.join(parts) + (sep + ex if ex else b"")
            if rng.random() < 0.2:
                l = rng.choice([b" ", b"\t", b"\x0b ", b"\r"]) + l
            if rng.random() < 0.2:
                l = l + rng.choice([b" ", b"\r", b"\t\r", b" \r\r", b"\x0c"])
            lines.append(l.replace(b"\n", b""))
        content = b"\n".join(lines) + (b"\n" if rng.random() < 0.8 else b"")
        files.append(content)
    return files


def gen_trees(ctx, count, maxnodes=25, names=None, need_file=False):
    """random trees in pre-order: list of (depth, kind, perm, uid, gid, devno, target, name); children sorted by name"""
    rng = ctx.rng
    trees = []
    for _ in range(count):
        n = rng.randint(1, maxnodes)

        def name():
            for _ in range(20):
                s = rng.choice(names) if names and rng.random() < 0.5 else random_string(rng, 8)
                if valid_name(s):
                    return s
            return b"n"

        def build(depth, budget):
            kids = {}
            k = rng.randint(1 if depth == 1 else 0, min(6, max(budget[0], 1)))
            if depth == 1 and need_file:
                # rdsquashfs -u with no regular file at all calls qsort(NULL, 0, …) (UBSan: not this property's business)
                nm = name()
                kids[nm] = ([depth, "file", rng.choice(PERMS), rng.choice(IDS), rng.choice(IDS), 0, b"", nm], [])
            for _ in range(k):
                if budget[0] <= 0 and depth > 1:
                    break
                nm = name()
                if nm in kids:
                    continue
                budget[0] -= 1
                kind = rng.choice(KINDS)
                node = [depth, kind, rng.choice(PERMS) if kind != "slink" else 0o777, rng.choice(IDS), rng.choice(IDS),
                        rng.choice(DEVS) if kind in ("chr", "blk") else 0,
                        (random_string(rng, 10, slash=True) if kind == "slink" else b""), nm]
                sub = build(depth + 1, budget) if kind == "dir" and depth < 4 else []
                kids[nm] = (node, sub)
            out = []
            for nm in sorted(kids):
                out.append(tuple(kids[nm][0]))
                out += kids[nm][1]
            return out

        root = (0, "dir", rng.choice(PERMS[1:]), rng.choice(IDS), rng.choice(IDS), 0, b"", b"")
        trees.append([root] + build(1, [n]))
    return trees


def sorted_preorder(nodes):
    """re-sort the depth-1 subtrees of a pre-order node list by the name of their first node (directory order of an image)"""
    groups = []
    for n in nodes:
        if n[0] == 1:
            groups.append([n])
        else:
            groups[-1].append(n)
    groups.sort(key=lambda g: g[0][7])
    return [n for g in groups for n in g]


def tree_line(which, root, tree):
    return "dtree %s %s %d %s" % (which, "NONE" if root is None else tok(root), len(tree),
                                   " ".join("%d %s %s" % (t[0], node_spec(*t[1:7]), tok(t[7])) for t in tree))


def tree_nodes(tree):
    """(comps, node tuple) per node in pre-order"""
    out, stack = [], []
    for t in tree:
        d = t[0]
        stack = stack[:max(d - 1, 0)]
        if d > 0:
            stack.append(t[7])
        out.append((list(stack), t))
    return out


# --------------------------------------------------------------------------------------------------------------
# running harness and model

class Pair:
    def __init__(self, ctx, harness):
        self.ctx, self.harness = ctx, harness
        self.evals = 0

    def impl(self, lines):
        text = "\n".join(lines) + "\n"
        r = vlib.sh([str(self.harness)], input=text, env=self.ctx.san_env(), timeout=3600)
        out = r.stdout.split("\n")
        if out and out[-1] == "":
            out.pop()
        self.evals += len(lines)
        if r.returncode != 0 or len(out) != len(lines):
            k = min(len(out), len(lines) - 1)
            return out, (k, r.returncode, r.stderr[-3000:])
        return out, None

    def model(self, lines):
        return self.ctx.driver(["c16"], "\n".join(lines) + "\n", timeout=3600)


def capped(ctx, caps, cat, key, what, replay, found_input, limit=5):
    """report at most `limit` violations per category (each still counted in the evidence)"""
    caps[cat] = caps.get(cat, 0) + 1
    if caps[cat] <= limit:
        ctx.violation(key, what, replay, found_input)


def norm_err(l):
    return "err" if l.startswith("err") else l


def report_crash(ctx, lines, crash, what):
    k, rc, err = crash
    ctx.violation("crash:" + vlib.sha(lines[k])[:16], "real code aborted (rc=%s) in %s on line %d: %s" % (rc, what, k, err[-600:]),
                  {"op": lines[k], "stderr": err})


# --------------------------------------------------------------------------------------------------------------
# unit level

def run_simple_ops(ctx, pair, stats):
    """split / pos / num / parse: real code vs model"""
    lines, nexh, nrand = gen_split_lines(ctx)
    ops = []
    cdir = vlib.CORPUS / "C16"
    ncorpus = 0
    if cdir.exists():
        for p in sorted(cdir.glob("*.ops")):
            for l in p.read_text().splitlines():
                if l.strip() and not l.startswith("#"):
                    ops.append(l.strip()); ncorpus += 1
    for s in lines:
        ops.append("split " + tok(s))
    for s in lines[::7]:
        ops.append("pos " + tok(s))
    nums = gen_numbers(ctx)
    for s in nums:
        ops.append("num 8 4095 " + tok(s))
        ops.append("num 10 4294967295 " + tok(s))
    files = gen_packfiles(ctx)
    for i, c in enumerate(files):
        o = [("1", 0, "1", 0), ("0", 7, "1", 0), ("1", 0, "0", 4294967295), ("0", 0, "0", 0)][i % 4 if i % 5 == 0 else 0]
        ops.append("parse %s %d %s %d %s" % (o[0], o[1], o[2], o[3], tok(c)))
    # corpus "desc" lines are answered by the harness without new/old distinction; skip them here
    ops = [o for o in ops if not o.startswith("desc ") and not o.startswith("dtree ") and not o.startswith("expect ")]
    impl, crash = pair.impl(ops)
    if crash:
        report_crash(ctx, ops, crash, "split/num/parse")
        return
    model = pair.model(ops)
    bad = 0
    hist = {}
    for o, a, b in zip(ops, impl, model):
        if o.startswith("pos "):
            b = " ".join(x.split(":")[0] for x in b.split(" "))
            # the write cursor never overtakes the read cursor (checked on the model's trace of the same line)
        kind = o.split(" ", 1)[0]
        st = a.split(" ")[0] if kind != "parse" else a.rsplit("st=", 1)[-1]
        hist[kind + ":" + st] = hist.get(kind + ":" + st, 0) + 1
        if a != b:
            bad += 1
            if bad <= 5:
                ctx.violation("corr:" + vlib.sha(o)[:16], "parser side: real code and model disagree on `%s`: impl=%s model=%s" % (o[:200], a[:300], b[:300]),
                              {"op": o, "impl": a, "model": b, "correspondence": "harness/h_c16.c vs lean/Driver/C16.lean"}, found_input=False)
    stats.update({"corpus_ops": ncorpus, "split_lines": len(lines), "split_exhaustive": nexh, "split_random": nrand,
                  "num_strings": len(nums), "packfiles": len(files), "parser_branch_histogram": dict(sorted(hist.items())),
                  "parser_disagreements": bad})


def check_cases(ctx, pair, cases, stats):
    ops_i = ["desc x " + c.args() for c in cases]
    impl, crash = pair.impl(ops_i)
    if crash:
        report_crash(ctx, ops_i, crash, "describe_tree")
        return
    ops_m = []
    for c in cases:
        a = c.args()
        ops_m += ["desc new " + a, "desc old " + a, "expect " + a]
    model = pair.model(ops_m)
    # second pass: what the real parser (and its model) decode from the real printer's line
    idx = [i for i, l in enumerate(impl) if l.startswith("ok ")]
    ops2 = ["parse 1 0 1 0 " + impl[i][3:] for i in idx]
    impl2, crash2 = pair.impl(ops2)
    if crash2:
        report_crash(ctx, ops2, crash2, "fstree_from_file_stream on describe output")
        return
    model2 = pair.model(ops2)
    dec = {i: (a, b) for i, a, b in zip(idx, impl2, model2)}
    n_new = n_old = n_both = n_fail = n_err = 0
    caps = {}
    nontrivial = set()
    known = {}
    samples = []
    for i, c in enumerate(cases):
        got = norm_err(impl[i])
        new, old, exp = norm_err(model[3 * i]), norm_err(model[3 * i + 1]), model[3 * i + 2]
        rep = dict(c.as_dict(), impl=impl[i], model_new=model[3 * i], model_old=model[3 * i + 1], expect=exp)
        matches = got in (new, old)
        if got == new and got == old:
            n_both += 1
        elif got == new:
            n_new += 1
        elif got == old:
            n_old += 1
        if got == "err":
            n_err += 1
            if not matches:
                capped(ctx, caps, "corr:desc", "corr:desc:" + vlib.sha(c.args())[:16],
                       "describe_tree refuses a node that both printer models accept (or vice versa): %s" % json.dumps(rep)[:900],
                       dict(rep, correspondence="harness/h_c16_desc.c vs Sqfs.Quote.describeNode / Sqfs.QuoteOld.describeNode"), False)
            continue
        a, b = dec[i]
        rep.update(impl_decoded=a, model_decoded=b)
        nontrivial.add(impl[i])
        if a != b:
            capped(ctx, caps, "corr:parse", "corr:parse:" + vlib.sha(ops2[idx.index(i)])[:16],
                   "parser side disagrees with its model on a describe line: %s" % json.dumps(rep)[:900],
                   dict(rep, correspondence="fstree_from_file.c vs Sqfs.Quote.fstreeFromFile"), False)
        # the specification, evaluated on the implementation's behaviour: printer ∘ parser must yield the node
        if a != exp:
            n_fail += 1
            cause = d13_cause(c.root, c.kind, c.comps, c.target) if (got == old and got != new) else None
            key = "D13:" + cause if cause else "rt:" + vlib.sha(c.args())[:16]
            what = ("describe line for %s is not decoded back to the node by the pack-file parser (class %s): line=%r decoded=%s expected=%s"
                    % (c.as_dict(), cause or "unexpected", untok(impl[i][3:]), a, exp))
            known[key if cause else "rt:*"] = known.get(key if cause else "rt:*", 0) + 1
            capped(ctx, caps, key if cause else "rt", key, what[:1200], dict(rep, cls=cause), True, limit=3 if cause else 5)
        elif not matches:
            # round trip holds but the printer is no longer the one the theorems are about
            capped(ctx, caps, "corr:desc", "corr:desc:" + vlib.sha(c.args())[:16],
                   "describe_tree output matches neither the repaired nor the snapshot model of the printer: %s" % json.dumps(rep)[:900],
                   dict(rep, correspondence="harness/h_c16_desc.c vs Sqfs.Quote.describeNode / Sqfs.QuoteOld.describeNode"), False)
        if len(samples) < 6 and (i % 997 == 3):
            samples.append({"case": c.as_dict(), "line": repr(untok(impl[i][3:])), "decoded": a})
    stats.update({"desc_cases": len(cases), "printer_eq_both_models": n_both, "printer_eq_repaired_only": n_new,
                  "printer_eq_snapshot_only": n_old, "desc_refused": n_err, "roundtrip_failures": n_fail,
                  "roundtrip_failure_keys": dict(sorted(known.items())), "distinct_lines": len(nontrivial), "desc_samples": samples})
    return nontrivial


def check_trees(ctx, pair, trees, stats, roots):
    ops_i, ops_m, meta = [], [], []
    for i, t in enumerate(trees):
        r = roots[i % len(roots)]
        ops_i.append(tree_line("x", r, t))
        ops_m += [tree_line("new", r, t), tree_line("old", r, t)]
        for comps, nd in tree_nodes(t):
            ops_m.append("expect " + Case(r, nd[1], nd[2], nd[3], nd[4], nd[5], nd[6], comps, "tree").args())
        meta.append(r)
    impl, crash = pair.impl(ops_i)
    if crash:
        report_crash(ctx, ops_i, crash, "describe_tree (trees)")
        return
    model = pair.model(ops_m)
    ops2 = ["parse 1 0 1 0 " + l[3:] for l in impl if l.startswith("ok ")]
    impl2, crash2 = pair.impl(ops2)
    if crash2:
        report_crash(ctx, ops2, crash2, "fstree_from_file_stream on describe output (trees)")
        return
    model2 = pair.model(ops2)
    pos, j, fails = 0, 0, 0
    caps = {}
    for i, t in enumerate(trees):
        r = meta[i]
        nn = len(t)
        new, old = norm_err(model[pos]), norm_err(model[pos + 1])
        exps = model[pos + 2: pos + 2 + nn]
        pos += 2 + nn
        got = norm_err(impl[i])
        rep = {"tree": ops_i[i], "impl": impl[i], "model_new": new, "model_old": old}
        if got not in (new, old):
            capped(ctx, caps, "corr:dtree", "corr:dtree:" + vlib.sha(ops_i[i])[:16], "describe_tree on a tree matches neither printer model: %s" % json.dumps(rep)[:900],
                   rep, False)
            if got.startswith("ok "):
                j += 1
            continue
        if not got.startswith("ok "):
            continue
        a, b = impl2[j], model2[j]
        j += 1
        if a != b:
            capped(ctx, caps, "corr:parse", "corr:parse:" + vlib.sha(ops2[j - 1])[:16], "parser side disagrees with its model on describe output of a tree",
                   dict(rep, impl_decoded=a, model_decoded=b), False)
        ents = [e.split(" ", 2)[2].rsplit(" st=", 1)[0] for e in exps if e.startswith("ents 1 ")]
        want = "ents %d%s st=ok" % (len(ents), "".join(" " + e for e in ents))
        if a != want:
            fails += 1
            cause = None
            if got == old and got != new:
                for comps, nd in tree_nodes(t):
                    cause = d13_cause(r, nd[1], comps, nd[6])
                    if cause:
                        break
            key = "D13:" + cause if cause else "rt:tree:" + vlib.sha(ops_i[i])[:16]
            capped(ctx, caps, key if cause else "rt:tree", key,
                   "describe output of a tree is not decoded back to its nodes (class %s): decoded=%s expected=%s" % (cause or "unexpected", a[:400], want[:400]),
                   dict(rep, decoded=a, expected=want, cls=cause), True, limit=2 if cause else 5)
    stats.update({"trees": len(trees), "tree_nodes": sum(len(t) for t in trees), "tree_roundtrip_failures": fails})


# --------------------------------------------------------------------------------------------------------------
# tool level

def q(s):
    """a pack-file token for an arbitrary NUL/LF-free string (written independently of the Lean model)"""
    return b'"' + s.replace(b"\\", b"\\\\").replace(b'"', b'\\"') + b'"'


def stat_of(ctx, rd, img, path):
    r = vlib.sh([str(rd), "-s", path, str(img)], env=ctx.san_env(), timeout=600, text=False)
    if r.returncode != 0:
        return ("ERR", r.returncode, r.stderr[-300:])
    keep = {}
    for l in r.stdout.split(b"\n"):
        for k in (b"Inode type: ", b"Access: ", b"UID: ", b"GID: ", b"Link target: ", b"Device number: "):
            if l.startswith(k):
                v = l[len(k):]
                if k in (b"UID: ", b"GID: "):
                    v = v.split(b" ")[0]
                if k == b"Inode type: ":
                    v = v.replace(b"extended ", b"")
                keep[k] = v
    return tuple(sorted(keep.items()))


def tool_roundtrip(ctx, tools, tree, root, files, wd, idx):
    """returns (status, detail, describe_output_bytes)"""
    gen, rd = tools
    env = ctx.san_env()
    d = wd / ("t%d" % idx)
    (d / "in").mkdir(parents=True)
    nodes = tree_nodes(tree)
    lines = []
    for comps, nd in nodes:
        _, kind, perm, uid, gid, devno, target, _ = nd
        path = b"/" + b"/".join(comps)
        base = b" ".join([q(path), b"0%o" % perm, b"%d" % uid, b"%d" % gid])
        if kind == "dir":
            lines.append(b"dir " + base)
        elif kind == "file":
            fn = "f%d" % len(lines)
            (d / "in" / fn).write_bytes(files[b"/".join(comps)])
            lines.append(b"file " + base + b" " + fn.encode())
        elif kind == "slink":
            lines.append(b"slink " + base + b" " + q(target))
        elif kind in ("chr", "blk"):
            maj = ((devno >> 8) & 0xfff)
            mnr = (devno & 0xff) | ((devno >> 12) & 0xfff00)
            lines.append(b"nod " + base + b" %s %d %d" % (b"c" if kind == "chr" else b"b", maj, mnr))
        elif kind == "fifo":
            lines.append(b"pipe " + base)
        elif kind == "sock":
            lines.append(b"sock " + base)
    (d / "pack.txt").write_bytes(b"\n".join(lines) + b"\n")
    A, B = d / "a.sqfs", d / "b.sqfs"
    r = vlib.sh([str(gen), "-q", "-F", str(d / "pack.txt"), "-D", str(d / "in"), str(A)], env=env, timeout=900, text=False)
    if r.returncode != 0:
        return "skip", "gensquashfs refused the generated pack file: %r" % r.stderr[-200:], b""
    dargs = [str(rd), "-d"] + (["-p", os.fsdecode(root)] if root is not None else []) + [str(A)]
    r = vlib.sh(dargs, env=env, timeout=900, text=False, cwd=str(d))
    if r.returncode != 0:
        return "fail", "rdsquashfs -d failed (%d): %r" % (r.returncode, r.stderr[-300:]), r.stdout
    listing = r.stdout
    (d / "list.txt").write_bytes(listing)
    uroot = os.fsdecode(root) if root is not None else "unpacked"
    r = vlib.sh([str(rd), "-q", "-D", "-S", "-F", "-u", "/", "-p", uroot, str(A)], env=env, timeout=900, text=False, cwd=str(d))
    if r.returncode != 0:
        return "skip", "rdsquashfs -u failed (%d): %r" % (r.returncode, r.stderr[-300:]), listing
    gargs = [str(gen), "-q", "-F", "list.txt"] + ([] if root is not None else ["-D", uroot]) + [str(B)]
    r = vlib.sh(gargs, env=env, timeout=900, text=False, cwd=str(d))
    if r.returncode != 0:
        return "fail", "gensquashfs -F <describe output> failed (%d): %r" % (r.returncode, r.stderr[-300:]), listing
    # compare A and B entry by entry
    for comps, nd in nodes:
        path = b"/" + b"/".join(comps)
        sa, sb = stat_of(ctx, rd, A, path), stat_of(ctx, rd, B, path)
        if sa != sb or (sa and sa[0] == "ERR"):
            return "fail", "entry %r differs: original %r rebuilt %r" % (path, sa, sb), listing
        if nd[1] == "file":
            ca = vlib.sh([str(rd), "-c", path, str(A)], env=env, timeout=600, text=False)
            cb = vlib.sh([str(rd), "-c", path, str(B)], env=env, timeout=600, text=False)
            if ca.returncode != 0 or cb.returncode != 0 or ca.stdout != cb.stdout or ca.stdout != files[b"/".join(comps)]:
                return "fail", "contents of %r differ" % path, listing
        if nd[1] == "dir":
            la = vlib.sh([str(rd), "-l", path, str(A)], env=env, timeout=600, text=False)
            lb = vlib.sh([str(rd), "-l", path, str(B)], env=env, timeout=600, text=False)
            if la.returncode != 0 or lb.returncode != 0 or la.stdout.count(b"\n") != lb.stdout.count(b"\n"):
                return "fail", "directory %r has a different number of entries" % path, listing
    return "ok", "", listing


def check_tools(ctx, pair, stats):
    gen = ctx.build_tool("gensquashfs")
    rd = ctx.build_tool("rdsquashfs")
    wd = ctx.scratch / "tool"
    wd.mkdir(exist_ok=True)
    strings, _ = special_strings(ctx, 2)
    names = [s for s in strings if valid_name(s)]
    ntrees = 10 if ctx.quick() else 300
    trees = gen_trees(ctx, ntrees, maxnodes=14 if ctx.quick() else 30, names=names, need_file=True)
    roots = [None, b"out", b"un pack", b"a\\b", b"q\"r", b"t\tu", None, b"x/y z"]
    res = {"ok": 0, "skip": 0, "fail": 0}
    ops_m, runs = [], []
    jobs = []
    # the D13 witnesses (corpus) one by one, each below a root with default attributes so that nothing else fails first
    cdir = vlib.CORPUS / "C16"
    nwit = 0
    if cdir.exists():
        for p in sorted(cdir.glob("*.cases.json")):
            for d in json.loads(p.read_text()):
                c = Case.from_dict(d)
                if not c.comps or not all(valid_name(x) for x in c.comps):
                    continue
                t = [(0, "dir", 0o755, 0, 0, 0, b"", b"")]
                for depth, nm in enumerate(c.comps[:-1]):
                    t.append((depth + 1, "dir", 0o755, 0, 0, 0, b"", nm))
                t.append((len(c.comps), c.kind, c.perm, c.uid, c.gid, c.devno, c.target, c.comps[-1]))
                if not any(x[1] == "file" for x in t):
                    t.append((1, "file", 0o644, 0, 0, 0, b"", b"~file"))     # sorts after every generated name's first byte ≤ '~'
                    t = [t[0]] + sorted_preorder(t[1:])
                jobs.append((t, c.root)); nwit += 1
    for i, t in enumerate(trees):
        jobs.append(([tuple(x) for x in t], roots[i % len(roots)]))
    prepared = []
    for i, (t, root) in enumerate(jobs):
        files = {}
        for comps, nd in tree_nodes(t):
            if nd[1] == "file":
                files[b"/".join(comps)] = bytes(ctx.rng.randint(0, 255) for _ in range(ctx.rng.choice([0, 1, 17, 300, 5000])))
        prepared.append((t, root, files, i))
    from concurrent.futures import ThreadPoolExecutor
    with ThreadPoolExecutor(max_workers=3) as ex:
        def one(a):
            try:
                return tool_roundtrip(ctx, (gen, rd), a[0], a[1], a[2], wd, a[3])
            except subprocess.TimeoutExpired as e:
                # a loaded machine is not a property violation: the run is recorded as skipped
                return "skip", "timeout (machine load): %s" % str(e)[:120], b""
        results = list(ex.map(one, prepared))
    for (t, root, files, i), (st, detail, listing) in zip(prepared, results):
        res[st] += 1
        runs.append((t, root, st, detail, listing))
        ops_m += [tree_line("new", root, t), tree_line("old", root, t)]
    model = pair.model(ops_m) if ops_m else []
    caps = {}
    for i, (t, root, st, detail, listing) in enumerate(runs):
        new, old = model[2 * i], model[2 * i + 1]
        got = "ok " + tok(listing)
        rep = {"tree": tree_line("x", root, t), "root": None if root is None else tok(root), "status": st, "detail": detail,
               "listing": tok(listing)}
        if st == "skip":
            continue
        if got not in (new, old):
            if st != "fail":
                capped(ctx, caps, "corr:tool", "corr:tool:" + vlib.sha(rep["tree"])[:16],
                       "`rdsquashfs -d` output matches neither printer model on a generated image: got %r" % listing[:300], dict(rep, model_new=new, model_old=old),
                       False)
                continue
        if st == "fail":
            cause = None
            if got == old and got != new:
                for comps, nd in tree_nodes(t):
                    cause = d13_cause(root, nd[1], comps, nd[6])
                    if cause:
                        break
            key = "D13:" + cause if cause else "tool:" + vlib.sha(rep["tree"])[:16]
            capped(ctx, caps, key if cause else "tool", key, "tool-level round trip failed (class %s): %s" % (cause or "unexpected", detail[:600]),
                   dict(rep, cls=cause), True, limit=2 if cause else 5)
    stats.update({"tool_trees": len(jobs), "tool_witness_trees": nwit, "tool_results": res,
                  "tool_skipped": [r[3][:160] for r in runs if r[2] == "skip"][:5]})
    pair.evals += len(jobs)


# --------------------------------------------------------------------------------------------------------------

def build_harness(ctx):
    lib = ctx.build_lib()
    return ctx.cc("h_c16", ["h_c16.c", "h_c16_desc.c"], libs=[str(lib)] + vlib.CODEC_LIBS)


def run(ctx):
    ok, problems = vlib.proof_gate(ctx, MODULE, REQUIRED)
    if not ok:
        ctx.violation("proof:C16", "proof obligations of C16 no longer check: " + " | ".join(problems)[:1500],
                      {"broken": problems, "theorems_file": "lean/Sqfs/Props/C16.lean"}, found_input=False)
    wok, wlog = ctx.lean_build(["Sqfs.Witness.C16"])
    if not wok:
        ctx.log("witness theorems (Sqfs.Witness.C16) do not build:", wlog[-800:])
    pair = Pair(ctx, build_harness(ctx))
    stats = {}
    run_simple_ops(ctx, pair, stats)
    cases, nstrings, nexh, nrand, ncorpus_cases = gen_cases(ctx)
    stats["corpus_cases"] = ncorpus_cases
    distinct = check_cases(ctx, pair, cases, stats) or set()
    trees = gen_trees(ctx, 60 if ctx.quick() else 3000)
    check_trees(ctx, pair, trees, stats, [None, b"R", b"r s", b"/abs/\"q\"", b"t\\", None])
    check_tools(ctx, pair, stats)
    ctx.cov.update(stats)
    ctx.cov.update({
        "evaluations": pair.evals,
        "distinct_nontrivial": len(distinct),
        "rule": "unit level: every quoting-relevant byte (space, tab, '\"', '\\\\', '#', CR, VT, FF, ', 0x80, 0xff, …) first/middle/last/alone/"
                "doubled, all ordered pairs of the six core bytes, every string over {space,tab,'\"','\\\\',CR,'#','a'} up to length %d "
                "(%d strings) and %d seeded random strings, each as entry name of all 7 node kinds, as symlink target and as --unpack-root; "
                "numeric boundary values of mode/uid/gid/devno; random trees through describe_tree; split_line on every string over "
                "{space,tab,'\"','\\\\','a',NUL} up to length 6/8 plus random lines; parse_uint(_oct) on digit strings; structure-aware "
                "malformed pack files.  non-trivial = distinct describe lines produced by the real printer and decoded by the real parser. "
                "tool level: generated trees through gensquashfs/rdsquashfs (ASan+UBSan) and back, compared by rdsquashfs -s/-c/-l."
                % (3 if ctx.quick() else 5, nexh, nrand),
        "exhaustive": False,
        "witness_theorems_build": wok,
        "disagreements_checked": stats.get("roundtrip_failures", 0) + stats.get("tree_roundtrip_failures", 0) + stats.get("parser_disagreements", 0),
    })
    ctx.cov.setdefault("samples", stats.get("desc_samples", []))
    return ctx.finish(LEVEL, trusted_extra=[
        "C strings are modelled as their bytes before the NUL; split_line's in-place rewrite is modelled as read-original/emit-tokens (dst ≤ src: split_dst_le_src)",
        "modelled, not verified directly: lib/util/src/split_line.c, parse_int.c, get_line.c (LTRIM|SKIP_EMPTY path), bin/gensquashfs/src/fstree_from_file.c "
        "(handle_line and callbacks up to the arguments of fstree_add_generic; glob lines excluded), bin/rdsquashfs/src/describe.c, "
        "lib/common/src/dir_tree.c:sqfs_tree_node_get_path; glibc major/minor/makedev, printf %o/%u, isspace/isdigit in the C locale",
        "what happens after fstree_add_generic (tree → image) and before describe_tree (image → tree) is C01's subject; here it is exercised at tool level only",
    ], assumptions=["entry names contain no LF (the property's quantifier) and no NUL/'/' (cannot occur in an image)"])


def replay(ctx, path):
    body = json.loads(open(path).read())
    rp = body.get("replay", {})
    ok, _ = ctx.lean_build(["sqfsmodel"])
    pair = Pair(ctx, build_harness(ctx))
    if "comps" in rp:
        c = Case.from_dict(rp)
        impl, crash = pair.impl(["desc x " + c.args()])
        model = pair.model(["desc new " + c.args(), "desc old " + c.args(), "expect " + c.args()])
        print("node   :", c.as_dict())
        print("impl   :", impl, "crash:", crash)
        print("model  : new=%s old=%s" % (model[0], model[1]))
        print("expect :", model[2])
        matches = bool(impl) and norm_err(impl[0]) in (norm_err(model[0]), norm_err(model[1]))
        print("printer matches a model:", matches)
        if crash or not impl or not impl[0].startswith("ok "):
            return 1 if (crash or not matches) else 0
        print("line   : %r" % untok(impl[0][3:]))
        dec, crash2 = pair.impl(["parse 1 0 1 0 " + impl[0][3:]])
        print("decoded:", dec, "crash:", crash2)
        bad = crash2 or dec[0] != model[2]
        print("round trip", "FAILS" if bad else "holds")
        return 1 if (bad or not matches) else 0
    if "tree" in rp and "listing" in rp:
        # tool-level: re-run the whole pipeline on the recorded tree
        parts = rp["tree"].split(" ")
        cnt = int(parts[3])
        tree = []
        for i in range(cnt):
            f = parts[4 + 8 * i: 12 + 8 * i]
            tree.append((int(f[0]), f[1], int(f[2]), int(f[3]), int(f[4]), int(f[5]), untok(f[6]), untok(f[7])))
        root = None if rp.get("root") is None else untok(rp["root"])
        gen, rd = ctx.build_tool("gensquashfs"), ctx.build_tool("rdsquashfs")
        files = {b"/".join(c): b"replay" for c, nd in tree_nodes(tree) if nd[1] == "file"}
        wd = ctx.scratch / "tool"; wd.mkdir(exist_ok=True)
        st, detail, listing = tool_roundtrip(ctx, (gen, rd), tree, root, files, wd, 0)
        print("status:", st, detail)
        print("listing:\n" + listing.decode("latin-1"))
        return 1 if st == "fail" else 0
    if "tree" in rp:
        impl, crash = pair.impl([rp["tree"]])
        print("impl:", impl, crash)
        if crash or not impl[0].startswith("ok "):
            return 1 if crash else 0
        dec, _ = pair.impl(["parse 1 0 1 0 " + impl[0][3:]])
        print("output:\n" + untok(impl[0][3:]).decode("latin-1"))
        print("decoded :", dec[0])
        print("expected:", rp.get("expected"))
        return 1 if dec[0] != rp.get("expected") else 0
    if "op" in rp:
        impl, crash = pair.impl([rp["op"]])
        model = pair.model([rp["op"]])
        print("op:", rp["op"]); print("impl :", impl, crash); print("model:", model)
        return 1 if crash or impl != model else 0
    print("replay file names a broken obligation, no input to replay:", json.dumps(rp)[:500])
    return 1
