"""
C05 — reading an untrusted image never corrupts memory, hangs or aborts.

Proof: Sqfs/Props/C05.lean (bounds-check logic of every reader routine with the C integer widths: all accesses in
bounds for all field values; termination of the directory walks).  Tie, three layers, all on the working tree
compiled with ASan+UBSan:
  A. routine level — harness/h_c05.c runs the real meta reader, data reader (get_block / get_fragment / stream),
     read_inode, read_dir_ent, unpack_dir_index_entry and resolve_path on generated field values (boundary-heavy)
     over an in-memory image and a toy codec; `sqfsmodel c05` answers the same lines; status classes must agree.
     `sqfsmodel c05 current` (the unrepaired logic) says, per line, whether the current code leaves a buffer
     (UNSAFE): a crash or a disagreement it predicts is the recorded defect, anything else is a violation.
     The generators are themselves under test: `sqfsmodel c05 sens` answers every line also with the mutated models of
     lean/Sqfs/Model/ReaderMut.lean (each modelled comparison moved by one); every mutant must be told apart by the
     deterministic boundary groups (SENS_FLOOR), every decompressor class must be produced (CODEC_FLOORS).
  B. walk level — random directory graphs (cycles, shared sub-directories) forged into images; rdsquashfs -d and
     sqfs2tar against `readTree` / `tarWalk` of the model (node count / LINK_LOOP / divergence).
  C. tool level — images from the independent forge (tools/sqfs_forge_c05.py) and from the real gensquashfs, mutated
     field by field and byte-wise, through rdsquashfs (-l -s -c -x -d -u), sqfs2tar, sqfsdiff and the library-API
     driver harness/h_c05_api.c, each with a wall-clock limit and an RSS limit.  Oracle: normal exit (success or
     error): no sanitizer report, signal or timeout.
"""
import base64, json, os, re, shutil, struct, subprocess, time
from concurrent.futures import ThreadPoolExecutor
import vlib
import sqfs_forge_c05 as F

LEVEL = "proof"
MODULE = "Sqfs.Props.C05"
REQUIRED = ["Sqfs.C05." + n for n in (
    "meta_seek_safe", "meta_read_safe", "meta_read_terminates", "meta_history_safe", "get_block_safe",
    "get_fragment_safe", "stream_fill_safe", "data_read_safe", "read_table_safe", "read_table_terminates", "read_inode_file_safe", "read_inode_slink_safe",
    "read_inode_dir_ext_safe", "read_dir_ent_safe", "readdir_progress", "unpack_dir_index_safe",
    "resolve_compare_safe", "fill_dir_terminates", "dir_rec_terminates",
    "fill_dir_nodes_linear", "dir_rec_nodes_linear", "fill_dir_depth_bounded", "dir_rec_depth_bounded",
    "fill_dir_v_terminates", "dir_rec_v_terminates",
    "super_read_safe", "id_table_read_safe", "index_to_id_safe", "frag_table_read_safe", "frag_lookup_safe",
    "xattr_load_safe", "xattr_get_desc_safe", "xattr_seek_kv_safe", "xattr_read_key_safe", "xattr_read_value_safe",
    "xattr_read_safe", "xattr_read_all_safe", "xattr_read_all_terminates", "open_dir_states",
    "dir_entry_from_inode_safe", "read_link_safe", "exTree_refs")]

# known-finding keys (exactly the strings in known_findings.d/C05.json)
K_D3 = "D3:sqfs_meta_reader_read:after-failed-seek"
K_D4 = "D4:dr_stream_get_buffered_data:on-disk-size>block_size"
K_D5 = "D5:sqfs_data_reader_get_fragment:frag_off+frag_sz-wraps"
K_D19 = "D19:sqfs_dir_reader_resolve_path:entry-name-with-NUL"
K_D25 = "D25:sqfs_inode_unpack_dir_index_entry:unchecked-record"
K_D17 = "D17:dir_rec:directory-cycle"
K_DAG = "D17:shared-subdirectory-blowup"
K_DEEP = "D26:fill_dir:recursion-depth"
K_D27 = "D27:sqfs_xattr_reader_seek_kv:no-xattr-table"
K_D28 = "D28:read_inode_slink_ext:dangling-result-after-failure"
SITE_KEYS = [("dr_stream_get_buffered_data", K_D4), ("sqfs_data_reader_get_fragment", K_D5), ("sqfs_meta_reader_read", K_D3),
             ("sqfs_dir_reader_resolve_path", K_D19), ("sqfs_inode_unpack_dir_index_entry", K_D25)]
OP_KEYS = {"unpack": K_D25, "getfrag": K_D5, "stream": K_D4, "resolve": K_D19, "read": K_D3, "seek": K_D3}
BUF_KEYS = {"metaData": K_D3, "fragBlock": K_D5, "fragOut": K_D5, "streamBuf": K_D4, "drScratch": K_D4, "idxSrc": K_D25,
            "idxOut": K_D25, "path": K_D19}


def hx(b):
    return bytes(b).hex() if b else "-"


# ====================================================================== A. routine level
def pick(rng, xs):
    return xs[rng.randrange(len(xs))]


def toy_payload(rng, n, size):
    """`size` bytes whose first two are le16 n (what the toy codec will claim to produce)"""
    size = max(size, 2)
    return struct.pack("<H", n & 0xFFFF) + bytes(rng.randrange(256) for _ in range(size - 2))


def gen_meta_group(rng):
    start = pick(rng, [0, 96, 100])
    img = bytearray(rng.randrange(256) for _ in range(start))
    blocks = []
    for _ in range(rng.randint(1, 4)):
        at = len(img)
        kind = rng.random()
        if kind < 0.5:
            n = pick(rng, [0, 1, 7, 100, 4000, 8191, 8192, 8192, 8192])
            img += struct.pack("<H", 0x8000 | n) + bytes(rng.randrange(256) for _ in range(n))
            used = n
        elif kind < 0.6:
            n = pick(rng, [8193, 9000, 32767])            # announces more than a block: CORRUPTED
            img += struct.pack("<H", 0x8000 | n) + bytes(64)
            used = None
        else:
            out = pick(rng, [0, 1, 100, 8191, 8192, 8192, 8193, 0x7fff, 0x8000, 0xffff])
            size = pick(rng, [0, 1, 2, 3, 50, 8192])
            img += struct.pack("<H", size) + (toy_payload(rng, out, size) if size >= 2 else bytes(size))
            used = out if (size >= 2 and out <= 8192) else None
        blocks.append((at, used))
    if rng.random() < 0.3:
        img = img[:len(img) - rng.randint(1, 40)]        # truncated last block
    limit = pick(rng, [len(img), len(img), len(img) + 10, max(start, len(img) - 3), blocks[-1][0] + 1])
    lines = ["img " + hx(img), "mr %d %d" % (start, limit)]
    n_ok = rng.randint(2, 8)
    for _ in range(n_ok):
        if rng.random() < 0.45:
            at, used = pick(rng, blocks)
            if rng.random() < 0.15:
                at = pick(rng, [0, at + 1, at - 1 if at else 0, len(img), 2 ** 64 - 2, limit])
            off = pick(rng, [0, 0, 1, (used or 1) - 1, used or 0, (used or 0) + 1, 8191, 8192, 2 ** 32, 2 ** 64 - 1])
            lines.append("seek %d %d" % (at, max(off, 0)))
        else:
            lines.append("read %d" % pick(rng, [0, 1, 2, 16, 100, 4000, 8191, 8192, 8193, 20000]))
    # reads issued after whatever happened (the reader keeps being used after a failed call)
    for _ in range(rng.randint(1, 3)):
        lines.append("read %d" % pick(rng, [1, 100, 8192, 16385, 40000]))
    return lines


def gen_data_lines(rng):
    bs = pick(rng, [4096, 4096, 8192, 65536])
    lines = []
    img = bytearray(rng.randrange(256) for _ in range(pick(rng, [bs + 200, 3 * bs, 5 * bs + 17])))
    # fragment block at a known place
    fstart = pick(rng, [0, 96, bs])
    fkind = rng.random()
    if fkind < 0.4:
        flen = pick(rng, [1, 100, bs - 1, bs, bs, bs + 1, 0xFFFFFF])
        fword = (1 << 24) | flen
    elif fkind < 0.5:
        fword = 0
    else:
        clen = pick(rng, [2, 10, 300, bs, bs + 1])
        out = pick(rng, [0, 1, 100, bs - 1, bs, bs + 1])
        img[fstart:fstart + 2] = struct.pack("<H", out & 0xFFFF)
        fword = clen
    for _ in range(rng.randint(2, 5)):
        filesz = pick(rng, [0, 1, 100, bs - 1, bs, bs + 1, 2 * bs + 5, 3 * bs, 2 ** 32 - 1, 2 ** 32 + 7, 2 ** 63, 2 ** 64 - 1])
        nblk = pick(rng, [0, 0, 1, 2, min(filesz // bs, 40), 40])
        fsz = filesz % bs
        fragoff = pick(rng, [0, 0, 1, 100, bs - fsz if bs >= fsz else 0, bs - fsz + 1, bs, 2 ** 32 - 1, (2 ** 32 - fsz) % 2 ** 32,
                             (2 ** 32 - fsz + 50) % 2 ** 32, 2 ** 32 - 16])
        fidx = pick(rng, [0, 0, 0, 1, 2 ** 32 - 1])
        lines.append("getfrag %d %d %d %d %d %d %d" % (bs, filesz, nblk, fidx, max(fragoff, 0), fstart, fword))
    # stream / get_block over a block list laid out in the image
    for _ in range(rng.randint(1, 3)):
        start = pick(rng, [0, 96])
        pos = start
        words = []
        for _ in range(rng.randint(0, 5)):
            k = rng.random()
            if k < 0.2:
                words.append(0)
            elif k < 0.6:
                n = pick(rng, [1, 100, bs - 1, bs, bs, bs + 1, 2 * bs, 0xFFFFFF])
                words.append((1 << 24) | n)
                pos += n
            else:
                n = pick(rng, [2, 3, 64, bs - 1, bs, bs + 1, 2 * bs])
                out = pick(rng, [0, 1, 100, bs - 1, bs, bs, bs + 1])
                if pos + 2 <= len(img):
                    img[pos:pos + 2] = struct.pack("<H", out & 0xFFFF)
                words.append(n)
                pos += n
        filesz = pick(rng, [0, 1, bs, len(words) * bs, len(words) * bs + 100, max(0, len(words) * bs - 1), 2 * bs + 5, 2 ** 32 + 5])
        if filesz > 64 * bs:
            filesz = 64 * bs + 5
        fragoff = pick(rng, [0, 1, bs - 100, bs, 2 ** 32 - 1])
        fidx = pick(rng, [0, 0, 1])
        ws = ",".join(str(w) for w in words) or "-"
        lines.append("stream %d %d %d %d %d %d %d %s" % (bs, filesz, start, fidx, fragoff, fstart, fword, ws))
        for idx in {0, len(words) - 1 if words else 0, len(words)}:
            lines.append("getblk %d %d %d %d %s" % (bs, filesz, start, idx, ws))
        for _ in range(3):
            off = pick(rng, [0, 1, bs - 1, bs, bs + 1, 2 * bs, 2 * bs + 7, max(filesz, 1) - 1, filesz, filesz + 1, 2 ** 40])
            size = pick(rng, [0, 1, 100, bs - 1, bs, bs + 1, 3 * bs + 5, 200000])
            lines.append("dread %d %d %d %d %d %d %d %d %d %s" % (bs, filesz, start, fidx, fragoff, fstart, fword, off, size, ws))
    return ["img " + hx(img)] + lines


def gen_inode_lines(rng):
    lines = []
    for _ in range(6):
        t = rng.randint(0, 15)
        bs = pick(rng, [4096, 131072, 1048576])
        base = struct.pack("<HHHHII", t, 0o644, 0, 0, 5, rng.randint(1, 9))
        B32 = [0, 1, 2, 127, 128, 4095, 4096, 4097, 0x7FFFFFFF, 0xFFFFFFFE, 0xFFFFFFFF]
        if t in (2,):
            fsz = pick(rng, B32 + [bs * 3, bs * 3 + 1])
            body = struct.pack("<IIII", 0, pick(rng, [0, 0xFFFFFFFF]), pick(rng, [0, 0xFFFFFFFF]), fsz)
        elif t == 9:
            fsz = pick(rng, B32 + [bs * 3 + 1, 2 ** 40, 2 ** 62, 2 ** 64 - 1])
            body = struct.pack("<QQQIIII", 0, fsz, 0, 1, pick(rng, [0, 0xFFFFFFFF]), pick(rng, [0, 0xFFFFFFFF]), 0xFFFFFFFF)
        elif t in (3, 10):
            body = struct.pack("<II", 1, pick(rng, B32 + [5, 20]))
        elif t == 8:
            cnt = pick(rng, [0, 1, 2, 3, 50, 0xFFFF])
            body = struct.pack("<IIIIHHI", 2, pick(rng, [0, 3, 100]), 0, 0, cnt, 0, 0xFFFFFFFF)
            for _ in range(min(cnt, 6)):
                sz = pick(rng, [0, 1, 3, 100, 115, 116, 117, 300, 0xFFFFFFFE, 0xFFFFFFFF])
                body += struct.pack("<III", 0, 0, sz) + bytes(min(sz + 1 & 0xFFFFFFFF, 400))
        else:
            body = b""
        payload = bytes(rng.randrange(256) for _ in range(pick(rng, [0, 4, 8, 12, 16, 24, 40, 100, 500, 3000])))
        blob = (base + body + payload)[:8192]
        if rng.random() < 0.2:
            blob = blob[:rng.randint(0, len(blob))]
        lines.append("inode %d %s" % (bs, hx(blob)))
    for _ in range(4):
        sz = pick(rng, [0, 1, 5, 255, 256, 1000, 0xFFFF])
        blob = struct.pack("<HhHH", 0, 0, 1, sz) + bytes(rng.randrange(1, 256) for _ in range(pick(rng, [0, sz, sz + 1, sz + 2, 3]) % 8000))
        lines.append("dirent " + hx(blob))
    return lines


def dir_ext_blob(sizes, dsz=3, cnt=None):
    """extended directory inode (type 8) with index entries whose `size` fields are `sizes` (name = size + 1 bytes)"""
    base = struct.pack("<HHHHII", 8, 0o755, 0, 0, 5, 1)
    body = struct.pack("<IIIIHHI", 2, dsz, 0, 0, len(sizes) if cnt is None else cnt, 0, 0xFFFFFFFF)
    for sz in sizes:
        body += struct.pack("<III", 0, 0, sz) + bytes(0x41 + i % 26 for i in range(sz + 1))
    return base + body


def gen_inode_boundary_lines():
    """Deterministic (no rng): the index growth loop of read_inode_dir_ext, `sizeof(ent) + ent.size + 1 > new_sz - index_used`,
    with the left side at remaining - 1, remaining, remaining + 1 for every capacity 128 << k that fits one metadata block,
    with index_used = 0 and > 0, growth by one and by several doublings.  (seeded C05-a1 shows only at `remaining + 1`
    after the comparison; before this sweep the random generator produced that value in about one run of four.)"""
    lines = []
    hdr = 13                                           # sizeof(sqfs_dir_index_t) + the byte the size field does not count
    caps = [128, 256, 512, 1024, 2048, 4096]
    for cap in caps:
        for d in (-1, 0, 1):
            # one entry against the initial 128 bytes / grown to `cap` in one go: need = cap + d
            need = cap + d
            lines.append("inode 4096 " + hx(dir_ext_blob([need - hdr])))
            # a first entry of 50 bytes, then one that needs exactly what is left (+d) in `cap`
            if cap - 50 + d >= hdr:
                lines.append("inode 4096 " + hx(dir_ext_blob([50 - hdr, cap - 50 + d - hdr])))
            # fill `cap` exactly with equal entries, the last one +d
            n = cap // 32
            lines.append("inode 131072 " + hx(dir_ext_blob([32 - hdr] * (n - 1) + [32 + d - hdr])))
    # entry that fits exactly after a growth caused by the entry before it
    lines.append("inode 4096 " + hx(dir_ext_blob([140 - hdr, 256 - 140 - hdr, 0])))
    lines.append("inode 4096 " + hx(dir_ext_blob([140 - hdr, 256 - 140 + 1 - hdr, 0])))
    # size 0 of the listing: no index is read at all; count larger than what the block holds
    lines.append("inode 4096 " + hx(dir_ext_blob([116], dsz=0)))
    lines.append("inode 4096 " + hx(dir_ext_blob([116], cnt=2)))
    return lines


def gen_unpack_lines(rng):
    lines = []
    for _ in range(5):
        recs = bytearray()
        for _ in range(rng.randint(0, 4)):
            n = pick(rng, [1, 2, 5, 30])
            sz = n - 1 if rng.random() < 0.7 else pick(rng, [0, 1, 100, 0xFFFFFFFE, 0xFFFFFFFF, n, n + 5])
            recs += struct.pack("<III", 7, 9, sz) + bytes(rng.randrange(1, 256) for _ in range(n))
        if rng.random() < 0.3:
            recs = recs[:rng.randint(0, len(recs))]
        used = len(recs) if rng.random() < 0.8 else rng.randint(0, len(recs))
        for idx in (0, 1, 2, 5):
            lines.append("unpack %d %d %s" % (used, idx, hx(recs)))
    return lines


def gen_resolve_lines(rng):
    lines = []
    alpha = [0x61, 0x62, 0x63, 0x2e]
    for _ in range(8):
        name = bytes(pick(rng, alpha) for _ in range(rng.randint(1, 6)))
        if rng.random() < 0.4:
            k = rng.randrange(len(name) + 1)
            name = name[:k] + b"\0" + name[k:]
        cands = [name.split(b"\0")[0], name.replace(b"\0", b""), name[:-1], name + b"a", bytes(pick(rng, alpha) for _ in range(3))]
        for p in cands:
            p = p.replace(b"\0", b"")
            if p and b"/" not in p:
                lines.append("resolve %s %s" % (hx(name), hx(p)))
    return lines



# ---------------------------------------------------------------- tables, xattr reader, directory reader (ReaderTables)
B16 = [0, 1, 2, 255, 256, 0x7FFF, 0x8000, 0xFFFE, 0xFFFF]
B32X = [0, 1, 2, 0xFFFF, 0x10000, 0x10001, 0x7FFFFFFF, 0x80000000, 0x80000001, 0xFFFFFFF0, 0xFFFFFFFE, 0xFFFFFFFF]
B64X = [0, 1, 95, 96, 97, 0xFFFFFFFF, 2 ** 32, 2 ** 32 + 1, 2 ** 63, 2 ** 64 - 8192, 2 ** 64 - 16, 2 ** 64 - 2, 2 ** 64 - 1]


def mblock(data):
    """uncompressed metadata block"""
    return struct.pack("<H", 0x8000 | len(data)) + bytes(data)


def mblock_toy(pattern, n):
    """toy-compressed metadata block that unpacks to n bytes: pattern repeated"""
    body = struct.pack("<H", n) + bytes(pattern)
    return struct.pack("<H", len(body)) + body


def toy_unpacked(pattern, n):
    return bytes(pattern[i % len(pattern)] for i in range(n)) if pattern else bytes([0x5a]) * n


def sb_line(flags=0, id_count=1, frag_count=0, bytes_used=0, idt=0, xat=2 ** 64 - 1, ino=96, dts=96, fts=2 ** 64 - 1, ets=2 ** 64 - 1, root=0, bs=4096):
    return "sb %d %d %d %d %d %d %d %d %d %d %d %d" % (flags & 0xFFFF, id_count & 0xFFFF, frag_count & 0xFFFFFFFF, bytes_used, idt, xat, ino, dts, fts, ets, root, bs)


def valid_super(rng):
    log = rng.randint(12, 20)
    return {"magic": 0x73717368, "inode_count": 5, "mtime": 0, "block_size": 1 << log, "frag_count": 1, "comp": rng.randint(1, 6), "log": log,
            "flags": 0, "id_count": 1, "vmaj": 4, "vmin": 0, "root": 0, "used": 4096, "idt": 3000, "xat": 2 ** 64 - 1, "ino": 96, "dts": 1000,
            "fts": 2000, "ets": 2 ** 64 - 1}


def pack_super(f):
    return struct.pack("<IIIIIHHHHHHQQQQQQQQ", f["magic"] & 0xFFFFFFFF, f["inode_count"], f["mtime"], f["block_size"] & 0xFFFFFFFF, f["frag_count"],
                       f["comp"] & 0xFFFF, f["log"] & 0xFFFF, f["flags"], f["id_count"] & 0xFFFF, f["vmaj"] & 0xFFFF, f["vmin"] & 0xFFFF, f["root"],
                       f["used"], f["idt"], f["xat"], f["ino"], f["dts"], f["fts"], f["ets"])


def gen_super_lines(rng):
    lines = []
    for _ in range(10):
        f = valid_super(rng)
        k = rng.random()
        if k < 0.15:
            pass
        elif k < 0.3:
            f["block_size"] = pick(rng, [0, 1, 2048, 4095, 4096, 4097, 6144, 1 << 20, (1 << 20) + 1, 1 << 21, 1 << 31, 0xFFFFFFFF, f["block_size"] * 2, f["block_size"] // 2])
        elif k < 0.45:
            f["log"] = pick(rng, [0, 11, 12, 20, 21, 32, 64, 0xFFFF, f["log"] + 1, f["log"] - 1])
            if rng.random() < 0.5:
                f["block_size"] = (1 << f["log"]) & 0xFFFFFFFF if f["log"] < 40 else 0
        elif k < 0.55:
            f["magic"] = pick(rng, [0, 0x73717369, 0x68737173, 0xFFFFFFFF])
        elif k < 0.65:
            f[pick(rng, ["vmaj", "vmin"])] = pick(rng, [0, 1, 3, 4, 5, 0xFFFF])
        elif k < 0.8:
            f["comp"] = pick(rng, [0, 1, 6, 7, 0xFFFF])
        elif k < 0.9:
            f["id_count"] = pick(rng, [0, 1, 0xFFFF])
        blob = pack_super(f) + bytes(rng.randrange(256) for _ in range(pick(rng, [0, 0, 4, 100])))
        if rng.random() < 0.15:
            blob = blob[:pick(rng, [0, 1, 50, 95])]
        lines.append("super " + hx(blob))
    return lines


def table_image(rng, raw, lower_pad=96, short_last=0, bad_loc=None, toy_first=False):
    """pad, metadata blocks holding `raw` (8192 per block), then the location array; returns (img, lower, table_start, block positions)"""
    img = bytearray(rng.randrange(256) for _ in range(lower_pad))
    lower = len(img)
    locs = []
    chunks = [raw[i:i + 8192] for i in range(0, len(raw), 8192)] or []
    for ci, ch in enumerate(chunks):
        locs.append(len(img))
        if ci == len(chunks) - 1 and short_last:
            ch = ch[:max(0, len(ch) - short_last)]
        img += mblock(ch)
    start = len(img)
    if bad_loc is not None and locs:
        locs[bad_loc[0] % len(locs)] = bad_loc[1]
    img += b"".join(struct.pack("<Q", l) for l in locs)
    return img, lower, start, locs


def gen_table_lines(rng):
    lines = []
    # ---- id table
    for _ in range(3):
        idc = pick(rng, [1, 2, 100, 2048, 2049, 4096, 5000])
        if toy := (rng.random() < 0.2 and idc <= 2048):
            pat = bytes(rng.randrange(256) for _ in range(8))
            raw = toy_unpacked(pat, idc * 4)
        else:
            raw = bytes(rng.randrange(256) for _ in range(idc * 4))
        k = rng.random()
        short = pick(rng, [1, 4, 100]) if 0.1 < k < 0.2 else 0
        img, lower, start, locs = table_image(rng, raw, short_last=short)
        if toy:
            img = bytearray(img[:lower]) + mblock_toy(pat, idc * 4)
            start = len(img)
            img += struct.pack("<Q", lower)
            locs = [lower]
        bad = None
        if 0.2 < k < 0.35 and locs:
            bad = (rng.randrange(len(locs)), pick(rng, [0, lower - 1, start, start + 8, len(img), 2 ** 64 - 1, locs[0] + 1]))
            struct.pack_into("<Q", img, start + 8 * bad[0], bad[1])
        img += bytes(rng.randrange(256) for _ in range(pick(rng, [0, 7, 64])))
        used = len(img)
        if 0.35 < k < 0.42:
            img = img[:len(img) - pick(rng, [1, 8, 9, 70])]           # truncated file
        fields = dict(id_count=idc, bytes_used=used, idt=start, dts=lower)
        m = rng.random()
        if m < 0.1:
            fields["id_count"] = pick(rng, [0, idc + 1, idc - 1, 0xFFFF, 2048, 2049])
        elif m < 0.2:
            fields["bytes_used"] = pick(rng, [0, start, start + 1, start - 1, 2 ** 64 - 1])
        elif m < 0.3:
            fields["fts"] = pick(rng, [lower, lower + 1, start - 1, start, (locs[0] + 1) if locs else 0, 0])
        elif m < 0.4:
            fields["ets"] = pick(rng, [lower, lower + 1, start - 1, start, (locs[-1] + 1) if locs else 0, 0])
        elif m < 0.5:
            fields["dts"] = pick(rng, [0, lower + 1, (locs[0] + 1) if locs else 0, start, start + 1, 2 ** 64 - 1])
        elif m < 0.55:
            fields["idt"] = pick(rng, [0, start + 1, start - 8, used, used - 1, 2 ** 64 - 1])
        lines += ["img " + hx(img), sb_line(**fields), "idtable"]
        n = fields["id_count"] & 0xFFFF
        for i in sorted({0, 1, max(n - 1, 0), n, n + 1 if n < 0xFFFF else 0, 0xFFFF, 2048}):
            lines.append("idx %d" % i)
    # ---- fragment table
    for _ in range(3):
        cnt = pick(rng, [1, 2, 511, 512, 513, 1024])
        raw = bytes(rng.randrange(256) for _ in range(cnt * 16))
        k = rng.random()
        img, lower, start, locs = table_image(rng, raw, short_last=(pick(rng, [1, 16]) if 0.1 < k < 0.2 else 0))
        if 0.2 < k < 0.35:
            struct.pack_into("<Q", img, start + 8 * rng.randrange(len(locs)), pick(rng, [0, lower - 1, start, len(img), 2 ** 64 - 1]))
        idt = len(img) + pick(rng, [0, 16])
        img += bytes(rng.randrange(256) for _ in range(idt - len(img) + 32))
        used = len(img)
        fields = dict(frag_count=cnt, bytes_used=used, idt=idt, dts=lower, fts=start)
        m = rng.random()
        if m < 0.12:
            fields["frag_count"] = pick(rng, [0, cnt + 1, cnt - 1 or 1, 512, 513, 2 ** 28, 2 ** 32 - 1])
        elif m < 0.2:
            fields["flags"] = pick(rng, [0x10, 0x11, 0xFFEF, 0xFFFF, 0x200])
        elif m < 0.3:
            fields["fts"] = pick(rng, [2 ** 64 - 1, used, used - 1, lower, lower - 1, idt, idt - 1, 0])
        elif m < 0.4:
            fields["dts"] = pick(rng, [0, start, start + 1, (locs[0] + 1), 2 ** 64 - 1])
        elif m < 0.5:
            fields["ets"] = pick(rng, [0, lower, locs[-1], locs[-1] + 1, start, start + 1, idt - 1, idt, idt + 1])
        elif m < 0.6:
            fields["idt"] = pick(rng, [0, start, start + 1, locs[-1] + 1, used, 2 ** 64 - 1])
        elif m < 0.65:
            fields["bytes_used"] = pick(rng, [0, start, start + 1])
        lines += ["img " + hx(img), sb_line(**fields), "fragtable"]
        n = fields["frag_count"] & 0xFFFFFFFF
        for i in sorted({0, 1, max(n - 1, 0), n, (n + 1) & 0xFFFFFFFF, 0xFFFFFFFF}):
            if i * 16 < 10 ** 7 or i >= n:
                lines.append("fragidx %d" % i)
    return lines


XPFX = {0: 5, 1: 8, 2: 9}


def gen_xattr_group(rng):
    """one image with an xattr table, then calls on a fresh reader"""
    pad = 96
    clean = rng.random() < 0.4                                # a well-formed table: the success paths of every routine
    img = bytearray(rng.randrange(256) for _ in range(pad))
    win_start = pick(rng, [0, pad, pad])                      # super.id_table_start: start of both readers' window
    # ---- key-value stream: pairs laid out in consecutive blocks
    kv = bytearray()
    pairs = []                                                 # (offset in stream, type, ksize, vsize, ool)
    ool_vals = []
    npairs = rng.randint(1, 6)
    for _ in range(npairs):
        t = pick(rng, [0, 1, 2, 0x100, 0x101, 0x102, 0x200, 0x8001] if clean else
                 [0, 0, 1, 2, 2, 3, 0xFF, 0x100, 0x101, 0x102, 0x103, 0x200, 0x8000, 0xFFFF])
        ks = pick(rng, [0, 1, 4, 30, 255, 300])
        at = len(kv)
        kv += struct.pack("<HH", t, ks) + bytes(rng.randrange(1, 256) for _ in range(ks))
        if t & 0x100:
            kv += struct.pack("<I", pick(rng, [8, 8, 0, 9]))
            ool_vals.append(len(kv))
            kv += struct.pack("<Q", 0)                          # patched below
            vs = pick(rng, [0, 1, 50, 700])
        else:
            vs = pick(rng, [0, 1, 17, 400, 9000])
            kv += struct.pack("<I", vs) + bytes(rng.randrange(256) for _ in range(vs))
        pairs.append((at, t, ks, vs))
    # plain values for the out-of-line references
    ool_targets = []
    for _ in ool_vals:
        vs = pick(rng, [0, 1, 50, 700])
        ool_targets.append((len(kv), vs))
        kv += struct.pack("<I", vs) + bytes(rng.randrange(256) for _ in range(vs))
    tail_kind = 1.0 if clean else rng.random()
    if tail_kind < 0.25:
        kv += struct.pack("<HHI", 0, 3, 2 ** 32 - 1)[:pick(rng, [2, 4, 8])]     # a pair cut off / key bytes missing
    elif tail_kind < 0.4:
        kv += struct.pack("<HH", 0, 2) + b"ab" + struct.pack("<I", pick(rng, [2 ** 32 - 1, 2 ** 31, 70000]))   # huge value, no data
    xstart = len(img)
    blk_of = []                                                # stream offset of every block start
    bsz = pick(rng, [8192, 8192, 1000, 4096])
    chunks = [kv[i:i + bsz] for i in range(0, len(kv), bsz)] or [b""]
    pos = []
    for ch in chunks:
        pos.append(len(img) - xstart)
        img += mblock(ch)

    def ref_of(stream_off):
        b = stream_off // bsz
        return (pos[b] << 16) | (stream_off % bsz)

    # patch the out-of-line references (value = location of a plain value, relative to xattr_table_start)
    for vi, (where, tgt) in enumerate(zip(ool_vals, ool_targets)):
        r = ref_of(tgt[0])
        k = 1.0 if clean else rng.random()
        if k < 0.12:
            r = pick(rng, [(len(img) - xstart + 50) << 16, (2 ** 47) << 16, (pos[0] << 16) | 8192, (pos[0] << 16) | 0xFFFF, (pos[-1] << 16) | len(chunks[-1]),
                           ((2 ** 48 - 1) << 16) | 5])
        b, o = where // bsz, where % bsz
        # the 8 bytes may straddle two blocks: patch byte-wise in the image
        rb = struct.pack("<Q", r & (2 ** 64 - 1))
        for j in range(8):
            so = where + j
            img[xstart + pos[so // bsz] + 2 + so % bsz] = rb[j]
    # ---- descriptors
    descs = []
    nd = pick(rng, [1, 2, 3, 3, 513])
    for d in range(nd):
        first = rng.randrange(len(pairs))
        cnt = pick(rng, [1, len(pairs) - first, len(pairs) - first, len(pairs) - first + 1, 0, 2 ** 32 - 1]) if d < 8 else 1
        x = ref_of(pairs[first][0])
        if not clean and rng.random() < 0.1 and d < 8:
            x = pick(rng, [(len(img)) << 16, x | 0xFFFF, x + (1 << 16), (2 ** 48 - 1) << 16, ((2 ** 48) - (xstart >> 0)) << 16])
        descs.append((x & (2 ** 64 - 1), cnt, 0, first))
    raw = b"".join(struct.pack("<QII", x, c, sz) for x, c, sz, _ in descs)
    idlocs = []
    for i in range(0, len(raw), 8192):
        idlocs.append(len(img))
        img += mblock(raw[i:i + 8192])
    xat = len(img)
    ids_field = nd
    m = 1.0 if clean else rng.random()
    if m < 0.1:
        ids_field = pick(rng, [0, nd + 1, 511, 512, 513, 1025, 2 ** 32 - 1])
    tstart_field = xstart
    if 0.1 < m < 0.18:
        tstart_field = pick(rng, [0, xstart + 1, len(img), 2 ** 64 - 1, 2 ** 64 - xstart])
    if 0.18 < m < 0.26 and idlocs:
        idlocs[rng.randrange(len(idlocs))] = pick(rng, [0, win_start - 1 if win_start else 0, len(img) + 200, 2 ** 64 - 1, xat])
    img += struct.pack("<QII", tstart_field, ids_field, 0) + b"".join(struct.pack("<Q", l) for l in idlocs)
    img += bytes(rng.randrange(256) for _ in range(pick(rng, [0, 40])))
    used = len(img)
    if 0.26 < m < 0.32:
        img = img[:len(img) - pick(rng, [1, 41, 49, 57])]
    fields = dict(bytes_used=used, idt=win_start, xat=xat)
    if 0.32 < m < 0.4:
        fields["flags"] = pick(rng, [0x200, 0x210, 0xFFFF, 0x100])
    elif 0.4 < m < 0.48:
        fields["xat"] = pick(rng, [2 ** 64 - 1, used, used - 1, used + 1, 0, xat + 8, xat - 8])
    elif 0.48 < m < 0.54:
        fields["bytes_used"] = pick(rng, [xat, xat + 1, xat + 16, idlocs[0] if idlocs else 0, 2 ** 64 - 1])
    elif 0.54 < m < 0.6:
        fields["idt"] = pick(rng, [xstart + 1, xat, used, 2 ** 64 - 1])
    head = ["img " + hx(img), sb_line(**fields)]
    groups = []
    # descriptor lookups
    g = ["xnew"]
    if rng.random() < 0.15:
        g.append("xdesc 0")                                    # before any table is loaded
        g.append("xdesc 1")
        g.append("xseek 0")
    g.append("xload")
    for i in sorted({0, 1, nd - 1, nd, nd + 1, 511, 512, 513, 0xFFFFFFFF, 0xFFFFFFFE, ids_field & 0xFFFFFFFF, (ids_field - 1) & 0xFFFFFFFF}):
        g.append("xdesc %d" % i)
    if rng.random() < 0.2:
        g.append("xload")                                      # a second load on the same object
        g.append("xdesc 0")
    groups.append(g)
    # key / value calls along the stream
    for d in range(min(nd, 3)):
        x, cnt, _, first = descs[d]
        g = ["xnew", "xload", "xseek %d" % x]
        for (at, t, ks, vs) in pairs[first:first + 3]:
            g.append("xkey")
            g.append("xval %d" % (t if rng.random() < 0.9 else t ^ 0x100))
        g.append("xkey")
        groups.append(g)
    # read_all
    for d in sorted({0, 1, nd - 1, nd, 0xFFFFFFFF}):
        groups.append(["xnew", "xload", "xall %d" % d, "xall %d" % d])
    out = list(head)
    for g in groups:
        out += g
    return out


def gen_dopen_lines(rng):
    lines = ["img -"]
    for _ in range(12):
        dts = pick(rng, [0, 96, 1000, 2 ** 32, 2 ** 64 - 1, 2 ** 64 - 0x10000])
        root = pick(rng, [0, 5 << 16, 77])
        lines.append(sb_line(dts=dts, root=root))
        rdf = pick(rng, [0, 1, 1, 1])
        of = pick(rng, [0, 0, 1, 1, 2, 3, 0x80000000, 0xFFFFFFFF])
        ty = pick(rng, [1, 1, 8, 8, 0, 2, 9, 7, 14, 0xFFFF])
        sblk = pick(rng, B32X)
        off = pick(rng, [0, 1, 8191, 8192, 0xFFFF])
        sz = pick(rng, [0, 3, 4, 12, 15, 16, 23, 24, 0xFFFF, 0x10000, 0x10003, 0xFFFFFFFF])
        inum = pick(rng, [1, 2, 0, 0xFFFFFFFF])
        par = pick(rng, [1, 3, 0, 0xFFFFFFFF])
        cache = []
        if rng.random() < 0.8:
            cache.append("%d:%d" % (inum, pick(rng, [root, root, 9 << 16, 0])))
        if rng.random() < 0.6:
            cache.append("%d:%d" % (par, pick(rng, [root, 4 << 16, 2 ** 48 - 1])))
        if rng.random() < 0.3:
            cache.append("%d:%d" % (rng.randint(4, 9), 12345))
        rng.shuffle(cache)
        lines.append("dopen %d %d %d %d %d %d %d %d %s" % (rdf, of, ty, sblk, off, sz, inum, par, ",".join(cache) or "-"))
    return lines


def gen_dirlist_lines(rng):
    """a directory table with one listing (several headers), read with listing sizes around every boundary"""
    pad = pick(rng, [96, 200])
    img = bytearray(rng.randrange(256) for _ in range(pad))
    dts = len(img)
    listing = bytearray()
    marks = [0]
    for _ in range(rng.randint(1, 3)):
        n = pick(rng, [1, 1, 2, 5, 40, 256, 257]) if rng.random() < 0.85 else pick(rng, [256, 257, 300])
        cfield = n - 1
        k = rng.random()
        if k < 0.1:
            cfield = pick(rng, [255, 256, 0xFFFFFFFF, n, max(n - 2, 0)])
        listing += struct.pack("<III", cfield & 0xFFFFFFFF, pick(rng, [0, 7, 2 ** 32 - 1]), rng.randint(1, 50))
        marks.append(len(listing))
        for e in range(n if n <= 257 else 257):
            ns = pick(rng, [0, 0, 2, 7, 30, 255]) if rng.random() < 0.97 else pick(rng, [1000, 0xFFFF])
            listing += struct.pack("<HhHH", rng.randrange(8192), rng.randint(-3, 3), pick(rng, [1, 2, 3]), ns) + bytes(rng.randrange(1, 256) for _ in range(min(ns + 1, 1200)))
            marks.append(len(listing))
            if len(listing) > 30000:
                break
    bsz = pick(rng, [8192, 8192, 500])
    start_off = pick(rng, [0, 0, 10])
    stream = bytes(rng.randrange(256) for _ in range(start_off)) + bytes(listing)
    for i in range(0, len(stream), bsz):
        img += mblock(stream[i:i + bsz])
    limit = len(img)
    img += bytes(rng.randrange(256) for _ in range(pick(rng, [0, 16])))
    k = rng.random()
    if k < 0.15:
        img = img[:limit - pick(rng, [1, 5, 200])]
    lines = ["img " + hx(img)]
    fields = dict(bytes_used=len(img) + 10, idt=limit, dts=dts)
    m = rng.random()
    if m < 0.1:
        fields["fts"] = pick(rng, [dts, dts + 2, limit - 1, 0])
    elif m < 0.2:
        fields["ets"] = pick(rng, [dts, dts + 1, limit - 3, 0])
    elif m < 0.3:
        fields["idt"] = pick(rng, [dts, dts + 1, limit - 1, limit + 1, 0, 2 ** 64 - 1])
    elif m < 0.36:
        fields["dts"] = pick(rng, [dts + 1, dts - 1, 0, 2 ** 64 - 1])
    lines.append(sb_line(**fields))
    total = len(listing)
    sizes = {0, 1, 3, 12, 13, 15, 16, 20, 23, 24, total, total + 1, total + 2, total + 3, total + 4, total + 20, 0xFFFFFFFF}
    for mk in rng.sample(marks, min(len(marks), 6)):
        sizes |= {mk + 2, mk + 3, mk + 4, mk + 3 + 8, mk + 3 + 12, mk + 3 + 9}
    for sz in sorted(sizes):
        lines.append("dirlist %d %d %d" % (0, start_off, sz & 0xFFFFFFFF))
    lines.append("dirlist %d %d %d" % (pick(rng, [1, 2, 2 ** 32 - 1]), start_off, total + 3))
    lines.append("dirlist %d %d %d" % (0, pick(rng, [start_off + 1, 8191, 8192, 0xFFFF]), total + 3))
    return lines


def gen_dentry_lines(rng):
    lines = []
    for _ in range(10):
        used = pick(rng, [0, 1, 2, 2, 300, 3000])
        ui = pick(rng, [0, 1, max(used - 1, 0), used & 0xFFFF, 0xFFFF])
        gi = pick(rng, [0, 1, max(used - 1, 0), used & 0xFFFF, 0xFFFF])
        nn = pick(rng, [0, 1, 2, 5, 40, 255, 256])
        name = bytearray(rng.randrange(1, 256) for _ in range(nn))
        if nn and rng.random() < 0.4:
            name[rng.randrange(nn)] = 0
        ln = pick(rng, [0, 1, nn, nn + 1, max(nn - 1, 0), nn // 2])
        lines.append("dentry %d %d %d %d %s" % (used, ui, gi, ln, hx(name)))
    return lines

# ---------------------------------------------------------------- deterministic boundary groups
# One group per family of modelled comparisons: the two values around every comparison are produced here *without* the
# random generator, so that the generator self-test (`sqfsmodel c05 sens`, SENS_FLOORS below) holds for every seed.
def det_bytes(n, k=7):
    return bytes((i * k + i // 251) % 251 + 1 for i in range(n))


def gen_meta_boundary_group():
    """meta reader: window, cached block, block size 8192/8193, block end against the limit, offsets at data_used -1/0,
    read of available - 1 bytes, read across the end of a block"""
    pad = bytes(96)
    b1 = mblock(det_bytes(100))                              # at 96, ends at 198
    b2 = mblock(det_bytes(8192, 11))                         # at 198, ends at 8392
    b3 = mblock_toy(b"toy-data", 50)                         # at 8392
    b4at = 96 + len(b1) + len(b2) + len(b3)
    b4 = struct.pack("<H", 0x8000 | 8193) + det_bytes(8193, 3)   # announces one byte more than a block may hold
    img = pad + b1 + b2 + b3 + b4
    end = len(img)
    L = ["img " + hx(img), "mr 96 %d" % end,
         "seek 95 0", "seek 96 0", "seek 96 99", "seek 96 100", "seek 96 0",          # window start; cached block: data_used - 1, data_used
         "seek 198 8191", "seek 96 100", "seek 198 8191", "seek 198 8192",            # freshly loaded block: data_used - 1, data_used
         "seek 198 0", "seek %d 0" % b4at, "seek 8392 49", "seek 8392 50",           # 8192 / 8193 byte block; toy block
         "seek %d 0" % end, "seek %d 0" % (end - 1), "seek %d 0" % (end - 2),          # window end
         "seek 96 0", "read 99", "read 1", "read 1",                                  # one byte less than buffered; exactly the rest; next block
         "seek 96 0", "read 100", "read 8192", "read 51", "read 1",                   # whole blocks, into the toy block and beyond it
         "seek 96 50", "read 8242", "seek 198 8191", "read 2"]
    for lim in (198, 197, 199):                                                        # block ends at limit, limit + 1, limit - 1
        L += ["mr 96 %d" % lim, "seek 96 0", "read 100", "read 1"]
    for lim in (8392, 8391):                                                           # the implicit seek of a read meets the limit
        L += ["mr 96 %d" % lim, "seek 96 0", "read 8292", "read 1"]
    return L


def gen_data_boundary_lines():
    """data reader: on-disk size against the buffer (bs, bs + 1; tail, tail + 1), fragment window (frag_off + size = bs, bs + 1;
    frag_blk_size - frag_off = size, size - 1; frag_off = frag_blk_size + 1), file size bs - 1 / bs / bs + 1, read sizes and
    offsets at every clip point"""
    bs = 4096
    U = 1 << 24
    img = bytearray(det_bytes(4 * bs + 300))
    img[5000:5002] = b"\xff\xff"                           # a `compressed' block whose payload the toy codec refuses
    L = ["img " + hx(img)]
    F100 = U | 100                                          # fragment block of 100 bytes at offset 0
    FBS = U | bs
    for w, fsz in ((U | bs, bs), (U | (bs + 1), bs), (U | (bs - 1), bs), (U | 100, 100), (U | 101, 100), (U | 99, 100), (U | bs, 2 * bs)):
        L.append("getblk %d %d 0 0 %d" % (bs, fsz, w))
    L.append("getblk %d %d 0 1 %d,%d" % (bs, bs + 100, U | bs, U | 100))
    L.append("getblk %d %d 0 1 %d,%d" % (bs, bs + 100, U | bs, U | 101))
    # get_fragment: blocks cover the file exactly / one byte short; fragment ends at bs, bs + 1
    for fsz, nblk, fidx, foff, fw in ((bs + 1, 1, 0, 0, FBS), (bs, 1, 0, 0, FBS), (bs, 1, 1, 0, FBS), (bs - 1, 1, 0, 0, FBS), (bs + 100, 1, 0, bs - 100, FBS),
                                      (bs + 100, 1, 0, bs - 99, FBS), (bs + 100, 1, 0, bs - 101, FBS), (100, 0, 0, 0, F100), (100, 0, 0, 1, F100),
                                      (bs + 100, 1, 0, 2 ** 32 - 100, FBS), (bs + 100, 1, 0, 2 ** 32 - 99, FBS), (bs + 100, 1, 1, 0, FBS)):
        L.append("getfrag %d %d %d %d %d 0 %d" % (bs, fsz, nblk, fidx, foff, fw))
    # stream: block words
    for ws, fsz in (([U | bs, U | bs], 2 * bs), ([U | bs, U | (bs + 1)], 2 * bs), ([U | (bs - 1)], bs - 1), ([U | bs], bs), ([U | bs, U | 1], bs + 1),
                    ([U | (bs - 1)], bs), ([0, U | bs], 2 * bs), ([U | 100], 100), ([U | 101], 100)):
        L.append("stream %d %d 0 0 0 0 %d %s" % (bs, fsz, FBS, ",".join(map(str, ws))))
    # stream: tail in a fragment block of 100 bytes
    for fsz, foff in ((50, 50), (50, 51), (50, 49), (50, 100), (50, 101), (50, 102), (100, 0), (100, 1), (101, 0), (bs + 50, 50), (bs + 50, 51)):
        ws = [U | bs] if fsz > bs else []
        L.append("stream %d %d %d 0 %d 0 %d %s" % (bs, fsz, 200 if ws else 0, foff, F100, ",".join(map(str, ws)) or "-"))
    L.append("stream %d 50 0 1 0 0 %d -" % (bs, F100))
    # data_reader_read
    full2 = "%d,%d" % (U | bs, U | bs)
    for fsz, foff, fw, off, size, ws in (
            (100, 0, F100, 99, 1, "-"), (100, 0, F100, 100, 1, "-"), (100, 0, F100, 98, 1, "-"),              # offset against file size
            (100, 0, F100, 0, 100, "-"), (100, 0, F100, 0, 101, "-"), (100, 0, F100, 0, 99, "-"), (100, 0, F100, 1, 100, "-"),
            (101, 0, F100, 0, 101, "-"), (101, 0, F100, 0, 100, "-"), (101, 0, F100, 1, 100, "-"),             # fragment block shorter than the tail
            (100, 1, F100, 0, 100, "-"), (100, 1, F100, 0, 99, "-"), (99, 1, F100, 98, 1, "-"), (100, 1, F100, 99, 1, "-"),
            (2 * bs, 0, F100, 0, bs - 1, full2), (2 * bs, 0, F100, 0, bs, full2), (2 * bs, 0, F100, 0, bs + 1, full2),
            (2 * bs, 0, F100, 1, bs - 1, full2), (2 * bs, 0, F100, 1, bs, full2),
            (2 * bs, 0, F100, bs - 1, 2, full2), (2 * bs, 0, F100, bs, 2, full2), (2 * bs, 0, F100, bs + 1, 2, full2), (2 * bs, 0, F100, 2 * bs - 1, 2, full2),
            (2 * bs + 100, 0, F100, 2 * bs - 1, 101, full2), (2 * bs + 100, 0, F100, 2 * bs, 100, full2), (2 * bs + 100, 0, F100, 2 * bs + 1, 100, full2),
            (2 * bs + 100, 0, F100, 0, 2 * bs + 100, full2), (2 * bs + 100, 0, F100, 0, 2 * bs + 101, full2)):
        L.append("dread %d %d 200 0 %d 0 %d %d %d %s" % (bs, fsz, foff, fw, off, size, ws))
    # first block cannot be unpacked, second one is fine: a read that starts exactly at the block boundary
    bad = "%d,%d" % (10, U | bs)
    for off in (bs - 1, bs, bs + 1):
        L.append("dread %d %d 5000 0 0 0 %d %d 10 %s" % (bs, 2 * bs, F100, off, bad))
    return L


def gen_inode_misc_boundary_lines():
    """symlink target / file block list allocations, directory entries, unpack_dir_index_entry at its three comparisons"""
    L = []
    base = lambda t: struct.pack("<HHHHII", t, 0o644, 0, 0, 5, 7)
    for n in (0, 1, 5, 255):
        L.append("inode 4096 " + hx(base(3) + struct.pack("<II", 1, n) + det_bytes(n)))
        L.append("inode 4096 " + hx(base(10) + struct.pack("<II", 1, n) + det_bytes(n) + struct.pack("<I", 0xFFFFFFFF)))
    L.append("inode 4096 " + hx(base(3) + struct.pack("<II", 1, 6) + det_bytes(5)))                       # target cut short
    for fsz, fi, nw in ((4096 * 2 + 5, 0xFFFFFFFF, 3), (4096 * 2 + 5, 0, 2), (4096 * 2, 0xFFFFFFFF, 2), (1, 0xFFFFFFFF, 1), (0, 0xFFFFFFFF, 0), (4096 * 2 + 5, 0xFFFFFFFF, 2)):
        L.append("inode 4096 " + hx(base(2) + struct.pack("<IIII", 0, fi, 0, fsz) + struct.pack("<I", 1 << 24 | 4096) * nw))
        L.append("inode 4096 " + hx(base(9) + struct.pack("<QQQIIII", 0, fsz, 0, 1, fi, 0, 0xFFFFFFFF) + struct.pack("<I", 1 << 24 | 4096) * nw))
    for sz, have in ((0, 1), (4, 5), (255, 256), (4, 4), (256, 257)):
        L.append("dirent " + hx(struct.pack("<HhHH", 0, 0, 1, sz) + det_bytes(have)))
    rec = lambda sz, n: struct.pack("<III", 7, 9, sz) + det_bytes(n)
    for used, idx, blob in ((16, 0, rec(3, 4)), (15, 0, rec(3, 4)), (17, 0, rec(3, 5)), (12, 0, rec(0, 0)), (13, 0, rec(0, 1)), (11, 0, rec(0, 0)[:11]),
                            (11, 0, rec(0, 1)), (0, 0, rec(0, 1)), (1, 0, rec(0, 1)),
                            (32, 1, rec(3, 4) + rec(3, 4)), (31, 1, rec(3, 4) + rec(3, 4)), (28, 1, rec(3, 4) + rec(3, 4)), (27, 1, rec(3, 4) + rec(3, 4)),
                            (16, 1, rec(3, 4) + rec(3, 4)), (17, 1, rec(3, 4) + rec(3, 4)), (32, 2, rec(3, 4) + rec(3, 4))):
        L.append("unpack %d %d %s" % (used, idx, hx(blob)))
    return L


def gen_super_boundary_lines():
    L = []
    for bs, log, comp in ((4096, 12, 1), (1 << 20, 20, 6), (2048, 11, 1), (1 << 21, 21, 1), (4096, 12, 0), (4096, 12, 7), (8192, 12, 1), (4096, 13, 1),
                          (4096, 11, 1), (1 << 20, 21, 1), (4095, 12, 1), ((1 << 20) + 1, 20, 1), (0, 12, 1)):
        f = {"magic": 0x73717368, "inode_count": 5, "mtime": 0, "block_size": bs, "frag_count": 1, "comp": comp, "log": log, "flags": 0, "id_count": 1,
             "vmaj": 4, "vmin": 0, "root": 0, "used": 4096, "idt": 3000, "xat": 2 ** 64 - 1, "ino": 96, "dts": 1000, "fts": 2000, "ets": 2 ** 64 - 1}
        L.append("super " + hx(pack_super(f)))
    return L


def gen_table_boundary_lines():
    """id table / fragment table: every start field one below, at and one above the field it is compared with; index = count - 1,
    count"""
    L = []
    import random as _r
    r0 = _r.Random(1)
    # id table: 3 ids in one block
    raw = struct.pack("<III", 0, 1000, 65534)
    img, lower, start, locs = table_image(r0, raw)
    img += bytes(16)
    used = len(img)
    for fields in (dict(), dict(bytes_used=start + 1), dict(bytes_used=start), dict(bytes_used=start + 8), dict(idt=used - 1, bytes_used=used), dict(idt=used, bytes_used=used),
                   dict(dts=locs[0]), dict(dts=locs[0] + 1), dict(fts=locs[0]), dict(fts=locs[0] + 1), dict(ets=locs[0] + 1), dict(id_count=4), dict(id_count=2)):
        f = dict(id_count=3, bytes_used=used, idt=start, dts=lower)
        f.update(fields)
        L += ["img " + hx(img), sb_line(**f), "idtable"] + ["idx %d" % i for i in (0, 2, 3, 4, 0xFFFF)]
    # fragment table: 2 entries; layout: pad | block | locations (fts) | 16 bytes | id table start
    raw = struct.pack("<QIIQII", 96, 1 << 24 | 100, 0, 500, 200, 0)
    img, lower, start, locs = table_image(r0, raw)
    idt = len(img) + 16
    img += bytes(48)
    used = len(img)
    for fields in (dict(), dict(bytes_used=start + 1), dict(bytes_used=start), dict(dts=start), dict(dts=start + 1), dict(dts=start - 1), dict(dts=locs[0] + 1),
                   dict(idt=start + 1), dict(idt=start), dict(idt=start + 2), dict(ets=start), dict(ets=start - 1), dict(ets=start + 1), dict(frag_count=3), dict(frag_count=1),
                   dict(frag_count=0), dict(flags=0x10), dict(fts=2 ** 64 - 1)):
        f = dict(frag_count=2, bytes_used=used, idt=idt, dts=lower, fts=start)
        f.update(fields)
        L += ["img " + hx(img), sb_line(**f), "fragtable"] + ["fragidx %d" % i for i in (0, 1, 2, 3, 0xFFFFFFFF)]
    return L


def gen_xattr_boundary_group():
    """a well-formed xattr table written out by hand (two key-value blocks, the first one full), then the same table with one
    field moved to each side of the comparison that guards it: xattr_id_table_start against bytes_used, id block locations
    against bytes_used, descriptor index against the count, out-of-line references against the end of the table and against
    the block size"""
    pad = 96
    xstart = pad
    kv = bytearray()
    # pair 0: user.a = "xy"
    p0 = len(kv); kv += struct.pack("<HH", 0, 1) + b"a" + struct.pack("<I", 2) + b"xy"
    # pair 1..4: out-of-line values; the 8 byte references are patched below
    ool = []
    for nm in (b"b", b"c", b"d", b"e"):
        at = len(kv); kv += struct.pack("<HH", 0x100, 1) + nm + struct.pack("<I", 8); ool.append((at, len(kv))); kv += bytes(8)
    # pair 5: plain
    p5 = len(kv); kv += struct.pack("<HH", 1, 3) + b"key" + struct.pack("<I", 1) + b"v"
    kv += det_bytes(8191 - len(kv))
    assert len(kv) == 8191
    tgt = len(kv)                                              # stream offset 8191: last byte of block 0
    kv += struct.pack("<I", 3) + b"ool"                        # value header straddles the two blocks
    blk0, blk1 = mblock(kv[:8192]), mblock(kv[8192:])
    pos0, pos1 = 0, len(blk0)
    descs = [((pos0 << 16) | p0, 1, 0), ((pos0 << 16) | ool[0][0], 4, 0), ((pos0 << 16) | p5, 1, 0)]
    idblk = mblock(b"".join(struct.pack("<QII", *d) for d in descs))
    idloc = pad + len(blk0) + len(blk1)
    xat = idloc + len(idblk)
    used = xat + 16 + 8
    end_rel = used - xstart                                    # xattr_end - xattr_start

    def image(refs, nids=3, loc=idloc):
        b0 = bytearray(blk0)
        for (at, where), r in zip(ool, refs):
            b0[2 + where:2 + where + 8] = struct.pack("<Q", r)
        return bytes(pad) + bytes(b0) + blk1 + idblk + struct.pack("<QII", xstart, nids, 0) + struct.pack("<Q", loc)

    good = (pos0 << 16) | 8191
    refs = [good, (pos0 << 16) | 8192, ((end_rel - 1) << 16), (end_rel << 16)]
    walk = ["xnew", "xload"] + ["xdesc %d" % i for i in (0, 1, 2, 3, 4, 0xFFFFFFFF)]
    vals = ["xnew", "xload", "xseek %d" % descs[1][0]] + ["xkey", "xval 256"] * 4 + ["xnew", "xload", "xall 1", "xnew", "xload", "xall 0", "xall 2", "xall 3"]
    L = []
    for nids, loc, fields in ((3, idloc, {}), (2, idloc, {}), (4, idloc, {}), (3, idloc, dict(xat=xat, bytes_used=xat)), (3, idloc, dict(xat=xat, bytes_used=xat + 1)),
                              (3, idloc, dict(xat=xat, bytes_used=xat + 16)), (3, used, {}), (3, used + 1, {}), (3, used - 1, {})):
        f = dict(bytes_used=used, idt=pad, xat=xat)
        f.update(fields)
        L += ["img " + hx(image(refs, nids, loc)), sb_line(**f)] + walk + (vals if not fields and loc == idloc else [])
    # 512 descriptors fill the id block exactly: index 512 is the first one of a block that does not exist
    many = b"".join(struct.pack("<QII", (pos0 << 16) | p0, 1, 0) for _ in range(512))
    big = bytes(pad) + blk0 + blk1 + mblock(many)
    xat2 = len(big)
    big += struct.pack("<QII", xstart, 512, 0) + struct.pack("<Q", idloc)
    L += ["img " + hx(big), sb_line(bytes_used=len(big), idt=pad, xat=xat2), "xnew", "xload"] + ["xdesc %d" % i for i in (511, 512, 513)]
    return L


def gen_dirlist_boundary_lines():
    """one listing of two headers (2 + 1 entries) read with every listing size from 0 to its length + 15 (the metadata ends with the listing); headers announcing 255,
    256 and 257 entries"""
    pad = 96
    ent = lambda off, nm: struct.pack("<HhHH", off, 0, 2, len(nm) - 1) + nm
    listing = struct.pack("<III", 1, 0, 5) + ent(0, b"abc") + ent(32, b"defgh") + struct.pack("<III", 0, 0, 9) + ent(64, b"z")
    L = []
    img = bytes(pad) + mblock(listing) + bytes(8)
    limit = pad + 2 + len(listing)
    L += ["img " + hx(img), sb_line(bytes_used=len(img), idt=limit, dts=pad)]
    for sz in range(0, len(listing) + 16):
        L.append("dirlist 0 0 %d" % sz)
    for off in (1, len(listing) - 1, len(listing), 8191, 8192):
        L.append("dirlist 0 %d %d" % (off, len(listing) + 3))
    for cnt in (254, 255, 256, 0xFFFFFFFF):
        lst = struct.pack("<III", cnt, 0, 5) + b"".join(ent(i, b"n%03d" % i) for i in range(3))
        img = bytes(pad) + mblock(lst)
        L += ["img " + hx(img), sb_line(bytes_used=len(img), idt=len(img), dts=pad), "dirlist 0 0 %d" % (len(lst) + 3), "dirlist 0 0 100000"]
    return L


# ---------------------------------------------------------------- width of the size / count arithmetic (seeded C05-c2)
# Announced counts for which a product that the C text computes in size_t no longer fits 32 bits, with small low bits so that
# the truncated value is a plausible small table: 2^28 +- 1 (x16 = 2^32 +- 16), 2^29, 2^29 + 1, 2^31 +- 1, 2^32 - k.
WIDTH_COUNTS = [2 ** 28 - 1, 2 ** 28, 2 ** 28 + 1, 2 ** 29, 2 ** 29 + 1, 2 ** 31 - 1, 2 ** 31 + 1, 0xF0000001, 0xFFFFFFFF]


def width_xattr_image(count):
    """pad | key-value block (user.a = "xy") | one block of 4 descriptors | xattr id table header announcing `count` descriptors |
    locations: the first one honest, zeroes behind.  Returns (bytes stored, xattr_id_table_start, blocks the count needs,
    blocks a 32 bit product gives)"""
    pad = 96
    blk = mblock(struct.pack("<HH", 0, 1) + b"a" + struct.pack("<I", 2) + b"xy")
    desc = mblock(struct.pack("<QII", 0, 1, 0) * 4)
    idloc = pad + len(blk)
    xat = idloc + len(desc)
    head = bytes(pad) + blk + desc + struct.pack("<QII", pad, count, 0) + struct.pack("<Q", idloc)
    return head, xat, (count * 16 + 8191) // 8192, ((count * 16) % 2 ** 32 + 8191) // 8192


def width_frag_image(count, honest):
    """pad | one block holding one fragment entry | locations (fragment_table_start): the first one honest (or 0), zeroes behind"""
    pad = 96
    blk = mblock(struct.pack("<QII", 96, 1 << 24 | 100, 0))
    fts = pad + len(blk)
    head = bytes(pad) + blk + struct.pack("<Q", pad if honest else 0)
    return head, fts, (count * 16 + 8191) // 8192, ((count * 16) % 2 ** 32 + 8191) // 8192


def gen_width_boundary_lines(counts=None, full_from=0):
    """Deterministic.  Every allocation size / block count of the table loaders at the counts where a 32 bit (id table: 16 bit)
    product differs from the size_t one.  The location arrays are really there (`imgz`: zeroes behind the stored bytes), so the
    loaders get as far as the honest code gets; `valloc 1` lets the harness grant the requests no allocator would; `allocs`
    compares what was asked for.  Then the index bound: lookups below / at the announced count and just beyond the table a
    truncated product would have allocated."""
    L = ["valloc 1"]
    counts = WIDTH_COUNTS if counts is None else counts
    # --- sqfs_xattr_reader_load / get_desc
    for count in counts:
        head, xat, n, n32 = width_xattr_image(count)
        variants = [("full", xat + 16 + 8 * n)] if count < 2 ** 31 or count == 0xF0000001 else []
        if n32 < n:
            variants.append(("short", xat + 16 + 8 * max(n32, 1)))       # the file ends where a truncated location array would end
        for kind, size in variants:
            L += ["imgz %d %s" % (size, hx(head)), sb_line(bytes_used=size, idt=96, xat=xat), "xnew", "xload", "allocs"]
            idxs = [0, 3, 4, 511, 512, 512 * n32, 512 * n32 + 1, count - 1, count]
            idxs += [i for i in (2 ** 28, 2 ** 28 + 1, 2 ** 28 + 4, 2 ** 31, 2 ** 31 + 3) if i < count]
            L += ["xdesc %d" % i for i in sorted(set(i for i in idxs if 0 <= i < 2 ** 32))]
            L += ["xall %d" % i for i in (1, 512 * n32, count - 1)]
    # --- sqfs_frag_table_read -> sqfs_read_table
    for count in counts:
        for honest in (True, False):
            head, fts, n, n32 = width_frag_image(count, honest)
            variants = [("full", n)] if count < 2 ** 31 or (count == 2 ** 31 + 1 and honest) else []
            if n32 < n and honest:
                variants.append(("short", max(n32, 1)))
            for kind, nloc in variants:
                idt = fts + 8 * nloc
                L += ["imgz %d %s" % (idt + 8, hx(head)), sb_line(frag_count=count, bytes_used=idt + 8, idt=idt, dts=96, fts=fts), "fragtable", "allocs"]
                L += ["fragidx %d" % i for i in (0, 1, count - 1, count & 0xFFFFFFFF)]
    # --- sqfs_id_table_read: the count is 16 bit, the product fits 32 bits for every count; the narrower type here is 16 bits
    import random as _r
    for count in (16383, 16384, 16385, 32769, 65535):
        raw = b"".join(struct.pack("<I", 1000 + i) for i in range(count))
        img, lower, start, locs = table_image(_r.Random(2), raw)
        img += bytes(16)
        L += ["img " + hx(img), sb_line(id_count=count, bytes_used=len(img), idt=start, dts=lower), "idtable", "allocs"]
        L += ["idx %d" % i for i in (0, (count * 4 % 65536) // 4, count - 1, count)]
    # --- read_inode_file_ext: block count / byte count of the block list beyond 32 bits; the words a truncated count asks for are there
    base = struct.pack("<HHHHII", 9, 0o644, 0, 0, 5, 7)
    for bs in (4096, 1 << 20):
        for cnt in (2 ** 30 - 1, 2 ** 30, 2 ** 30 + 1, 2 ** 30 + 2, 2 ** 31 + 1, 2 ** 32 - 1, 2 ** 32, 2 ** 32 + 1, 2 ** 32 + 3):
            if cnt * bs >= 2 ** 64:
                continue
            for nw in sorted({x for x in (cnt % 2 ** 32, (cnt * 4 % 2 ** 32) // 4) if x <= 8} or {0}):
                L.append("inode %d %s" % (bs, hx(base + struct.pack("<QQQIIII", 0, cnt * bs, 0, 1, 0xFFFFFFFF, 0, 0xFFFFFFFF) + struct.pack("<I", 1 << 24 | 4096) * nw)))
                L.append("allocs")
    # --- read_inode_dir_ext: sizeof(ent) + ent.size + 1 beyond 32 bits, enough bytes behind the entry to leave a 128 byte index
    for sz in (0xFFFFFFF2, 0xFFFFFFF3, 0xFFFFFFF4, 0xFFFFFFFE, 0xFFFFFFFF):
        blob = struct.pack("<HHHHII", 8, 0o755, 0, 0, 5, 1) + struct.pack("<IIIIHHI", 2, 3, 0, 0, 1, 0, 0xFFFFFFFF) + struct.pack("<III", 0, 0, sz) + det_bytes(300)
        L.append("inode 4096 " + hx(blob))
    # --- sqfs_inode_unpack_dir_index_entry: size + 1 beyond 32 bits
    for sz, used in ((0xFFFFFFFF, 16), (0xFFFFFFFE, 16), (0xFFFFFFFF, 13)):
        L.append("unpack %d 0 %s" % (used, hx(struct.pack("<III", 7, 9, sz) + det_bytes(4))))
    L.append("valloc 0")
    # --- sqfs_xattr_reader_read_value: sizeof(*out) + 1 + value.size beyond 32 bits (the allocator of the sanitizer refuses the honest request)
    for vsz in (0xFFFFFFFA, 0xFFFFFFFB, 0xFFFFFFFC, 0xFFFFFFFF):
        kv = struct.pack("<HH", 0, 1) + b"a" + struct.pack("<I", vsz) + det_bytes(64)
        blk = mblock(kv)
        idblk = mblock(struct.pack("<QII", 0, 1, 0))
        idloc = 96 + len(blk)
        xat = idloc + len(idblk)
        img = bytes(96) + blk + idblk + struct.pack("<QII", 96, 1, 0) + struct.pack("<Q", idloc)
        L += ["img " + hx(img), sb_line(bytes_used=len(img), idt=96, xat=xat), "xnew", "xload", "xseek 0", "xkey", "xval 0"]
    return L


def boundary_groups():
    return [("inode-boundary", gen_inode_boundary_lines()), ("inode-misc-boundary", gen_inode_misc_boundary_lines()),
            ("meta-boundary", gen_meta_boundary_group()), ("data-boundary", gen_data_boundary_lines()),
            ("super-boundary", gen_super_boundary_lines()), ("table-boundary", gen_table_boundary_lines()),
            ("xattr-boundary", gen_xattr_boundary_group()), ("dirlist-boundary", gen_dirlist_boundary_lines()),
            ("width-boundary", gen_width_boundary_lines())]


def run_harness(ctx, exe, lines):
    """run the line harness with crash recovery: returns list of outputs; a crashed line gets ('CRASH', rc, stderr)"""
    out = [None] * len(lines)
    i = 0
    ctxlines = []          # img / mr lines needed to restore state
    while i < len(lines):
        chunk = lines[i:]
        pre = list(ctxlines)
        text = "\n".join(pre + chunk) + "\n"
        try:
            r = vlib.sh([str(exe)], input=text, env=ctx.san_env({"ASAN_OPTIONS": ASAN_OPTS}), timeout=300)
            got = r.stdout.splitlines()[len(pre):]
            rc, err = r.returncode, r.stderr
        except subprocess.TimeoutExpired as e:
            got = (e.stdout or b"").decode(errors="replace").splitlines()[len(pre):] if isinstance(e.stdout, bytes) else (e.stdout or "").splitlines()[len(pre):]
            rc, err = "timeout", ""
        for k, g in enumerate(got[:len(chunk)]):
            out[i + k] = g
        done = min(len(got), len(chunk))
        if done == len(chunk) and rc == 0:
            break
        out[i + done] = ("CRASH", rc, err[-3000:])
        # state lines that must be replayed: last img, and the reader is gone (next group starts with its own mr)
        last_img, last_sb, last_va = None, None, None
        for l in lines[:i + done + 1]:
            if l.startswith(("img ", "imgz ")):
                last_img, last_sb = l, None
            elif l.startswith("sb "):
                last_sb = l
            elif l.startswith("valloc "):
                last_va = l
        ctxlines = [x for x in (last_va, last_img, last_sb) if x]
        i = i + done + 1
    return out


ASAN_OPTS = "detect_leaks=0:abort_on_error=0:exitcode=99:allocator_may_return_null=1:max_allocation_size_mb=3000:hard_rss_limit_mb=3000"


def crash_site(stderr):
    """first function of the code under test in an ASan/UBSan report (I/O and codec leaf wrappers skipped)"""
    for m in re.finditer(r"#\d+ 0x[0-9a-f]+ in (\S+) (\S+)", stderr):
        fn, where = m.group(1), m.group(2)
        if "/lib/" in where or "/bin/" in where:
            if "sanitizer" in where or "/harness/" in where:
                continue
            if fn in ("stdio_read_at", "stdio_write_at") or "/comp/" in where:
                continue
            return fn
    m = re.search(r"(\S+\.c:\d+:\d+): runtime error", stderr)
    return m.group(1) if m else None


# Generator self-test (`sqfsmodel c05 sens`, lean/Sqfs/Model/ReaderMut.lean): every modelled comparison moved by one in each
# direction must be told apart from the model by at least SENS_FLOOR lines of the *deterministic* boundary groups (the random
# groups are counted too, but a floor that rests on them would depend on the seed).  Mutants that cannot be told apart by any
# input, with the reason:
SENS_FLOOR = 1
SENS_EQUIVALENT = {
    "read.guard:up": "offset > data_used never holds in the tree (failed seeks clear the reader); at offset = data_used + 1 nothing is reachable",
    "read.diff:dn": "diff >= size and diff > size choose the same value when diff = size",
    "stream.fragoff:dn": "frag_blk_size = frag_off fails the next test (0 < buf_used) with the same error",
    "stream.bufused:dn": "filesz = block_size: both branches give block_size",
    "dread.eof:up": "offset = filesz: the clip to filesz - offset = 0 returns 0 as well",
    "dread.clip:dn": "filesz - offset = size: clipping changes nothing",
    "dread.diff:dn": "size = diff: same value",
    "dread.fragstart:up": "frag_off + offset = frag_blk_size fails the next test (0 < size) with the same error",
    "inode.dirext.need:up": "an index buffer doubled one entry earlier: same status, larger allocation",
    "inode.dirext.grow:dn": "ditto (>= instead of >)",
    "inode.file.bufsize:up": "a larger allocation",
    "unpack.offset:dn": "offset = used - 1 fails the header test (used - offset < 12) with the same error",
    "unpack.offset:up": "offset = used: used - offset = 0 fails the header test with the same error",
    "unpack.hdr:dn": "used - offset = 12: a name of at least one byte cannot fit, same error one test later",
    "super.bsmin:up": "4095 is not a power of two (refused before)",
    "super.bsmax:up": "2^20 + 1 is not a power of two (refused before)",
    "super.logmin:up": "block_log = 11: block_size >= 4096 != 2^11, same error one test later",
    "super.logmax:up": "block_log = 21: block_size <= 2^20 != 2^21, same error one test later",
    "xval.start:up": "new_start = xattr_end is refused by the seek (window of the reader) with the same error",
    "xval.off:up": "offset 8192 is refused by the seek (offset >= data_used) with the same error",
    "dirlist.consume:dn": "one byte left or none: the next call ends the listing either way",
    "dirlist.consume:up": "count = size: size - count = 0 as well",
    "dirent.alloc:up": "a larger allocation",
    "slink.alloc:up": "a larger allocation",
}


def sens_level(ctx, groups, lines, owner, model, stats):
    """the generator self-test: which mutated models do the generated lines tell apart from the model of the tree"""
    names = ctx.driver(["c05", "sens-mutants"], "")
    out = ctx.driver(["c05", "sens"], "\n".join(lines) + "\n")
    assert len(out) == len(lines), "model driver answered %d of %d lines in sens mode" % (len(out), len(lines))
    det = {gi for gi, (kind, _) in enumerate(groups) if kind.endswith("-boundary")}
    kills_det, kills_all = {}, {}
    first = {}
    stale = 0
    for i, o in enumerate(out):
        parts = o.split("\t")
        if parts[0] != model[i] or len(parts) > 2:
            stale += 1
            if stale <= 3:
                ctx.violation("sens:stale-copy:" + vlib.sha(lines[i])[:8],
                              "generator self-test: the unmutated copies of lean/Sqfs/Model/ReaderMut.lean answer %r where the model answers %r on %r: the copies no longer follow the model"
                              % (parts[2:] or parts[0], model[i], lines[i][:120]), {"kind": "self-test", "line": lines[i][:2000]}, found_input=False)
            continue
        for k in (parts[1].split(",") if len(parts) > 1 and parts[1] else []):
            kills_all[k] = kills_all.get(k, 0) + 1
            if owner[i] in det:
                kills_det[k] = kills_det.get(k, 0) + 1
                first.setdefault(k, lines[i][:100])
    missing = []
    for n in names:
        if n in SENS_EQUIVALENT:
            continue
        if kills_det.get(n, 0) < SENS_FLOOR:
            missing.append(n)
            ctx.violation("sens:floor:" + n, "generator self-test: the deterministic boundary lines tell the mutated comparison %r apart from the model %d time(s) (floor %d; all lines: %d): "
                          "a change of that comparison in the code would go unnoticed" % (n, kills_det.get(n, 0), SENS_FLOOR, kills_all.get(n, 0)),
                          {"kind": "self-test", "mutant": n, "kills_deterministic": kills_det.get(n, 0), "kills_all": kills_all.get(n, 0)}, found_input=False)
    stats["sens"] = {"mutants": len(names), "declared_equivalent": len([n for n in names if n in SENS_EQUIVALENT]),
                     "below_floor": missing, "stale_lines": stale,
                     "equivalent_but_told_apart": sorted(n for n in names if n in SENS_EQUIVALENT and kills_all.get(n)),
                     "kills_deterministic": {n: kills_det.get(n, 0) for n in names if n not in SENS_EQUIVALENT},
                     "kills_all_lines": {n: kills_all.get(n, 0) for n in names if n not in SENS_EQUIVALENT},
                     "min_kills_deterministic": min([kills_det.get(n, 0) for n in names if n not in SENS_EQUIVALENT] or [0])}


def routine_groups(ctx):
    groups = []
    ng = 30 if ctx.quick() else 250
    cdir = vlib.CORPUS / "C05"
    for p in sorted(cdir.glob("*.script")) if cdir.exists() else []:
        groups.append(("corpus:" + p.name, [l for l in p.read_text().splitlines() if l and not l.startswith("#")]))
    groups += boundary_groups()
    for g in range(ng):
        groups.append(("meta", gen_meta_group(ctx.rng)))
        groups.append(("data", gen_data_lines(ctx.rng)))
        if g % 2 == 0:
            groups.append(("inode", gen_inode_lines(ctx.rng)))
            groups.append(("unpack", gen_unpack_lines(ctx.rng)))
            groups.append(("resolve", gen_resolve_lines(ctx.rng)))
            groups.append(("super", gen_super_lines(ctx.rng)))
            groups.append(("dopen", gen_dopen_lines(ctx.rng)))
            groups.append(("dentry", gen_dentry_lines(ctx.rng)))
        if g % 3 == 0:
            groups.append(("table", gen_table_lines(ctx.rng)))
            groups.append(("dirlist", gen_dirlist_lines(ctx.rng)))
        if g % 3 != 2:
            groups.append(("xattr", gen_xattr_group(ctx.rng)))
    return groups


def routine_level(ctx, harness, stats):
    groups = routine_groups(ctx)
    lines, owner = [], []
    for gi, (kind, ls) in enumerate(groups):
        lines += ls
        owner += [gi] * len(ls)
    text = "\n".join(lines) + "\n"
    model = ctx.driver(["c05"], text)
    cur = ctx.driver(["c05", "current"], text)
    impl = run_harness(ctx, harness, lines)
    assert len(model) == len(lines) == len(cur)
    sens_level(ctx, groups, lines, owner, model, stats)
    # The reader objects keep being used after failed calls and every such line is compared (the models carry the
    # state a failed call leaves behind).  Only after the allocator refused a request the model granted (`err ALLOC`
    # from the real code, accepted below) the two sides are out of step until the object is made anew.
    poisoned = set()
    xpoisoned = False
    nontrivial = set()
    hist = {}
    XOPS = ("xdesc", "xseek", "xkey", "xval", "xall")
    for i, l in enumerate(lines):
        op = l.split(" ", 1)[0]
        if op == "mr":
            poisoned.discard(owner[i])
        if op in ("xnew", "img"):
            xpoisoned = False
        m = model[i]
        m_status = m.split(" UNSAFE")[0]
        if " UNSAFE" in m:
            ctx.violation("model-unsafe:" + vlib.sha(l)[:10], "the repaired model itself reports an out-of-bounds access (theorem/driver mismatch): %s -> %s" % (l[:200], m),
                          {"line": l, "model": m}, found_input=False)
        c_status, c_unsafe = cur[i].split(" UNSAFE")[0], (cur[i].split(" UNSAFE ")[1] if " UNSAFE " in cur[i] else None)
        got = impl[i]
        hist[op] = hist.get(op, 0) + 1
        stats["lines"] += 1
        if isinstance(got, tuple):
            _, rc, err = got
            stats["crashes"] += 1
            site = crash_site(err) if isinstance(err, str) else None
            key = BUF_KEYS.get(c_unsafe.split(":")[0]) if c_unsafe else None
            if key is None and op == "inode" and isinstance(err, str) and "double-free" in err and " in read_inode_slink_ext " in err:
                key = K_D28      # the failed call left a freed pointer in *result; the harness frees it like resolve_path does
            replay = {"kind": "routine", "lines": [x for k, x in enumerate(lines) if owner[k] == owner[i] and k <= i], "rc": rc,
                      "site": site, "stderr": (err or "")[-1500:], "model_current": cur[i], "model_repaired": m}
            if key:
                stats["known_crashes"][key] = stats["known_crashes"].get(key, 0) + 1
                ctx.violation(key, "real code left a buffer (rc=%s, site=%s) exactly where the model of the current code does: %s -> %s" % (rc, site, l[:120], cur[i][-80:]), replay)
            else:
                ctx.violation("crash:routine:" + (site or "?") + ":" + vlib.sha(l)[:8],
                              "real code aborted (rc=%s) in %s on routine-level line %r; the model of the current code predicts no out-of-bounds access" % (rc, site, l[:200]), replay)
            if op in ("seek", "read"):
                poisoned.add(owner[i])
            if op in XOPS or op == "xload":
                xpoisoned = True                   # the restarted harness has no xattr reader until the next `xnew`
            continue
        if got is None:
            continue
        if (owner[i] in poisoned and op in ("seek", "read")) or (xpoisoned and op in XOPS):
            stats["post_failure_lines"] += 1
            continue
        if op in ("seek", "read") + XOPS and got.startswith("err"):
            stats["failed_calls_then_used_on"] = stats.get("failed_calls_then_used_on", 0) + 1
        if got.startswith("err") or "err" in got.split()[-2:]:
            nontrivial.add(l if len(l) < 300 else op + ":" + vlib.sha(l)[:12] + ":" + str(i))
        if op in ("dread", "inode", "dirent") and got.startswith("err ") and got != "err ALLOC":
            got = "err"                            # the model does not name the error for these operations
        if got == m_status:
            continue
        if got == "err ALLOC":
            stats["alloc_refused"] = stats.get("alloc_refused", 0) + 1        # the allocator may refuse any request
            if op in XOPS:
                xpoisoned = True
            if op in ("seek", "read"):
                poisoned.add(owner[i])
            continue
        opkey = OP_KEYS.get(op)
        if got == c_status and not c_unsafe and opkey and ctx.known_finding(opkey) is not None:
            # behaviour of the unrepaired routine on an input where it stays inside its buffers (e.g. a record the
            # repaired code refuses); accepted only while the defect of this routine is a recorded, unrepaired finding
            stats["unpatched_benign"] = stats.get("unpatched_benign", 0) + 1
            continue
        stats["disagreements"] += 1
        replay = {"kind": "routine", "lines": [x for k, x in enumerate(lines) if owner[k] == owner[i] and k <= i], "impl": got,
                  "model_repaired": m, "model_current": cur[i]}
        if got == c_status and c_unsafe:
            # the unpatched code behaves as the model of the current code says, and that model leaves a buffer
            key = BUF_KEYS.get(c_unsafe.split(":")[0], "unsafe:" + c_unsafe.split(":")[0])
            stats["known_silent"][key] = stats["known_silent"].get(key, 0) + 1
            ctx.violation(key, "real code accepts what the repaired logic refuses, and the access is outside its buffer (%s): %s -> impl %s" % (c_unsafe, l[:120], got), replay)
        else:
            ctx.violation("corr:routine:" + op + ":" + vlib.sha(l)[:8],
                          "model and real code disagree on %r: impl=%s model=%s (current-code model=%s)" % (l[:160], got, m, cur[i]), replay,
                          found_input=False)
    stats["routine_ops"] = hist
    return nontrivial, lines, impl, model



# ====================================================================== A2. the codec contract on the real decompressors
COMP_NAMES = {1: "gzip", 2: "lzma", 3: "lzo", 4: "xz", 5: "lz4", 6: "zstd"}


class RealCodec:
    """the compressors of the working tree behind the routine-level harness (persistent process, one line per block)"""
    def __init__(self, ctx, exe):
        self.p = subprocess.Popen([str(exe)], stdin=subprocess.PIPE, stdout=subprocess.PIPE, stderr=subprocess.DEVNULL, text=True,
                                  env=ctx.san_env({"ASAN_OPTIONS": ASAN_OPTS}))

    def ask(self, line):
        self.p.stdin.write(line + "\n")
        self.p.stdin.flush()
        return self.p.stdout.readline().strip()

    def compress(self, cid, bs, data):
        a = self.ask("cpack %d %d %s" % (cid, bs, hx(data)))
        return bytes.fromhex(a[3:]) if a.startswith("ok ") else None

    def available(self, cid):
        return self.ask("cpack %d 4096 00" % cid) != "nocomp"

    def close(self):
        try:
            self.p.stdin.close()
            self.p.wait(timeout=10)
        except Exception:
            self.p.kill()


CODEC_FLOORS = {
    # class -> minimum number of decompressor calls of that class per compiled-in codec (self-test of the generator: a
    # class that is not produced any more is reported, it cannot disappear silently)
    "bomb": 20,              # honest stream that unpacks to L bytes, outsize < L <= block_size
    "bomb:meta": 2,          # ... with outsize = 8192 < L <= block_size (a metadata buffer)
    "announce": 40,          # payload of L <= outsize bytes whose header announces H, outsize < H <= block_size
    "announce:+1": 4,        # ... H = outsize + 1
    "announce:bs": 4,        # ... H = block_size
    "announce:meta": 6,      # ... outsize = 8192 (metadata buffer), 8192 < H <= block_size
    "announce:over-bs": 4,   # H > block_size
    "announce:short": 4,     # H < L <= outsize (announces less than it holds)
    "announce+bomb": 4,      # L > outsize and outsize < H <= block_size
}


def codec_level(ctx, harness, stats):
    """The contract `ret < 0 or ret <= outsize` (hypothesis of every theorem about a caller of do_block) on every compiled-in
    decompressor, for the class "outsize smaller than block_size" (metadata: 8192; last data block / fragment tail: anything):
      * honest streams of L bytes with outsize below, at and above L (also L up to block_size: "bombs" for small buffers);
      * hostile headers: the same payload announcing H bytes (LZMA-alone size field, xz index record and block header,
        zstd Frame_Content_Size; CRCs made consistent) with H around outsize, between outsize and block_size, at and
        above block_size;
      * truncated / bit-flipped / extended streams and junk.
    Every answer goes through `codecret` of the model driver (Spec: codecContract); no sanitizer report; a round trip with
    outsize >= L must return L.  The classes are counted per codec and compared with CODEC_FLOORS."""
    rng = ctx.rng
    rc = RealCodec(ctx, harness)
    ids = [c for c in range(1, 7) if rc.available(c)]
    stats["codecs"] = [COMP_NAMES[c] for c in ids]
    quick = ctx.quick()
    lines, meta = [], []          # meta: (comp id, outsize, expected size when the call must succeed or None, class labels)
    nmut = 4 if quick else 30
    klass = {c: {} for c in ids}

    def add(cid, bs, outsize, blob, want, labels):
        lines.append("cunpack %d %d %d %s" % (cid, bs, outsize, hx(blob)))
        meta.append((cid, outsize, want, labels))
        for lab in labels:
            klass[cid][lab] = klass[cid].get(lab, 0) + 1

    def payload(L, k):
        # compressible but not trivial: text-like with a counter
        unit = b"".join(b"entry %05d of block %d;" % (i * 7 + k, k) for i in range(40))
        return (unit * (L // len(unit) + 1))[:L]

    for cid in ids:
        for bi, bs in enumerate([4096, 16384, 131072, 1048576] if quick else [4096, 8192, 16384, 32768, 131072, 1048576]):
            Ls = sorted({1, 100, 4000, 8192, min(12000, bs), bs})
            for li, L in enumerate(Ls):
                pl = payload(L, li + 10 * bi)
                blob = rc.compress(cid, bs, pl)
                if blob is None:
                    continue
                # ---- honest stream, outsize around L, around the metadata buffer, around block_size
                for outsize in sorted({0, 1, max(L - 1, 0), L, L + 1, 8191, 8192, 8193, bs - 1, bs, bs + 1}):
                    labs = []
                    if outsize < L <= bs:
                        labs.append("bomb")
                        if outsize == 8192:
                            labs.append("bomb:meta")
                    add(cid, bs, outsize, blob, L if outsize >= L else None, labs)
                # ---- hostile announcements
                outs = sorted({L, L + 1, 8192, bs - 1, bs} | ({L - 1, 1} if L > 1 else set()))
                for outsize in outs:
                    Hs = sorted({max(outsize - 1, 0), outsize, outsize + 1, outsize + 2, (outsize + bs) // 2, bs - 1, bs, bs + 1, 2 * bs,
                                 max(L - 1, 0), 0, 0x7FFFFFFF, 0xFFFFFFFF})
                    for H in Hs:
                        for vlab, b in F.announce_variants(cid, blob, H):
                            labs = ["announce-any"]
                            if L <= outsize < H <= bs:
                                labs.append("announce")
                                if H == outsize + 1:
                                    labs.append("announce:+1")
                                if H == bs:
                                    labs.append("announce:bs")
                                if outsize == 8192:
                                    labs.append("announce:meta")
                            if L <= outsize and H > bs:
                                labs.append("announce:over-bs")
                            if H < L <= outsize:
                                labs.append("announce:short")
                            if L > outsize and outsize < H <= bs:
                                labs.append("announce+bomb")
                            add(cid, bs, outsize, b, None, labs)
                # ---- damaged streams
                for _ in range(nmut):
                    b = bytearray(blob)
                    k = rng.random()
                    if k < 0.3:
                        b = b[:rng.randrange(len(b))]
                    elif k < 0.75:
                        for _ in range(rng.randint(1, 3)):
                            b[rng.randrange(len(b))] ^= 1 << rng.randrange(8)
                    else:
                        b += bytes(rng.randrange(256) for _ in range(rng.randint(1, 20)))
                    add(cid, bs, pick(rng, [0, 1, max(L - 1, 0), L, 8192, 100, bs]), b, None, ["damaged"])
        for _ in range(nmut * 2):
            junk = bytes(rng.randrange(256) for _ in range(pick(rng, [0, 1, 5, 13, 14, 64, 300])))
            add(cid, 8192, pick(rng, [0, 1, 100, 8192]), junk, None, ["junk"])
    rc.close()
    out = run_harness(ctx, harness, lines)
    mon, monidx = [], []
    hist = {}
    over = {}
    for i, (l, o) in enumerate(zip(lines, out)):
        cid, outsize, want, labs = meta[i]
        stats["codec_calls"] = stats.get("codec_calls", 0) + 1
        if isinstance(o, tuple):
            ctx.violation("codec-crash:%s:%s" % (COMP_NAMES[cid], vlib.sha(l)[:8]),
                          "the %s decompressor of the tree aborted (rc=%s, %s) on a block with outsize=%d (%s)" % (
                              COMP_NAMES[cid], o[1], crash_site(o[2] or ""), outsize, ",".join(labs) or "honest stream"),
                          {"kind": "routine", "lines": [l], "rc": o[1], "stderr": (o[2] or "")[-1500:]})
            continue
        cls = (o or "none").split()[0]
        hist[COMP_NAMES[cid] + ":" + cls] = hist.get(COMP_NAMES[cid] + ":" + cls, 0) + 1
        if o and o.startswith("ret "):
            mon.append("codecret %d %s" % (outsize, o.split()[1]))
            monidx.append(i)
            if want is not None and int(o.split()[1]) != want:
                ctx.violation("codec-roundtrip:%s:%s" % (COMP_NAMES[cid], vlib.sha(l)[:8]),
                              "the %s decompressor returns %s for a block its own compressor made from %d bytes (outsize %d)" % (COMP_NAMES[cid], o, want, outsize),
                              {"kind": "routine", "lines": [l]}, found_input=False)
            elif want is not None:
                stats["codec_roundtrips"] = stats.get("codec_roundtrips", 0) + 1
    verdicts = ctx.driver(["c05"], "\n".join(mon) + "\n") if mon else []
    assert len(verdicts) == len(mon), "model driver answered %d of %d lines" % (len(verdicts), len(mon))
    for v, i in zip(verdicts, monidx):
        if v != "ok":
            cid, outsize, _, labs = meta[i]
            n = over.get(cid, 0)
            over[cid] = n + 1
            if n < 3:
                ctx.violation("codec-contract:%s:%s" % (COMP_NAMES[cid], vlib.sha(lines[i])[:8]),
                              "the %s decompressor reports %s for outsize=%d (%s): more bytes than the buffer holds (the contract every theorem about a caller of do_block assumes)"
                              % (COMP_NAMES[cid], out[i], outsize, ",".join(labs) or "honest stream"), {"kind": "routine", "lines": [lines[i]], "impl": out[i]})
    # ---- self-test of the generator: every class must have been produced for every codec that can express it
    for cid in ids:
        for lab, floor in CODEC_FLOORS.items():
            if lab.startswith("announce") and cid not in F.ANNOUNCERS:
                continue                      # gzip (zlib container) and lz4 (raw block) carry no size announcement
            got = klass[cid].get(lab, 0)
            if got < (floor if quick else 2 * floor):
                ctx.violation("sens:codec:%s:%s" % (COMP_NAMES[cid], lab),
                              "generator self-test: only %d decompressor calls of class %r for %s (floor %d): the codec contract is no longer exercised on that class"
                              % (got, lab, COMP_NAMES[cid], floor), {"kind": "self-test", "codec": COMP_NAMES[cid], "class": lab, "got": got, "floor": floor},
                              found_input=False)
    stats["codec_hist"] = hist
    stats["codec_classes"] = {COMP_NAMES[c]: klass[c] for c in ids}
    return ids


# ====================================================================== B. walk level
def gen_graph(rng):
    """random directory graph: edges (negative = file), inode numbers, basic/extended inode per directory and file"""
    n = rng.randint(1, 7)
    nf = rng.randint(0, 3)
    kind = rng.random()
    edges = [[] for _ in range(n)]
    for i in range(n):
        for _ in range(rng.randint(0, 3)):
            if nf and rng.random() < 0.25:
                edges[i].append(-rng.randrange(nf) - 1)                     # a regular file (possibly listed several times)
            elif kind < 0.45:
                j = rng.randint(i + 1, n) if i + 1 <= n - 1 else None      # tree/DAG: forward edges only
                if j is not None and j < n:
                    edges[i].append(j)
            else:
                edges[i].append(rng.randrange(n))                           # anything, cycles included
    if rng.random() < 0.5:
        inums = list(range(1, n + 1))
        finums = list(range(n + 1, n + nf + 1))
    else:
        inums = [rng.randint(1, 3) for _ in range(n)]                        # colliding inode numbers
        finums = [rng.randint(1, 4) for _ in range(nf)]                      # ... also between files and directories
    k = rng.random()
    ext = [k < 0.25 or (k > 0.5 and rng.random() < 0.5) for _ in range(n)]   # all extended / all basic / mixed
    fext = [rng.random() < 0.5 for _ in range(nf)]
    return edges, inums, ext, finums, fext


def graph_spec(fg, edges, inums, finums):
    """the `walk` line of the model for a forged graph image (inode references as node names)"""
    n = len(edges)
    ref = {i: F.Forge.ref_of(fg.nodes[i].pos) for i in range(n)}
    fref = {k: F.Forge.ref_of(fg.nodes[n + k].pos) for k in range(len(finums))}
    parts = ["%d:%d:1:%s" % (ref[i], inums[i], ",".join(str(ref[j]) if j >= 0 else str(fref[-j - 1]) for j in edges[i]) or "-") for i in range(n)]
    parts += ["%d:%d:0:-" % (fref[k], finums[k]) for k in range(len(finums))]
    return ";".join(parts)


def nesting_limit():
    """SQFS_MAX_DIR_NESTING of the working tree (None: the tree has no nesting limit; the models are then run with the
    value fixes/C05-nesting-limit.patch proposes and every difference is the recorded finding)"""
    try:
        m = re.search(r"#define\s+SQFS_MAX_DIR_NESTING\s+(\d+)", (vlib.REPO / "include/sqfs/dir.h").read_text())
    except OSError:
        m = None
    return int(m.group(1)) if m else None


def fixed_graphs(limit):
    """deterministic walk-level cases: (label, edges, inums, short_names)"""
    out = [("shared:listed-twice", [[1, 1], []], [1, 2], False),
           ("shared:two-parents", [[1, 2], [3], [3], []], [1, 2, 3, 4], False),
           ("shared:diamond4", [[i + 1, i + 1] for i in range(4)] + [[]], [1, 2, 3, 4, 5], False),
           ("shared:below-sibling", [[1, 2], [2], []], [1, 2, 3], False),
           ("inum:two-dirs-same-number", [[1, 2], [], []], [1, 2, 2], False),
           ("tree:plain", [[1, 2], [3], [], []], [1, 2, 3, 4], False)]
    for n in (limit - 1, limit, limit + 1, limit + 2):
        out.append(("chain:%d" % n, [[i + 1] for i in range(n)] + [[]], list(range(1, n + 2)), True))
    return out


def walk_known_key(want, cur, impl):
    """the tree behaves like the model of the unpatched walks where the repaired model refuses: which recorded finding"""
    if impl == cur and want != cur:
        if want == "err LINK_LOOP":
            return K_DAG
        if want == "err OVERFLOW":
            return K_DEEP
    return None


def walk_level(ctx, tools, stats):
    n = 25 if ctx.quick() else 300
    cyc_budget = 2 if ctx.quick() else 10
    d = ctx.scratch / "walk"
    d.mkdir(exist_ok=True)
    env = ctx.san_env({"ASAN_OPTIONS": ASAN_OPTS})
    tree_limit = nesting_limit()
    limit = tree_limit if tree_limit is not None else 4096
    stats["nesting_limit_of_tree"] = tree_limit
    specs = []
    for label, edges, inums, short in fixed_graphs(limit):
        fg = F.graph_image(edges, inums)
        if short:
            for dn in fg.nodes:
                dn.entries = [(b"d", e[1]) for e in dn.entries]
        img = fg.build()
        specs.append((graph_spec(fg, edges, inums, []), img, edges, [inums, None, [], []], label))
    for k in range(n):
        edges, inums, ext, finums, fext = gen_graph(ctx.rng)
        fg = F.graph_image(edges, inums, len(finums), ext, finums, fext)
        img = fg.build()
        spec = graph_spec(fg, edges, inums, finums)
        stats["walk_ext_dirs"] = stats.get("walk_ext_dirs", 0) + sum(ext)
        stats["walk_basic_dirs"] = stats.get("walk_basic_dirs", 0) + len(ext) - sum(ext)
        specs.append((spec, img, edges, [inums, ext, finums, fext], "random"))
    text = "\n".join("walkl %d %s" % (limit, s[0]) for s in specs) + "\n"
    model = ctx.driver(["c05"], text)
    current = ctx.driver(["c05", "current"], text)
    assert len(model) == len(specs) == len(current), "model driver answered %d/%d of %d walk lines" % (len(model), len(current), len(specs))
    pat = r"tree (ok \d+|err \S+|diverges) tar (ok \d+|err \S+|diverges)"

    def known(key, what, rp):
        stats["known_walk"][key] = stats["known_walk"].get(key, 0) + 1
        ctx.violation(key, what, rp)

    plain_tools, ptools = tools, pool_tools(tools)
    for wi, ((spec, img, edges, inums, label), ml, cl) in enumerate(zip(specs, model, current)):
        # every 5th graph (by index: diamond4, chain:<limit>, ...), one more shared sub-directory and chain:<limit+1> go through
        # the pool-configured tools instead; the model's answer and the comparison are the same
        in_pool = wi % 5 == 2 or label in ("shared:two-parents", "chain:%d" % (limit + 1))
        tools = ptools if in_pool else plain_tools
        conf = "pool" if in_pool else "malloc"
        if in_pool:
            stats["pool_walk_graphs"] = stats.get("pool_walk_graphs", 0) + 1
            stats.setdefault("pool_walk_labels", {})[label.split(":")[0]] = stats.get("pool_walk_labels", {}).get(label.split(":")[0], 0) + 1
        mm, cm = re.match(pat, ml), re.match(pat, cl)
        if not mm or not cm:
            ctx.violation("corr:walk:parse", "model answered %r / %r" % (ml[:200], cl[:200]), {"spec": spec[:2000]}, found_input=False)
            continue
        chain = label.startswith("chain:")
        p = d / "g.sqfs"
        p.write_bytes(img)
        stats["walk_images"] += 1
        mk = "walk_model_" + (mm.group(1).split()[1] if mm.group(1).startswith("err") else "ok")
        stats[mk] = stats.get(mk, 0) + 1
        img_rp = base64.b64encode(img).decode() if len(img) < 400000 else "(walk-level case %s, rebuilt by the check)" % label
        # rdsquashfs -d : fill_dir
        r = run_tool(ctx, [str(tools["rdsquashfs"]), "-d", str(p)], env, 60 if chain else 20, keep_all=chain)
        stats["pool_walk_runs"] = stats.get("pool_walk_runs", 0) + (1 if in_pool else 0)
        # one line per tree node; the root directory itself ("dir / ...", printed by newer describe.c) is not a node below the root
        cnt = len([l for l in r["out"].splitlines() if l.split(" ")[0] in ("dir", "file", "slink", "nod", "pipe", "sock")
                   and l.split(" ")[1:2] not in (["/"], ['"/"'])])
        if r["rc"] == 0:
            impl = "ok %d" % cnt
        elif "link loop" in r["err"]:
            impl = "err LINK_LOOP"
        elif "numeric overflow" in r["err"]:
            impl = "err OVERFLOW"
        else:
            impl = "err rc=%s %s" % (r["rc"], r["err"][-80:])
        graph = {i: [j for j in e if j >= 0] for i, e in enumerate(edges)}
        big = (F.tree_size(graph, 0) or 0) > 200000
        if impl != mm.group(1) and not big:
            rp = {"kind": "image", "image_b64": img_rp, "cmd": ["rdsquashfs", "-d"], "model": ml, "model_current": cl, "case": label, "configuration": conf,
                  "impl_stdout": r["out"][:2000], "impl_stderr": r["err"][:1000], "graph": [edges, inums] if not chain else label}
            key = walk_known_key(mm.group(1), cm.group(1), impl)
            if key:
                known(key, "rdsquashfs -d delivers %s where the repaired fill_dir answers %s (case %s)" % (impl, mm.group(1), label), rp)
            else:
                ctx.violation("corr:walk:fill_dir:" + vlib.sha(spec)[:8], "rdsquashfs -d on a forged directory graph (%s): impl=%s model=%s" % (label, impl, mm.group(1)), rp,
                              found_input=(r["rc"] in (98, 99, "timeout") or (isinstance(r["rc"], int) and r["rc"] < 0)))
        # the other users of fill_dir: unpack and sqfsdiff must end by themselves as well (error exit on a loop)
        for nm, cmd in (("rdsquashfs -u", [str(tools["rdsquashfs"]), "-u", "/", "-p", str(d / "un"), "-q", str(p)]),
                        ("sqfsdiff", [str(tools["sqfsdiff"]), "-a", str(p), "-b", str(p)])):
            if chain:
                break                                   # paths longer than PATH_MAX: nothing to unpack or compare
            r2 = run_tool(ctx, cmd, env, 20)
            stats["pool_walk_runs"] = stats.get("pool_walk_runs", 0) + (1 if in_pool else 0)
            shutil.rmtree(d / "un", ignore_errors=True)
            died = classify_tool_failure(nm, r2, img)[0] != "ok"        # sanitizer report, signal, timeout 
            wrong = (mm.group(1).startswith("err") and r2["rc"] == 0)
            if (died or wrong) and not big:
                rp = {"kind": "image", "image_b64": img_rp, "cmd": [nm.split()[0]] + ([nm.split()[1]] if " " in nm else []),
                      "model": ml, "model_current": cl, "stderr": r2["err"][:1500], "graph": [edges, inums], "configuration": conf}
                if wrong and not died and cm.group(1).startswith("ok") and walk_known_key(mm.group(1), cm.group(1), cm.group(1)):
                    known(walk_known_key(mm.group(1), cm.group(1), cm.group(1)),
                          "%s reads a tree the repaired fill_dir refuses (%s; case %s)" % (nm, mm.group(1), label), rp)
                else:
                    ctx.violation("corr:walk:%s:%s" % (nm.split()[0], vlib.sha(spec)[:8]),
                                  "%s on a forged directory graph: rc=%s, model of fill_dir: %s (%s)" % (nm, r2["rc"], mm.group(1), crash_site(r2["err"])),
                                  rp, found_input=died)
        # sqfs2tar : dir_rec
        cyclic = F.has_cycle(graph, 0)
        if cyclic:
            if cyc_budget <= 0:
                continue
            cyc_budget -= 1
        r = run_tool(ctx, [str(tools["sqfs2tar"]), str(p)], env, 6 if cyclic else (120 if chain else 20), tar_count=True)
        stats["pool_walk_runs"] = stats.get("pool_walk_runs", 0) + (1 if in_pool else 0)
        want, cur = mm.group(2), cm.group(2)
        if r["rc"] == 0:
            impl = "ok %d" % r["count"]
        elif r["rc"] == "timeout" or "rss limit" in r["err"]:
            impl = "diverges"
        elif r["rc"] in (98, 99) or (isinstance(r["rc"], int) and r["rc"] < 0):
            impl = "crash rc=%s" % r["rc"]
        elif "link loop" in r["err"].lower():
            impl = "err LINK_LOOP"
        elif "numeric overflow" in r["err"]:
            impl = "err OVERFLOW"
        else:
            impl = "err other"
        stats["walk_tar_" + impl.split()[0]] = stats.get("walk_tar_" + impl.split()[0], 0) + 1
        if impl == want or (want.startswith("err") and impl == "err other"):
            continue
        rp = {"kind": "image", "image_b64": img_rp, "cmd": ["sqfs2tar"], "model": ml, "model_current": cl, "impl": impl, "case": label, "configuration": conf}
        key = walk_known_key(want, cur, impl)
        if key:
            known(key, "sqfs2tar delivers %s where the repaired recursive iterator answers %s (case %s)" % (impl, want, label), rp)
        elif impl == "diverges" and cyclic:
            ctx.violation(K_D17, "sqfs2tar does not terminate on an image whose directory graph has a cycle (model of the walk without any check: diverges for every fuel)", rp)
        else:
            ctx.violation("corr:walk:dir_rec:" + vlib.sha(spec)[:8], "sqfs2tar on a forged directory graph (%s): impl=%s model=%s" % (label, impl, want), rp,
                          found_input=impl.startswith(("crash", "diverges")))


# ====================================================================== C. tool level
def clip(b):
    """head and tail of a sanitizer report (the stack is at the head, the summary at the tail)"""
    t = b.decode(errors="replace") if isinstance(b, (bytes, bytearray)) else (b or "")
    return t if len(t) <= 9000 else t[:6000] + "\n[...]\n" + t[-3000:]


def run_tool(ctx, cmd, env, timeout, tar_count=False, cwd=None, keep_all=False):
    t0 = time.time()
    try:
        if tar_count:
            p = subprocess.Popen(cmd, stdout=subprocess.PIPE, stderr=subprocess.PIPE, env=env, cwd=cwd)
            cnt = 0
            # count tar members without storing the stream: headers are 512-byte blocks; cheap approximation by `tar t`
            t = subprocess.Popen(["tar", "t"], stdin=p.stdout, stdout=subprocess.PIPE, stderr=subprocess.DEVNULL)
            p.stdout.close()
            try:
                out, _ = t.communicate(timeout=timeout)
                cnt = len(out.splitlines())
                p.wait(timeout=2)
                rc = p.returncode
            except subprocess.TimeoutExpired:
                p.kill(); t.kill(); p.wait(); t.wait()
                rc = "timeout"
            err = clip(p.stderr.read())
            return {"rc": rc, "out": "", "err": err, "count": cnt, "t": time.time() - t0}
        r = subprocess.run(cmd, stdout=subprocess.PIPE, stderr=subprocess.PIPE, env=env, timeout=timeout, cwd=cwd)
        return {"rc": r.returncode, "out": (r.stdout if keep_all else r.stdout[-200000:]).decode(errors="replace"), "err": clip(r.stderr), "t": time.time() - t0}
    except subprocess.TimeoutExpired as e:
        return {"rc": "timeout", "out": "", "err": clip(e.stderr or b""), "t": time.time() - t0}


BOUNDARY = [0, 1, 2, 3, 7, 8, 0x7F, 0x80, 0xFF, 0x100, 0xFFF, 0x1000, 0x1001, 0x1FFF, 0x2000, 0x2001, 0x7FFF, 0x8000, 0xFFFF, 0x10000,
            0xFFFFFF, 0x1000000, 0x1FFFFFF, 0x7FFFFFFF, 0x80000000, 0xFFFFFFF0, 0xFFFFFFFE, 0xFFFFFFFF, 2 ** 32, 2 ** 40, 2 ** 63,
            2 ** 64 - 2, 2 ** 64 - 1]


def mutate_field(rng, img, fields, nmut=1):
    b = bytearray(img)
    desc = []
    for _ in range(nmut):
        off, w, name = fields[rng.randrange(len(fields))]
        old = int.from_bytes(b[off:off + w], "little")
        k = rng.random()
        if k < 0.55:
            new = pick(rng, BOUNDARY)
        elif k < 0.8:
            new = old + pick(rng, [-2, -1, 1, 2, 8, 12, 16, 4096, 8192, -4096, 0x10000, -0x10000])
        elif k < 0.9:
            new = old ^ (1 << rng.randrange(8 * w))
        else:
            new = rng.getrandbits(8 * w)
        new &= (1 << (8 * w)) - 1
        b[off:off + w] = new.to_bytes(w, "little")
        desc.append("%s@%d:%d->%d" % (name, off, old, new))
    return bytes(b), desc


def mutate_bytes(rng, img):
    b = bytearray(img)
    desc = []
    # concentrate on the metadata region (the first 96 bytes and the area after the data)
    for _ in range(rng.randint(1, 4)):
        k = rng.random()
        pos = rng.randrange(len(b)) if k < 0.5 else rng.randrange(min(96, len(b)))
        op = rng.random()
        if op < 0.5:
            b[pos] = rng.randrange(256)
        elif op < 0.7:
            b[pos] ^= 1 << rng.randrange(8)
        elif op < 0.85:
            n = rng.randint(1, 8)
            b[pos:pos + n] = bytes([pick(rng, [0, 0xFF])]) * len(b[pos:pos + n])
        else:
            del b[max(96, pos):]                 # truncate
            if len(b) < 96:
                b += bytes(96 - len(b))
        desc.append("byte@%d" % pos)
    return bytes(b), desc


def real_images(ctx, gen, n, comps):
    """valid images from the working tree's gensquashfs, one compressor after the other (compressed metadata)"""
    out = []
    d = ctx.scratch / "realsrc"
    for k in range(n):
        if d.exists():
            shutil.rmtree(d)
        (d / "a" / "b").mkdir(parents=True)
        (d / "a" / "small.txt").write_bytes(b"hello\n" * ctx.rng.randint(1, 50))
        try:
            os.setxattr(d / "a" / "small.txt", "user.c05", b"value" * 30)
        except OSError:
            pass
        (d / "a" / "b" / "big.bin").write_bytes(bytes(ctx.rng.randrange(256) for _ in range(ctx.rng.choice([5000, 9000, 20000]))))
        (d / "a" / "zero").write_bytes(bytes(12288))
        (d / "empty").write_bytes(b"")
        os.symlink("a/small.txt", d / "lnk")
        for i in range(ctx.rng.randint(0, 30)):
            (d / "a" / ("f%02d" % i)).write_bytes(b"%d" % i)
        img = ctx.scratch / ("real%d.sqfs" % k)
        r = vlib.sh([str(gen), "-D", str(d), "-b", str(ctx.rng.choice([4096, 8192])), "-c", comps[k % len(comps)], "-x", "-q", "-f", str(img)],
                    env=ctx.san_env())
        if r.returncode == 0:
            out.append(img.read_bytes())
        else:
            ctx.log("gensquashfs -c %s failed: %s" % (comps[k % len(comps)], r.stderr[-200:]))
    return out


def tool_jobs(tools, api, p, p2, scratch_dir, rng_seed):
    t = tools
    return [
        ("rdsquashfs -l", [str(t["rdsquashfs"]), "-l", "/", str(p)]),
        ("rdsquashfs -d", [str(t["rdsquashfs"]), "-d", str(p)]),
        ("rdsquashfs -s", [str(t["rdsquashfs"]), "-s", "/sub/deep", str(p)]),
        ("rdsquashfs -s2", [str(t["rdsquashfs"]), "-s", "/f2", str(p)]),
        ("rdsquashfs -c", [str(t["rdsquashfs"]), "-c", "/f2", str(p)]),
        ("rdsquashfs -c2", [str(t["rdsquashfs"]), "-c", "/a/b/big.bin", str(p)]),
        ("rdsquashfs -c3", [str(t["rdsquashfs"]), "-c", "/f5", str(p)]),
        ("rdsquashfs -x", [str(t["rdsquashfs"]), "-x", "/f2", str(p)]),
        ("rdsquashfs -x2", [str(t["rdsquashfs"]), "-x", "/sub/deep", str(p)]),
        ("rdsquashfs -u", [str(t["rdsquashfs"]), "-u", "/", "-p", str(scratch_dir), "-q", str(p)]),
        ("rdsquashfs -uXCOT", [str(t["rdsquashfs"]), "-u", "/", "-p", str(scratch_dir) + "2", "-X", "-C", "-O", "-T", "-q", str(p)]),
        ("sqfs2tar", [str(t["sqfs2tar"]), str(p)]),
        ("sqfs2tar -d", [str(t["sqfs2tar"]), "-d", "sub", "-X", str(p)]),
        ("sqfs2tar -dk", [str(t["sqfs2tar"]), "-d", "sub/deep", "-k", str(p)]),
        ("sqfs2tar -r", [str(t["sqfs2tar"]), "-r", "newroot", "-d", "a", "-d", "sub", str(p)]),
        ("sqfsdiff", [str(t["sqfsdiff"]), "-a", str(p2), "-b", str(p)]),
        ("api", [str(api), str(p), str(rng_seed)]),
    ]


def classify_tool_failure(name, r, img):
    """returns (known key or None, description)"""
    rc, err = r["rc"], r["err"]
    site = crash_site(err)
    if name == "api" and rc == 0:
        m = re.search(r"calls=(\d+) errors=\d+ entries=\d+ strbytes=\d+ stopped=(\w+)", r.get("out", "") or "")
        if not m or int(m.group(1)) == 0:
            return None, "the API driver ended without reporting any executed call (stdout %r)" % (r.get("out", "") or "")[-120:]
    if name == "api" and rc == 3:
        return None, "the API driver could not open the image file"
    # (qsort(NULL, 0) in fill_unpacked_files used to be tolerated here; /repo 8276059 removed the call, a report is a regression now)
    if rc in (98, 99) or (isinstance(rc, int) and rc < 0) or "ERROR: AddressSanitizer" in err or "runtime error:" in err:
        if "rss limit" in err or "out of memory" in err.lower() or "allocation-size-too-big" in err:
            g = F.parse_dirs(img)
            if g:
                root = next(iter(g))
                if F.has_cycle(g, root):
                    return K_D17, "memory exhausted on a directory cycle"
                if (F.tree_size(g, root) or 0) > 50000:
                    return K_DAG, "memory exhausted expanding shared sub-directories"
            return None, "memory limit hit (%s)" % err[-200:]
        if "stack-overflow" in err or rc == -11:
            deep = any(f in err for f in (" in fill_dir ", " in sqfs_dir_tree_destroy ", " in resolve_ids ", "<empty stack>"))
            g = F.parse_dirs(img, limit=10 ** 6) if deep else None
            depth = F.max_depth(g, next(iter(g))) if g else None          # None: cyclic (then fill_dir must have refused)
            return (K_DEEP if (deep and depth is not None and depth >= 5000) else None), \
                "stack overflow (recursion in read_tree.c/dir_tree.c: %s, directory nesting of the image: %s)" % (deep, depth)
        if "double-free" in err and " in read_inode_slink_ext " in err:
            return K_D28, "double free of the inode a failed read_inode_slink_ext left in *result"
        if "null pointer" in err and " in sqfs_xattr_reader_seek_kv " in err and site == "sqfs_meta_reader_seek":
            return K_D27, "NULL meta reader dereferenced: xattr index 0 on an image without xattr table"
        for s, k in SITE_KEYS:
            if site and s == site:
                return k, "sanitizer report in %s" % site
        return None, "sanitizer report / signal rc=%s in %s" % (rc, site)
    if rc == "timeout":
        g = F.parse_dirs(img)
        if g:
            root = next(iter(g))
            if F.has_cycle(g, root) and name.startswith(("sqfs2tar", "api")) is not None and name == "sqfs2tar":
                return K_D17, "timeout on a directory cycle"
            ts = F.tree_size(g, root)
            if ts is not None and ts > 50000:
                return K_DAG, "timeout expanding shared sub-directories (%d tree nodes)" % ts
        return None, "timeout"
    return "ok", ""


TAMPER_BS = 32768        # block size of the hostile-compressed-block images: leaves room between 8192 and block_size


def codec_tamper_images(ctx, codec, comp_ids, stats):
    """For every compiled-in compressor id (legacy lzma = 2 included): a valid forged image with compressed metadata and
    data (block size 32 KiB, one file with a short compressed tail block), then one image per compressed block and per
    way of making that block hostile towards the buffer it will be unpacked into (`outsize`: 8192 for metadata, the tail
    length for the last data block, block_size for the others):
      bomb      - an honest stream that unpacks to outsize + 1 / block_size (/ 2 * block_size) bytes,
      announce  - the payload is unchanged, its header announces outsize + 1 / something in between / block_size bytes
                  (every announcement the format has: F.ANNOUNCERS).
    Built by wrapping the block compressor of the forge (F.TamperCodec), so the rest of the image stays consistent."""
    out = []
    bs = TAMPER_BS
    counts = {}
    for cid in comp_ids:
        name = COMP_NAMES[cid]
        base = F.py_codec(cid) or (lambda d, cid=cid: codec.compress(cid, bs, d))
        seed = 1000 + cid

        def build(nth=None, kind=None, H=0, variant=0):
            tc = F.TamperCodec(base, cid, nth, kind, H, variant)
            fg = F.sample_tree(__import__("random").Random(seed), bs, compress_meta=True, compress_data=True, comp_id=cid, codec=tc, tailfile=True)
            ndata = len(tc.calls)
            return fg.build(), tc, ndata

        img0, tc0, ndata = build()
        out.append(("ct_valid-%s:valid" % name, img0, []))
        nvar = len(F.ANNOUNCERS.get(cid, []))
        for nth, (ulen, clen) in enumerate(tc0.calls):
            if clen is None:
                continue                                   # stored uncompressed
            is_meta = nth >= ndata
            outsize = 8192 if is_meta else ulen
            kindlab = "ct_meta" if is_meta else "ct_data"
            plans = [("bomb", outsize + 1, 0), ("bomb", max(bs, outsize + 1) if outsize < bs else 2 * bs, 0)]
            for v in range(nvar):
                plans += [("announce", outsize + 1, v), ("announce", (outsize + bs) // 2 if outsize < bs else bs + 1, v), ("announce", bs if outsize < bs else 2 * bs, v)]
            for kind, H, v in plans:
                img, tc, _ = build(nth, kind, H, v)
                if tc.done is None or img == img0:
                    continue
                out.append(("%s-%s:%s" % (kindlab, name, kind), img, ["block%d(%s,outsize=%d):%s" % (nth, "meta" if is_meta else "data", outsize, tc.done)]))
                counts[name + ":" + kind] = counts.get(name + ":" + kind, 0) + 1
                if outsize < bs and outsize < H <= bs:
                    k = name + ":" + kind + ":outsize<H<=bs" + (":meta" if is_meta else ":data")
                    counts[k] = counts.get(k, 0) + 1
    stats["codec_tamper_images"] = counts
    # self-test: the class of seeded C05-b1 (and its relatives) must be present for every codec
    for cid in comp_ids:
        name = COMP_NAMES[cid]
        need = ["bomb:outsize<H<=bs:meta", "bomb:outsize<H<=bs:data"]
        if cid in F.ANNOUNCERS:
            need += ["announce:outsize<H<=bs:meta", "announce:outsize<H<=bs:data"]
        for k in need:
            if counts.get(name + ":" + k, 0) < 2:
                ctx.violation("sens:tamper:%s:%s" % (name, k), "generator self-test: the forge produced %d hostile-block images of class %s for compressor %s (floor 2)"
                              % (counts.get(name + ":" + k, 0), k, name), {"kind": "self-test", "codec": name, "class": k}, found_input=False)
    return out


def width_images(ctx, stats):
    """Tool level counterpart of the width-boundary lines (seeded C05-c2): a valid forged image whose xattr id table header /
    superblock announces 2^28 + 1 ... descriptors / fragments (x16 no longer fits 32 bits, the low bits say "one block"), and
    whose inodes carry an xattr / fragment index below the announced count but beyond the table a truncated product would
    allocate.  `compact`: the file ends where it ended (the honest loader fails reading the locations); `sparse`: the location
    array the count needs is there as zeroes (the honest loader succeeds, the lookup is refused by the meta data reader).
    Also a file inode whose size needs 2^32 + 1 / 2^30 + 1 block words."""
    out = []
    fg = F.sample_tree(__import__("random").Random(7), 4096)
    img0 = fg.build()
    fld = {}
    for off, w, name in fg.fields:
        fld.setdefault(name, []).append((off, w))

    def patch(b, name, val):
        for off, w in fld.get(name, []):
            b[off:off + w] = (val & ((1 << (8 * w)) - 1)).to_bytes(w, "little")

    xino = sorted(n for n in fld if re.fullmatch(r"ino\d+\.xattr", n))
    fino = sorted(n for n in fld if re.fullmatch(r"ino\d+\.frag_index", n))
    counts = {"x": 0, "f": 0, "i": 0}
    if "xattr.tbl.ids" in fld and xino:
        xat = fld["xattr.tbl.ids"][0][0] - 8
        for count in (2 ** 28 + 1, 2 ** 29 + 1, 2 ** 31 + 1, 0xF0000001):
            n, n32 = (count * 16 + 8191) // 8192, ((count * 16) % 2 ** 32 + 8191) // 8192
            for idx in (512 * n32, 512 * n32 + 511, count - 1, 2 ** 28):
                if idx >= count:
                    continue
                for sparse in (False, True):
                    if sparse and (count > 2 ** 29 + 1 or idx not in (512 * n32, count - 1)):
                        continue
                    b = bytearray(img0)
                    patch(b, "xattr.tbl.ids", count)
                    for nm in xino:
                        patch(b, nm, idx)
                    if sparse:
                        end = xat + 16 + 8 * n
                        b = b[:xat + 24] + bytes(end - (xat + 24)) + bytes((-end) % 4096)
                        patch(b, "super.bytes_used", end)
                    out.append(("wd_xattr:%s" % ("sparse" if sparse else "compact"), bytes(b), ["xattr.tbl.ids=%#x" % count, "xattr index=%#x" % idx]))
                    counts["x"] += 1
    if "super.frag_count" in fld and fino:
        for count in (2 ** 28 + 1, 2 ** 29 + 1, 0xF0000001):
            for idx in (1, 2, count - 1):
                b = bytearray(img0)
                patch(b, "super.frag_count", count)
                for nm in fino:
                    patch(b, nm, idx)
                out.append(("wd_frag:compact", bytes(b), ["super.frag_count=%#x" % count, "fragment index=%#x" % idx]))
                counts["f"] += 1
    for nm in sorted(n for n in fld if re.fullmatch(r"ino\d+\.sparse", n)):
        base = nm.split(".")[0]
        for cnt in (2 ** 32 + 1, 2 ** 30 + 1):
            b = bytearray(img0)
            patch(b, base + ".file_size", cnt * 4096)
            patch(b, base + ".frag_index", 0xFFFFFFFF)
            out.append(("wd_inode:compact", bytes(b), ["%s.file_size=%d*4096" % (base, cnt)]))
            counts["i"] += 1
    stats["width_images"] = counts
    for k, floor in (("x", 8), ("f", 6), ("i", 2)):
        if counts[k] < floor:
            ctx.violation("sens:width-images:" + k, "generator self-test: the forge produced %d hostile-count images of class %r (floor %d): the fields they are built from are gone"
                          % (counts[k], k, floor), {"kind": "self-test", "class": k}, found_input=False)
    return out


def tool_level(ctx, tools, api, harness, stats):
    rng = ctx.rng
    quick = ctx.quick()
    env = ctx.san_env({"ASAN_OPTIONS": ASAN_OPTS})
    timeout = int(os.environ.get("VERIF_TOOL_TIMEOUT", "20"))     # an idle machine needs ~0.05 s per run
    images = []                                   # (label, bytes, descr)
    cdir = vlib.CORPUS / "C05"
    for p in sorted(cdir.glob("*.sqfs")) if cdir.exists() else []:
        images.append(("corpus:" + p.name, p.read_bytes(), []))
    # structural probes built on the spot: shared sub-directories (2^27 tree nodes from a 4 KiB image) and a
    # 40000-level chain; "t2_" = only the two tree walkers are run on them
    nlev = 26
    images.append(("t2_probe:dag%d" % nlev, F.graph_image([[i + 1, i + 1] for i in range(nlev)] + [[]], list(range(1, nlev + 2))).build(), ["shared-subdirs"]))
    nlev = 40000
    fgc = F.graph_image([[i + 1] for i in range(nlev)] + [[]], list(range(1, nlev + 2)))
    for dn in fgc.nodes:
        dn.entries = [(b"d", e[1]) for e in dn.entries]
    images.append(("t1_probe:chain%d" % nlev, fgc.build(), ["deep-chain"]))
    pt = vlib.REPO / "bin/rdsquashfs/test/pathtraversal.sqfs"
    if pt.exists():
        images.append(("repo:pathtraversal", pt.read_bytes(), []))
    bases = []
    comp_ids = stats.get("codec_ids") or [1]
    codec = RealCodec(ctx, harness)
    # base 0/1: uncompressed metadata (every field addressable by the mutator); the others: every compressor id the tree
    # was built with, metadata and data compressed (block compressors written in the forge for gzip/xz/lzma, the real
    # compressor behind the harness for lz4/zstd)
    plan = [(1, False, False), (1, False, True)] + [(c, True, True) for c in comp_ids if c != 1] + [(1, True, True)]
    if quick:
        plan = plan[:2] + [plan[2 + ctx.seed % (len(plan) - 2)]] if len(plan) > 2 else plan
    for k, (cid, cmeta, cdata) in enumerate(plan):
        bs = rng.choice([4096, 8192])
        real = (lambda d, cid=cid, bs=bs: codec.compress(cid, max(bs, 8192), d)) if F.py_codec(cid) is None else None
        fg = F.sample_tree(rng, bs, compress_meta=cmeta, compress_data=cdata, big=(k == 1), comp_id=cid, codec=real)
        img = fg.build()
        lab = "forge%d-%s" % (k, COMP_NAMES[cid])
        bases.append((lab, img, fg.fields))
        images.append((lab + ":valid", img, []))
        stats.setdefault("forge_compressors", []).append(COMP_NAMES[cid] + ("+meta" if cmeta else ""))
    tampered = codec_tamper_images(ctx, codec, comp_ids, stats)
    images += tampered
    images += width_images(ctx, stats)
    codec.close()
    # inode mode fields whose file type bits contradict the inode type (set_mode must derive the type from the inode type:
    # a regular file presented as a symlink would have its block list printed as a C string, ...)
    for kind, base_types, bits in (("file-as-lnk", (2,), 0o120000), ("file-as-dir", (2,), 0o040000), ("lnk-as-reg", (3,), 0o100000),
                                   ("special-as-lnk", (4, 5, 6, 7), 0o120000), ("all-bits", (2, 3, 4, 5, 6, 7), 0o170000)):
        fg = F.sample_tree(__import__("random").Random(5), 4096)
        for nd in fg.nodes:
            if nd.base_type() in base_types:
                nd.f["mode"] = (F.MODE[nd.base_type()] & 0o7777) | bits
        images.append(("probe:mode-%s" % kind, fg.build(), ["mode-type-bits"]))
    comps = [COMP_NAMES[c] for c in comp_ids]
    reals = real_images(ctx, tools["gensquashfs"], max(2, len(comps)) if quick else 2 * len(comps), comps)
    for k, img in enumerate(reals):
        images.append(("real%d:valid" % k, img, []))
    nvalid = len(images)
    n_field = 110 if quick else 3000
    n_byte = 50 if quick else 1500
    for k in range(n_field):
        lab, img, fields = bases[k % len(bases)]
        m, desc = mutate_field(rng, img, fields, 1 if rng.random() < 0.8 else rng.randint(2, 3))
        images.append((lab + ":field", m, desc))
    super_fields = [f for f in bases[0][2] if f[2].startswith("super.")]
    for k in range(n_byte):
        if reals and k % 2 == 0:
            src = reals[k % len(reals)]
            if rng.random() < 0.4:
                m, desc = mutate_field(rng, src, super_fields, 1)
            else:
                m, desc = mutate_bytes(rng, src)
            images.append(("real:mut", m, desc))
        else:
            lab, img, _ = bases[k % len(bases)]
            m, desc = mutate_bytes(rng, img)
            images.append((lab + ":byte", m, desc))
    # /repo's default configuration (pool allocator): every 5th image (by index, no rng draw) and every second hostile-count
    # (`wd_`) image go through the pool-configured rdsquashfs / sqfs2tar / sqfsdiff instead of the plain-malloc ones; the two
    # structural probes (dag: 2^27 tree nodes behind one visited set, 40000-level chain) run a second time against them.
    # Same jobs, same classification of the outcomes.
    nmut_end = len(images)
    pool_idx, dup_idx, wd_seen = set(), set(), 0
    for i in range(nmut_end):
        lab = images[i][0]
        if lab.startswith("wd_"):
            wd_seen += 1
            if wd_seen % 2 == 0:
                pool_idx.add(i)
        elif lab.startswith(("t2_probe:", "t1_probe:")):
            images.append(images[i])
            dup_idx.add(len(images) - 1)
            pool_idx.add(len(images) - 1)
        elif i % 5 == 4:
            pool_idx.add(i)
    ptools = pool_tools(tools)
    pool_stat = {"images": len(pool_idx), "runs": 0, "hostile_count_images": sum(1 for i in pool_idx if images[i][0].startswith("wd_")),
                 "probes": sorted(images[i][0] for i in dup_idx), "valid_images": sum(1 for i in pool_idx if i < nvalid and images[i][0].endswith(":valid")),
                 "outcomes": {}}
    stats["pool_tool"] = pool_stat
    stats["tool_images"] = len(images)
    stats["tool_images_valid"] = nvalid
    ref = ctx.scratch / "ref.sqfs"
    ref.write_bytes(bases[0][1])
    workers = int(os.environ.get("VERIF_JOBS", "3" if quick else str(vlib.NCPU)))
    results = []

    def work(idx):
        lab, img, desc = images[idx]
        wd = ctx.scratch / ("w%d" % idx)
        wd.mkdir()
        p = wd / "i.sqfs"
        p.write_bytes(img)
        out = []
        try:
            jobs = tool_jobs(ptools if idx in pool_idx else tools, api, p, ref, wd / "un", idx)
            if idx in pool_idx:
                jobs = [j for j in jobs if j[0] != "api"] if idx in dup_idx else jobs
            if lab.split(":")[-1].startswith("t4_"):
                # smallest directory cycles: every recursive tool mode
                jobs = [j for j in jobs if j[0] in ("rdsquashfs -d", "rdsquashfs -u", "sqfsdiff", "sqfs2tar")]
                jobs.append(("sqfsdiff self", [str((ptools if idx in pool_idx else tools)["sqfsdiff"]), "-a", str(p), "-b", str(p)]))
            elif lab.split(":")[-1].startswith("t2_") or lab.startswith("t2_"):
                jobs = [j for j in jobs if j[0] in ("rdsquashfs -d", "sqfs2tar")]
            elif lab.startswith("t1_"):
                jobs = [j for j in jobs if j[0] == "rdsquashfs -d"]
            elif lab.startswith("ct_meta"):
                jobs = [j for j in jobs if j[0] in ("rdsquashfs -l", "rdsquashfs -d", "rdsquashfs -x", "rdsquashfs -s", "sqfs2tar", "api")]
            elif lab.startswith("ct_data"):
                jobs = [j for j in jobs if j[0] in ("rdsquashfs -c", "rdsquashfs -c3", "rdsquashfs -u", "sqfs2tar", "sqfsdiff", "api")]
            elif lab.startswith("wd_xattr"):
                jobs = [j for j in jobs if j[0] in ("rdsquashfs -x", "rdsquashfs -x2", "rdsquashfs -uXCOT", "sqfs2tar", "api")]
            elif lab.startswith(("wd_frag", "wd_inode")):
                jobs = [j for j in jobs if j[0] in ("rdsquashfs -c", "rdsquashfs -u", "sqfs2tar", "sqfsdiff", "api")]
            if quick and idx >= nvalid and idx % 3 != 0 and idx not in dup_idx:
                # the option variants of unpack / sqfs2tar: every valid image, a third of the mutated ones
                jobs = [j for j in jobs if j[0] not in ("rdsquashfs -uXCOT", "sqfs2tar -d", "sqfs2tar -dk", "sqfs2tar -r")]
            for name, cmd in jobs:
                if name.startswith("sqfs2tar"):
                    r = run_tool(ctx, cmd, env, timeout, tar_count=True)
                else:
                    r = run_tool(ctx, cmd, env, timeout, cwd=str(wd))
                if name == "api":
                    r["out"] = r.get("out", "")[-300:]
                else:
                    r.pop("out", None)
                out.append((name, cmd, r))
        finally:
            shutil.rmtree(wd, ignore_errors=True)
        return idx, out

    with ThreadPoolExecutor(max_workers=workers) as ex:
        for idx, out in ex.map(work, range(len(images))):
            results.append((idx, out))
    hist = {}
    reported = {}
    for idx, out in results:
        lab, img, desc = images[idx]
        for name, cmd, r in out:
            stats["tool_runs"] += 1
            key, what = classify_tool_failure(name, r, img)
            if key is None and r["rc"] == "timeout":
                # confirm alone, with four times the limit, before calling it a hang (machine load is not a finding)
                p = ctx.scratch / "confirm.sqfs"
                p.write_bytes(img)
                cmd2 = [str(p) if a.endswith("/i.sqfs") else a for a in cmd]
                r = run_tool(ctx, cmd2, env, 4 * timeout, tar_count=name.startswith("sqfs2tar"))
                if name != "api":
                    r.pop("out", None)
                stats["timeouts_rechecked"] = stats.get("timeouts_rechecked", 0) + 1
                key, what = classify_tool_failure(name, r, img)
            if name == "api":
                m = re.search(r"calls=(\d+) errors=(\d+) entries=(\d+)", r.get("out", "") or "")
                if m:
                    stats["api_calls"] = stats.get("api_calls", 0) + int(m.group(1))
                    stats["api_errors_returned"] = stats.get("api_errors_returned", 0) + int(m.group(2))
                    if idx < nvalid and lab.endswith(":valid") and int(m.group(3)) < 10:
                        ctx.violation("valid-rejected:%s:api" % lab, "the API driver visits %s entries of a valid image (%s)" % (m.group(3), r["out"][-100:]),
                                      {"kind": "image", "image_b64": base64.b64encode(img).decode(), "cmd": ["h_c05_api"]}, found_input=False)
            cls = "exit0" if r["rc"] == 0 else ("error-exit" if key == "ok" else ("known" if key else "FAIL"))
            hist[name + ":" + cls] = hist.get(name + ":" + cls, 0) + 1
            if idx in pool_idx and name != "api":            # the API driver is linked against the plain library: not a pool run
                pool_stat["runs"] += 1
                pool_stat["outcomes"][name.split()[0] + ":" + cls] = pool_stat["outcomes"].get(name.split()[0] + ":" + cls, 0) + 1
            if key == "ok":
                if idx < nvalid and r["rc"] != 0 and lab.endswith(":valid") and not name.startswith(("rdsquashfs -s", "rdsquashfs -c", "rdsquashfs -x", "sqfsdiff")):
                    # a valid image must be readable (sanity of the forge and of the oracle)
                    ctx.violation("valid-rejected:%s:%s" % (lab, name), "tool %s refuses a valid image %s (rc=%s): %s" % (name, lab, r["rc"], r["err"][-200:]),
                                  {"kind": "image", "image_b64": base64.b64encode(img).decode(), "cmd": [os.path.basename(cmd[0])] + cmd[1:-1]}, found_input=False)
                continue
            relcmd = [os.path.basename(cmd[0])] + [a for a in cmd[1:] if not a.startswith(str(ctx.scratch))]
            replay = {"kind": "image", "image_b64": base64.b64encode(img).decode() if len(img) < 400000 else "(probe image, rebuilt by the check: %s)" % lab,
                      "cmd": relcmd, "tool": name, "mutation": desc, "base": lab, "rc": r["rc"], "stderr": r["err"][-1500:],
                      "configuration": "pool" if (idx in pool_idx and name != "api") else "malloc"}
            if key:
                stats["known_tool"][key] = stats["known_tool"].get(key, 0) + 1
                ctx.violation(key, "%s: %s (image %s %s)" % (name, what, lab, desc[:2]), replay)
            else:
                site = crash_site(r["err"]) or "?"
                k2 = "crash:tool:%s:%s" % (name.split()[0], site) if r["rc"] != "timeout" else "timeout:tool:%s" % name
                if reported.get(k2, 0) < 3:
                    reported[k2] = reported.get(k2, 0) + 1
                    ctx.violation(k2 + ":" + vlib.sha(img)[:8], "%s on a hostile image: %s (image %s, mutation %s)" % (name, what, lab, desc[:3]), replay)
    stats["tool_hist"] = hist


# ====================================================================== entry points
def build_all(ctx):
    lib = ctx.build_lib("san")
    # the allocator of the harness and of the library objects linked into it goes through the recording wrapper of h_c05.c
    harness = ctx.cc("h_c05", ["h_c05.c"], flags=["-Wl,--wrap=malloc,--wrap=calloc,--wrap=realloc,--wrap=free"], libs=[str(lib)] + vlib.CODEC_LIBS)
    api = ctx.cc("h_c05_api", ["h_c05_api.c"], libs=[str(lib)] + vlib.CODEC_LIBS)
    tools = {t: ctx.build_tool(t) for t in ("rdsquashfs", "sqfs2tar", "sqfsdiff", "gensquashfs")}
    # the three readers once more in /repo's default configuration (pool allocator: mempool.c compiled, NO_CUSTOM_ALLOC not
    # defined): the visited sets of the tree walkers, the dir reader cache and the hard-link filter are rbtrees on that pool
    tools[POOL] = {t: ctx.build_tool(t, tag="c05pool", custom_alloc=True) for t in ("rdsquashfs", "sqfs2tar", "sqfsdiff")}
    return harness, api, tools


POOL = "@pool"


def pool_tools(tools):
    """the tool table of the pool configuration (gensquashfs is only used to make valid images: the plain one)"""
    return dict(tools, **tools[POOL])


def run(ctx):
    ok, problems = vlib.proof_gate(ctx, MODULE, REQUIRED)
    if ok:
        wok, wlog = ctx.lean_build(["Sqfs.Witness.C05"])
        if not wok:
            ok, problems = False, ["Sqfs.Witness.C05 does not build: " + wlog[-1500:]]
    if not ok:
        ctx.violation("proof:C05", "proof obligations of C05 no longer check: " + " | ".join(problems)[:1500],
                      {"broken": problems, "theorems_file": "lean/Sqfs/Props/C05.lean"}, found_input=False)
        if not ctx.driver_path().exists():
            return ctx.finish(LEVEL)
    harness, api, tools = build_all(ctx)
    stats = {"lines": 0, "crashes": 0, "disagreements": 0, "post_failure_lines": 0, "known_crashes": {}, "known_silent": {},
             "walk_images": 0, "tool_runs": 0, "known_tool": {}, "known_walk": {}}
    t0 = time.time()
    nontrivial, lines, impl, model = routine_level(ctx, harness, stats)
    stats["codec_ids"] = codec_level(ctx, harness, stats)
    t1 = time.time()
    ctx.log("routine level: %d lines, %d crashes, %d disagreements; %d decompressor calls on %s (%.1fs)" % (
        stats["lines"], stats["crashes"], stats["disagreements"], stats.get("codec_calls", 0), ",".join(stats.get("codecs", [])), t1 - t0))
    walk_level(ctx, tools, stats)
    t2 = time.time()
    ctx.log("walk level: %d graphs (%.1fs)" % (stats["walk_images"], t2 - t1))
    tool_level(ctx, tools, api, harness, stats)
    t3 = time.time()
    ctx.log("tool level: %d images, %d runs (%.1fs)" % (stats["tool_images"], stats["tool_runs"], t3 - t2))
    # share of the walk / tool level that ran against /repo's default configuration (pool allocator): a floor, not a hope
    pt = stats["pool_tool"]
    q = ctx.quick()
    pool_runs = pt["runs"] + stats.get("pool_walk_runs", 0)
    pool_floors = {"tool and walk runs": [pool_runs, 500 if q else 8000], "tool-level images": [pt["images"], 60 if q else 800],
                   "hostile-count (width) images": [pt["hostile_count_images"], 8], "structural probes (dag, chain)": [len(pt["probes"]), 2],
                   "valid images": [pt["valid_images"], 1], "walk-level graphs": [stats.get("pool_walk_graphs", 0), 8 if q else 60],
                   "walk-level graphs with a shared sub-directory": [stats.get("pool_walk_labels", {}).get("shared", 0), 2],
                   "walk-level chains at the nesting limit": [stats.get("pool_walk_labels", {}).get("chain", 0), 2]}
    short = ["%s: %d < %d" % (k, v[0], v[1]) for k, v in pool_floors.items() if v[0] < v[1]]
    if short:
        raise vlib.CheckFailure("too few runs against /repo's default configuration (pool allocator): " + "; ".join(short))
    ctx.log("pool configuration: %d tool-level images (%d runs), %d walk-level graphs (%d runs)" % (
        pt["images"], pt["runs"], stats.get("pool_walk_graphs", 0), stats.get("pool_walk_runs", 0)))
    samples = []
    for i in (3, len(lines) // 3, len(lines) // 2, len(lines) - 2):
        if 0 <= i < len(lines):
            samples.append({"line": lines[i][:160], "impl": impl[i] if not isinstance(impl[i], tuple) else "CRASH rc=%s" % impl[i][1], "model": model[i]})
    ctx.cov.update({
        "evaluations": stats["lines"] + stats["walk_images"] * 2 + stats["tool_runs"],
        "distinct_nontrivial": len(nontrivial),
        "rule": "routine level: generated lines (boundary values for every size/offset/count field; meta blocks of size 0/1/8191/8192/>8192, "
                "compressed with a toy codec announcing 0..>outsize bytes, truncated images) through the real routines and the model; "
                "non-trivial = distinct line the real code answers with an error. walk level: random directory graphs with cycles, shared "
                "sub-directories and colliding inode numbers. tool level: forged valid images + gensquashfs images, one to three on-disk "
                "fields set to boundary/neighbour/random values or 1-4 byte-level edits, through 17 tool invocations + the API driver; hostile compressed blocks (bomb / size announcement between outsize and block_size) for every compressor id. "
                "generator self-test: every modelled comparison moved by one (lean/Sqfs/Model/ReaderMut.lean) must be told apart by the deterministic boundary lines",
        "routine_lines": stats["lines"], "routine_ops": stats.get("routine_ops"), "routine_crashes": stats["crashes"],
        "routine_disagreements": stats["disagreements"], "routine_lines_not_compared_after_refused_allocation": stats["post_failure_lines"],
        "routine_failed_calls_with_the_object_used_on_and_compared": stats.get("failed_calls_then_used_on", 0),
        "known_routine_crashes": stats["known_crashes"], "known_routine_silent": stats["known_silent"],
        "walk_graphs": stats["walk_images"], "walk_tar": {k: v for k, v in stats.items() if k.startswith("walk_tar_")},
        "walk_model_fill_dir": {k: v for k, v in stats.items() if k.startswith("walk_model_")},
        "nesting_limit_of_tree": stats.get("nesting_limit_of_tree"), "known_walk_differences": stats["known_walk"],
        "tool_images": stats["tool_images"], "tool_images_valid": stats["tool_images_valid"], "tool_runs": stats["tool_runs"],
        "tool_outcomes": stats.get("tool_hist"), "known_tool_failures": stats["known_tool"],
        "pool_configuration_runs": pool_runs,
        "pool_configuration": {"what": "rdsquashfs / sqfs2tar / sqfsdiff built as /repo's configure builds them by default (lib/util/src/mempool.c compiled, "
                                       "NO_CUSTOM_ALLOC not defined); tool level: image index % 5 == 4 and every second hostile-count image instead of the "
                                       "plain-malloc tools, the dag / chain probes additionally; walk level: graph index % 5 == 2, shared:two-parents, chain:<limit+1>",
                               "tool_level": pt, "walk_graphs": stats.get("pool_walk_graphs", 0), "walk_runs": stats.get("pool_walk_runs", 0),
                               "walk_graph_kinds": stats.get("pool_walk_labels", {}), "floors": pool_floors},
        "generator_self_test": stats.get("sens"), "decompressor_classes": stats.get("codec_classes"), "hostile_block_images": stats.get("codec_tamper_images"), "hostile_count_images": stats.get("width_images"),
        "decompressor_calls": stats.get("codec_calls", 0), "decompressors": stats.get("codecs"), "decompressor_outcomes": stats.get("codec_hist"),
        "decompressor_roundtrips": stats.get("codec_roundtrips", 0), "forge_compressors": stats.get("forge_compressors"),
        "api_calls_executed": stats.get("api_calls", 0), "api_errors_returned": stats.get("api_errors_returned", 0),
        "inputs_per_sec": round((stats["lines"] + stats["tool_runs"]) / max(t3 - t0, 0.01), 1),
        "wall": {"routine_s": round(t1 - t0, 1), "walk_s": round(t2 - t1, 1), "tool_s": round(t3 - t2, 1)},
        "samples": samples, "disagreements_checked": stats["disagreements"] + stats["crashes"],
    })
    return ctx.finish(LEVEL, trusted_extra=[
        "modelled, not verified directly: the C text of the reader routines; the model covers their bounds-check arithmetic and control state, "
        "not the byte contents they move",
        "the block decompressors enter the theorems only through the contract 'returns < 0 or at most outsize bytes' (zlib/xz/lz4/zstd themselves, "
        "the allocator and absolute running time are only exercised under ASan+UBSan with a wall-clock limit)",
        "tools/sqfs_forge_c05.py (independent image writer) and the classification of sanitizer reports by crash site are trusted"],
        assumptions=["MetaCodecOk / hcodec: do_block never reports more bytes than outsize", "block_size != 0 and max_size <= block_size at the call sites of get_block / get_fragment (sqfs_super_read enforces 4096..1048576)",
                     "resolve_path: the caller's path is a NUL-terminated C string"])


def replay(ctx, path):
    body = json.loads(open(path).read())
    rp = body.get("replay", {})
    ctx.lean_build(["sqfsmodel"])
    harness, api, tools = build_all(ctx)
    env = ctx.san_env({"ASAN_OPTIONS": ASAN_OPTS})
    if rp.get("kind") == "routine":
        lines = rp["lines"]
        out = run_harness(ctx, harness, lines)
        model = ctx.driver(["c05"], "\n".join(lines) + "\n")
        cur = ctx.driver(["c05", "current"], "\n".join(lines) + "\n")
        bad = False
        for l, o, m, c in zip(lines, out, model, cur):
            print("%-60s impl=%s | model=%s | current-model=%s" % (l[:60], o if not isinstance(o, tuple) else "CRASH rc=%s" % o[1], m, c))
            if isinstance(o, tuple):
                print(o[2][-1500:])
                bad = True
        last = out[-1]
        if lines[-1].startswith("cunpack "):
            # decompressor call: the specification is the codec contract, evaluated on the real answer
            if not isinstance(last, tuple) and last and last.startswith("ret "):
                v = ctx.driver(["c05"], "codecret %s %s\n" % (lines[-1].split()[3], last.split()[1]))
                print("codec contract:", v)
                bad = bad or v != ["ok"]
        elif not isinstance(last, tuple) and last is not None and last != model[-1].split(" UNSAFE")[0]:
            bad = True
        print("reproduces:", bad)
        return 1 if bad else 0
    if rp.get("kind") == "image":
        p = ctx.scratch / "replay.sqfs"
        p.write_bytes(base64.b64decode(rp["image_b64"]))
        ref = ctx.scratch / "ref.sqfs"
        ref.write_bytes(F.sample_tree(__import__("random").Random(0)).build())
        cmd = list(rp["cmd"])
        conf_tools = pool_tools(tools) if rp.get("configuration") == "pool" else tools
        exe = {"h_c05_api": api}.get(cmd[0], conf_tools.get(cmd[0]))
        args = cmd[1:]
        if cmd[0] == "sqfsdiff":
            args = ["-a", str(ref), "-b", str(p)]
        elif cmd[0] == "h_c05_api":
            args = [str(p)] + args
        elif cmd[0] == "rdsquashfs" and "-u" in args:
            args = ["-u", "/", "-p", str(ctx.scratch / "un"), "-q", str(p)]
        else:
            args = [a for a in args] + [str(p)]
        r = run_tool(ctx, [str(exe)] + args, env, 10, tar_count=(cmd[0] == "sqfs2tar"))
        print("cmd:", cmd, "rc:", r["rc"])
        print(r["err"][-2500:])
        bad = r["rc"] in (98, 99, "timeout") or (isinstance(r["rc"], int) and r["rc"] < 0)
        print("reproduces:", bad)
        return 1 if bad else 0
    if rp.get("kind") == "self-test" and rp.get("mutant"):
        # generator self-test: regenerate the lines of the recorded seed and count again
        ctx.rng = __import__("random").Random("%s/%d" % (ctx.prop, body.get("seed", 0)))
        ctx.tier = body.get("tier", ctx.tier)
        groups = routine_groups(ctx)
        lines, owner = [], []
        for gi, (kind, ls) in enumerate(groups):
            lines += ls
            owner += [gi] * len(ls)
        model = ctx.driver(["c05"], "\n".join(lines) + "\n")
        stats = {}
        before = len(ctx.violations)
        sens_level(ctx, groups, lines, owner, model, stats)
        n = stats["sens"]["kills_deterministic"].get(rp["mutant"])
        print("mutant %s: told apart by %s deterministic line(s), %s line(s) in all (floor %d)" % (
            rp["mutant"], n, stats["sens"]["kills_all_lines"].get(rp["mutant"]), SENS_FLOOR))
        bad = rp["mutant"] in stats["sens"]["below_floor"]
        print("reproduces:", bad)
        return 1 if bad else 0
    print("replay file names a broken obligation or a generator self-test, no input to replay (run the check again):", json.dumps(rp)[:500])
    return 1
