"""
C01 — unit-level correspondence (the Lean half of the check; `tools/checks/c01.py` imports this module).

Real code: `harness/h_c01u.c` linked against the working tree's library (ASan+UBSan).  Model: `sqfsmodel c01`
(`lean/Driver/C01.lean` over `Sqfs/Model/Enc*.lean`).  Both read the same op lines; outputs must be identical.
Independently of the model, every answer of the *real* code is checked against the property's specification
(read back = written) by the small monitors below, so that a disagreement can be classified
(spec violated → failing input found; spec holds but model ≠ code → correspondence lost).

Exposes  REQUIRED  and  run_units(ctx, stats) -> (evaluations, nontrivial, disagreements).
"""
import subprocess, time
import vlib

REQUIRED = [
    "Sqfs.C01.inode_roundtrip", "Sqfs.C01.serialize_establishes_wf", "Sqfs.C01.make_extended_basic_inverse",
    "Sqfs.C01.selection_minimal_and_safe", "Sqfs.C01.file_size_start_no_truncation",
    "Sqfs.C01.dir_listing_roundtrip", "Sqfs.C01.dir_index_points_at_headers",
    "Sqfs.C01.meta_stream_roundtrip", "Sqfs.C01.meta_ref_roundtrip",
    "Sqfs.C01.table_roundtrip", "Sqfs.C01.id_table_roundtrip", "Sqfs.C01.frag_table_roundtrip",
    "Sqfs.C01.export_table_roundtrip", "Sqfs.C01.super_roundtrip",
    "Sqfs.C01.xattr_roundtrip", "Sqfs.C01.xattr_refs_ok", "Sqfs.C01.xattr_input_roundtrip",
    "Sqfs.C01.xattr_record_index", "Sqfs.C01.xattr_loc_index_lt_count",
    "Sqfs.C01.file_content_roundtrip",
    "Sqfs.C01.refuse_unrepresentable", "Sqfs.C01.representable_accepted",
    "Sqfs.C01.parse_serialize_partial", "Sqfs.C01.parse_serialize",
    "Sqfs.C01.post_process_order_partial", "Sqfs.C01.exampleTree_allSorted",
    "Sqfs.C01.exPackCodec_ok",          # witness lemma: Pack.Codec.Ok for a codec that compresses (audit C)
]

NONE32 = 0xFFFFFFFF
S_IF = {"dir": 0o040000, "file": 0o100000, "slink": 0o120000, "bdev": 0o060000, "cdev": 0o020000, "fifo": 0o010000,
        "sock": 0o140000}
KINDS = ["dir", "file", "slink", "bdev", "cdev", "fifo", "sock"]
TYPE_NUM = {"dir": 1, "file": 2, "slink": 3, "bdev": 4, "cdev": 5, "fifo": 6, "sock": 7}
KEY_D9 = "D9:xattr-id-table-locations"
KEY_D32 = "D32:make-extended-ipc-xattr-slot"


def hx(b):
    return b.hex() if b else "-"


def unhx(t):
    return b"" if t == "-" else bytes.fromhex(t)


# ------------------------------------------------------------------------------------------------ generators
def py_dir_size(dpos, ents):
    """bytes `sqfs_dir_writer_end` emits for entries (name, inode number, inode ref) starting at stream position
    `dpos` of a never-compressed directory table — an independent replica of get_conseq_entry_count"""
    off = dpos % 8192
    total, i = 0, 0
    while i < len(ents):
        size = (off + 12) % 8192
        count = 0
        hblk, hnum = ents[i][2] >> 16, ents[i][1]
        for (nm, num, ref) in ents[i:]:
            if (ref >> 16) != hblk:
                break
            d = (num - hnum) & 0xFFFFFFFF
            d = d - (1 << 32) if d >= (1 << 31) else d
            if d > 32767 or d < -32767:
                break
            size += 8 + len(nm)
            if count > 0 and size > 8192:
                break
            count += 1
            if count == 256:
                break
        run = 12 + sum(8 + len(e[0]) for e in ents[i:i + count])
        total += run
        off = (off + run) % 8192
        i += count
    return total


class Gen:
    def __init__(self, rng, quick):
        self.r = rng
        self.quick = quick
        self.ops = []          # (line, meta)

    def add(self, line, **meta):
        meta["_line"] = line if len(line) < 400 else ""
        self.ops.append((line, meta))

    # -- numbers around the boundaries of a field of `bits` bits
    def u(self, bits, extra=()):
        top = (1 << bits) - 1
        c = [0, 1, top, top - 1, 1 << (bits - 1)] + list(extra)
        if self.r.random() < 0.5:
            return self.r.choice(c)
        return self.r.randrange(0, top + 1)

    def name(self, n=None, hi=True):
        if n is None:
            n = self.r.choice([1, 1, 2, 3, 8, 17, 100, 255, 256])
        alpha = list(range(1, 256)) if hi else list(range(0x21, 0x7f))
        alpha = [a for a in alpha if a != 0x2f]
        return bytes(self.r.choice(alpha) for _ in range(n))

    def base(self, kind):
        perm = self.r.choice([0, 0o7777, 0o644, 0o755, self.r.randrange(0, 0o10000)])
        return [S_IF[kind] | perm, self.u(16), self.u(16), self.u(32), self.u(32, (2, 3))]

    def words(self, n):
        w = []
        for _ in range(n):
            w.append(self.r.choice([0, 1, (1 << 24) | 4096, 4095, (1 << 32) - 1, self.r.randrange(0, 1 << 25)]))
        return ",".join(map(str, w)) if w else "-"

    @staticmethod
    def block_count(size, bs, fi, fo):
        c = size // bs
        if size % bs and (fi == NONE32 or fo == NONE32):
            c += 1
        return c

    def frag(self):
        return self.r.choice([(NONE32, NONE32), (NONE32, NONE32), (0, 0), (7, 123), (3, NONE32), (NONE32, 5),
                              (self.u(32), self.u(32))])

    def idx_entries(self, n):
        out = []
        for _ in range(n):
            out.append("%d/%d/%s" % (self.u(32), self.u(32), hx(self.name())))
        return ";".join(out) if out else "-"

    def inode_desc(self, kind, ext, bs, wf=True):
        """tokens of a well-formed inode description of the given kind"""
        r = self.r
        b = list(map(str, self.base(kind)))
        x = r.choice([NONE32, 0, 1, 5, NONE32 - 1, self.u(32)])
        if kind == "dir":
            if not ext:
                return ["dir"] + b + list(map(str, [self.u(32), self.u(32), r.choice([3, 4, 65535, self.u(16)]),
                                                    r.choice([0, 8191, self.u(13)]), self.u(32)]))
            n = r.choice([0, 0, 1, 2, 5, 40])
            sz = r.choice([3, 65535, 65536, (1 << 32) - 1, self.u(32, (65532, 65533))])
            if sz == 0:
                sz = 3
            return ["xdir"] + b + list(map(str, [self.u(32), sz, self.u(32), self.u(32), n, r.choice([0, 8191, self.u(13)]),
                                                 x])) + [self.idx_entries(n)]
        if kind == "file":
            fi, fo = self.frag()
            if not ext:
                size = r.choice([0, 1, bs - 1, bs, bs + 1, 3 * bs - 1, 3 * bs, 3 * bs + 1, self.u(32) % (300 * bs),
                                 (1 << 32) - 1 if bs >= 1 << 20 else 17 * bs + 5])
                n = self.block_count(size, bs, fi, fo)
                return ["file"] + b + list(map(str, [self.u(32), fi, fo, size])) + [self.words(n)]
            big = bs >= (1 << 20)
            size = r.choice([0, 1, bs - 1, bs, bs + 1, 2 * bs + 7, self.u(32) % (200 * bs)] +
                            ([(1 << 32) - 1, 1 << 32, (1 << 32) + 1, (1 << 32) + bs] if big else []))
            n = self.block_count(size, bs, fi, fo)
            start = r.choice([0, 96, (1 << 32) - 1, 1 << 32, (1 << 32) + 1, (1 << 64) - 1, self.u(64)])
            sparse = r.choice([0, 0, 1, bs, size, (1 << 64) - 1])
            return ["xfile"] + b + list(map(str, [start, size, sparse, r.choice([0, 1, 2, NONE32, self.u(32)]), fi, fo, x])) + \
                [self.words(n)]
        if kind == "slink":
            ln = r.choice([0, 1, 2, 17, 255, 256, 4095, 8150, 8168, 8169, 8170, 8192, 8200, 20000]) if not self.quick else \
                r.choice([0, 1, 2, 17, 255, 256, 8150, 8168, 8169, 8170, 8200])
            tgt = bytes(r.randrange(0, 256) for _ in range(ln))
            t = ["xslink" if ext else "slink"] + b + [str(self.u(32)), str(ln), hx(tgt)]
            return t + ([str(x)] if ext else [])
        if kind in ("bdev", "cdev"):
            t = [("x" if ext else "") + kind] + b + [str(self.u(32)), str(self.u(32))]
            return t + ([str(x)] if ext else [])
        t = [("x" if ext else "") + kind] + b + [str(self.u(32))]
        return t + ([str(x)] if ext else [])

    def gen_inodes(self, rounds):
        r = self.r
        for _ in range(rounds):
            for kind in KINDS:
                for ext in (False, True):
                    bs = r.choice([4096, 4096, 131072, 1 << 20])
                    d = self.inode_desc(kind, ext, bs)
                    tr = bytes(r.randrange(0, 256) for _ in range(r.choice([0, 1, 4, 16])))
                    self.add("inode %d %s %s" % (bs, hx(tr), " ".join(d)), op="inode", rt=True, desc=d, trailer=len(tr))
        # sizes and starts around 2^32 and 2^64 for extended files (1 MiB blocks keep the block list at 4096 words)
        for size, start, sparse in [((1 << 32) - 1, 96, 0), (1 << 32, (1 << 32) - 1, 0), ((1 << 32) + 1, 1 << 32, 1 << 20),
                                    ((1 << 32) + (1 << 20), (1 << 64) - 1, (1 << 32) + 5), ((1 << 33) + 7, (1 << 40) + 3, 0)]:
            fi, fo = (0, 5) if size % (1 << 20) else (NONE32, NONE32)
            n = self.block_count(size, 1 << 20, fi, fo)
            d = ["xfile"] + list(map(str, self.base("file"))) + list(map(str, [start, size, sparse, r.choice([1, 2, NONE32]), fi, fo,
                                                                                 r.choice([NONE32, 3])])) + [self.words(n)]
            self.add("inode %d %s %s" % (1 << 20, "a1b2", " ".join(d)), op="inode", rt=True, desc=d, trailer=2)
        # deliberately inconsistent descriptions: only model = code is asked (no round trip expected)
        bad = [
            "inode 4096 aabbccdd slink 41471 0 0 0 1 1 3 6162636465",            # target_size < payload
            "inode 4096 aabbccdd xdir 16877 0 0 0 1 2 0 0 0 1 0 4294967295 0/0/61",  # size 0: index is never read back
            "inode 4096 aabbccdd xdir 16877 0 0 0 1 2 30 0 0 0 0 4294967295 0/0/61",  # count 0 but an entry is written
            "inode 4096 aabbccdd xdir 16877 0 0 0 1 2 30 0 0 2 0 4294967295 0/0/61",  # count 2, one entry: runs into trailer
            "inode 4096 - file 33188 0 0 0 1 96 4294967295 4294967295 8193 7",       # 3 words expected, 1 given
            "inode 4096 00112233445566778899 file 33188 0 0 0 1 96 4294967295 4294967295 4096 7,8,9",  # too many words
            "inode 4096 - dir 16877 0 0 0 1 1 2 3 4 5",
            "inode 131072 - xfile 33188 1 2 3 4 5 6 0 1 4294967295 4294967295 7 -",
        ]
        for l in bad:
            self.add(l, op="inode", rt=False)

    def gen_conv(self, rounds):
        r = self.r
        for _ in range(rounds):
            for kind in KINDS:
                for ext in (False, True):
                    d = self.inode_desc(kind, ext, 4096)
                    if kind == "file" and ext:                       # drive make_basic across every threshold
                        d[6] = str(r.choice([0, (1 << 32) - 1, 1 << 32, 5]))
                        d[7] = str(r.choice([0, (1 << 32) - 1, 1 << 32, 5]))
                        d[8] = str(r.choice([0, 0, 0, 1]))
                        d[9] = str(r.choice([0, 1, 1, 2]))
                        d[12] = str(r.choice([NONE32, NONE32, 0]))
                        d[13] = "-"
                    if kind == "dir" and ext:
                        d[7] = str(r.choice([3, 65535, 65536, 70000]))
                        d[12] = str(r.choice([NONE32, NONE32, 0]))
                    if kind in ("slink", "bdev", "cdev", "fifo", "sock") and ext:
                        d[-1] = str(r.choice([NONE32, NONE32, 0, 9]))
                    stale = r.choice([0, 0, NONE32, 7, self.u(32)])
                    self.add("mkext %d %s" % (stale, " ".join(d)), op="mkext", desc=d, stale=stale)
                    self.add("mkbasic %s" % " ".join(d), op="mkbasic", desc=d)
                    self.add("setx %d %s" % (r.choice([NONE32, 0, 3, NONE32 - 1]), " ".join(d)), op="setx", desc=d)
                    # the block processor's two stores: 64-bit values around the 32-bit limit of the basic layout
                    vals = [0, 5, (1 << 32) - 2, (1 << 32) - 1, 1 << 32, (1 << 32) + 1, (1 << 40) + 5, (1 << 64) - 1]
                    for opn in ("setsz", "setst"):
                        for v in (vals if kind == "file" else [r.choice(vals)] if r.random() < 0.15 else []):
                            self.add("%s %d %s" % (opn, v, " ".join(d)), op=opn, desc=d, v=v)

    # -- directory listings
    def sorted_names(self, n, lens):
        seen = set()
        out = []
        while len(out) < n:
            ln = self.r.choice(lens)
            nm = self.name(ln)
            if nm in seen:
                continue
            seen.add(nm)
            out.append(nm)
        out.sort()
        return out

    def dirl(self, dpos, x, par, ents, **meta):
        toks = ["%s/%d/%d/%d" % (hx(n), num, ref, mode) for (n, num, ref, mode) in ents]
        self.add("dirl %d %d %d %s" % (dpos, x, par, " ".join(toks)), op="dirl", ents=ents, **meta)

    def gen_dirs(self, scale):
        r = self.r
        modes = [S_IF[k] | 0o644 for k in KINDS]

        def ents_for(names, numf, reff):
            return [(nm, numf(i), reff(i), r.choice(modes)) for i, nm in enumerate(names)]

        # entry counts around the 256-entries-per-header rule and the index threshold
        for n in [0, 1, 2, 255, 256, 257, 511, 512, 513] + ([1025] if not self.quick else []):
            names = self.sorted_names(n, [1, 2, 3, 5])
            self.dirl(r.choice([0, 100, 8000]), NONE32, 5, ents_for(names, lambda i: 10 + i, lambda i: (i * 40) % 8000),
                      what="count")
        # inode number deltas around +-32767 against the first entry of a run
        for base, deltas in [(40000, [0, 32767, 32768, 1, -32767, -32768, 5]), (5, [0, 3, 32766, 32767, 32768, 32769]),
                             (100000, [0, -32766, -32767, -32768, -32769, 10])]:
            names = self.sorted_names(len(deltas), [3])
            self.dirl(0, NONE32, 1, [(nm, base + d, 64, modes[1]) for nm, d in zip(names, deltas)], what="delta")
        # inode block changes inside a listing, 32-bit block starts
        names = self.sorted_names(12, [4])
        blocks = [0, 0, 8194, 8194, 0, 16388, 16388, (1 << 32) - 1, (1 << 32) - 1, 5, 5, 5]
        self.dirl(0, NONE32, 1, [(nm, 100 + i, (blocks[i] << 16) | (i * 32), modes[i % 7]) for i, nm in enumerate(names)],
                  what="blocks")
        # the 8 KiB rule: listings that start close to the end of a metadata block, long names
        for dpos in [8192 - 12 - 8 - 256, 8192 - 12 - 8 - 255, 8192 - 12, 8192 - 11, 8191, 8180, 8192 * 2 - 300, 4000]:
            names = self.sorted_names(r.choice([3, 40, 70]), [256, 255, 200, 1])
            self.dirl(dpos, r.choice([NONE32, 0]), 9, ents_for(names, lambda i: 1 + i, lambda i: i * 64), what="8k")
        # listing sizes exactly around 64 KiB (a basic inode holds size + 3 in 16 bits) with fewer than 256 entries:
        # 65531..65537 bytes, computed with the replica of get_conseq_entry_count below
        for dpos in ([0] if self.quick else [0, 4000]):
            names = self.sorted_names(250, [256])
            base = []
            for i, nm in enumerate(names):
                if py_dir_size(dpos, base + [(nm, 1 + i, 0)]) > 65400:
                    break
                base.append((nm, 1 + i, 0))
            hit = {}
            for b in (3, 10, 50, 100, 200, 256):
                for a in range(2, 257):
                    cand = base + [(b"\xff\xff" + b"\x01" * (a - 2), 9000, 0), (b"\xff\xff\xff" + b"\x01" * (b - 3), 9001, 0)]
                    cand = sorted(cand, key=lambda e: e[0])
                    if len({e[0] for e in cand}) != len(cand):
                        continue
                    sz = py_dir_size(dpos, cand)
                    if 65531 <= sz <= 65537 and sz not in hit:
                        hit[sz] = cand
            for sz in sorted(hit):
                self.dirl(dpos, NONE32, 2, [(nm, num, ref, modes[1]) for (nm, num, ref) in hit[sz]], what="64k", size=sz)
        # names with high bytes, quotes, spaces; every type
        for _ in range(scale):
            n = r.choice([1, 3, 7, 20, 60])
            names = self.sorted_names(n, [1, 2, 8, 30, 255, 256])
            numbase = self.u(32) % (1 << 31) + 40000
            self.dirl(r.randrange(0, 8192 * 3), r.choice([NONE32, 0, 77]), self.u(32),
                      [(nm, numbase + r.randrange(-300, 300), (r.choice([0, 8194, 16388]) << 16) | r.randrange(0, 8192), r.choice(modes))
                       for nm in names], what="random")
        # refused by add_entry: over-long name, inode number 0, unknown type
        long_name = self.name(257)
        self.dirl(0, NONE32, 1, [(b"a", 2, 0, modes[0]), (long_name, 3, 0, modes[1])], what="refuse", expect_st=16)
        self.dirl(0, NONE32, 1, [(b"a", 0, 0, modes[0])], what="refuse", expect_st=16)
        self.dirl(0, NONE32, 1, [(b"a", 1, 0, 0o644)], what="refuse", expect_st=6)

    # -- metadata streams, tables
    def gen_meta(self, scale):
        r = self.r
        shapes = [[0], [1], [8191], [8192], [8193], [8192, 8192], [8192, 1], [1, 8191, 1], [5000, 5000, 5000], [16384 + 5],
                  [3, 0, 4]]
        for codec in ("raw", "toy"):
            for sh in shapes + [[r.randrange(0, 9000) for _ in range(r.randrange(1, 5))] for _ in range(scale)]:
                chunks = []
                for n in sh:
                    if codec == "toy" and r.random() < 0.6:
                        chunks.append(bytes([r.randrange(0, 256)]) * n)
                    else:
                        chunks.append(bytes(r.randrange(0, 256) for _ in range(n)))
                total = sum(sh)
                reads = []
                for _ in range(4):
                    if total == 0:
                        break
                    p = r.choice([0, max(0, total - 1), min(total - 1, 8191), min(total - 1, 8192), r.randrange(0, total)])
                    n = r.choice([1, 2, total - p, min(total - p, 8192), min(total - p, 9000), r.randrange(1, total - p + 1)])
                    reads.append((p, n))
                reads = sorted(set(reads))
                self.add("meta %s %s %s" % (codec, ",".join("%d:%d" % x for x in reads) if reads else "-",
                                            " ".join(hx(c) for c in chunks)), op="meta", chunks=chunks, reads=reads)
        # constant data: every full block compresses to 3 bytes, references differ from the raw layout
        chunks = [b"\x07" * 8192, b"\x07" * 8192, b"\x08" * 100]
        self.add("meta toy 0:1,8191:2,8192:8192,16383:20,16384:100 %s" % " ".join(hx(c) for c in chunks), op="meta",
                 chunks=chunks, reads=[(0, 1), (8191, 2), (8192, 8192), (16383, 20), (16384, 100)])

    def gen_tables(self, scale):
        r = self.r
        for codec in ("raw", "toy"):
            for n in [0, 1, 8, 8191, 8192, 8193, 16384, 16385, 24577] + [r.randrange(0, 20000) for _ in range(scale)]:
                data = bytes([5]) * n if (codec == "toy" and r.random() < 0.5) else bytes(r.randrange(0, 256) for _ in range(n))
                self.add("table %s %d %s" % (codec, r.choice([0, 5, 96]), hx(data)), op="table", data=data)
        for _ in range(scale + 3):
            n = r.choice([1, 2, 5, 50, 300, 2048, 2049, 4097])
            pool = [0, 1, 1000, (1 << 32) - 1, 65534, 65535, 65536] + [r.randrange(0, 1 << 32) for _ in range(max(1, n // 2))]
            ids = [r.choice(pool) for _ in range(n)]
            self.add("idtab %d %s" % (r.choice([0, 96]), " ".join(map(str, ids))), op="idtab", ids=ids)
        for n in ([2047, 2048, 2049, 4096] if self.quick else [2048, 2049, 65535, 65536]):
            self.add("idrange %d" % n, op="idrange", n=n)
        # the 65535-id limit on a pre-loaded table (cheap): ids 5..9 are new, 1000.. are present
        for n0, ids in [(65533, [5, 1000, 6, 7, 8]), (65534, [5, 5, 1001, 6]), (65535, [1001, 66534, 9]), (65535, [9]), (65532, [5, 6, 7, 8]),
                        (3, [1002, 1002, 4, 5])]:
            self.add("idlimit %d %s" % (n0, " ".join(map(str, ids))), op="idlimit", n0=n0, ids=ids)
        for n in [1, 2, 511, 512, 513, 1024, 1025] + [r.randrange(1, 700) for _ in range(scale)]:
            fr = [(self.u(64), r.choice([(1 << 24) | r.randrange(1, 1 << 17), r.randrange(1, 1 << 17), self.u(32)])) for _ in range(n)]
            self.add("frag %d %s" % (r.choice([0, 96]), " ".join("%d/%d" % f for f in fr)), op="frag", frags=fr)

    def gen_export_super(self, scale):
        r = self.r
        for _ in range(scale + 2):
            n = r.choice([1, 2, 5, 40, 1023, 1024, 1025])
            refs = {i: ((r.randrange(0, 1 << 20) * 8194) << 16) | r.randrange(0, 8192) for i in range(1, n + 1)}
            order = list(range(1, n)) + [r.randrange(1, n + 1) for _ in range(r.choice([0, 3]))]     # hard links repeat a number
            r.shuffle(order)
            toks = ["%d/%d" % (i, refs[i]) for i in order] + ["%d/%d" % (n, refs[n])]
            self.add("export %d %s" % (r.choice([0, 96]), " ".join(toks)), op="export", n=n, refs=refs)
        self.add("export 0 0/5 1/7", op="export", expect="add 16")
        NT = (1 << 64) - 1
        for bs in [4096, 8192, 131072, 1 << 20, 4095, 2048, 1 << 21, 12288, 0]:
            for comp in ([1, 6] if bs == 131072 else [4]):
                self.add("super %d %d %d %d %d %d %d %d %d %d %d %d %d %d" % (
                    bs, self.u(32), comp, self.u(32), r.choice([0x1c0, 0x2d0, 0xffff, 0]), r.choice([1, 2, 65535]), self.u(64),
                    self.u(64), self.u(64), r.choice([NT, self.u(64)]), 96, self.u(64), r.choice([NT, self.u(64)]),
                    r.choice([NT, self.u(64)])), op="super", bs=bs, comp=comp)
        self.add("super 131072 1 0 1 0 1 0 96 96 96 96 96 96 96", op="super", bs=131072, comp=0)       # compressor id 0: read refuses
        self.add("super 131072 1 7 1 0 1 0 96 96 96 96 96 96 96", op="super", bs=131072, comp=7)
        self.add("super 131072 1 1 1 0 0 0 96 96 96 96 96 96 96", op="super", bs=131072, comp=1, idc0=True)  # id count 0

    # -- xattrs
    def xkey(self):
        pfx = self.r.choice([b"user.", b"trusted.", b"security."])
        ln = self.r.choice([1, 1, 3, 8, 40, 255])
        return pfx + bytes(self.r.choice([c for c in range(1, 256)]) for _ in range(ln))

    def xval(self, pool):
        if pool and self.r.random() < 0.5:
            return self.r.choice(pool)
        ln = self.r.choice([0, 1, 7, 8, 9, 10, 16, 100, 300])
        v = bytes(self.r.randrange(0, 256) for _ in range(ln))
        pool.append(v)
        return v

    def gen_xattr(self, scale):
        r = self.r

        def emit(sets, **meta):
            toks = [",".join("%s=%s" % (hx(k), hx(v)) for k, v in s) if s else "-" for s in sets]
            self.add("xattr 0 %s" % " ".join(toks), op="xattr", sets=sets, **meta)

        k1, k2, k3 = b"user.a", b"trusted.b", b"security.selinux"
        long_v, v8, v9 = b"L" * 40, b"12345678", b"123456789"
        emit([[(k1, b"x")]])
        emit([[(k1, v8)], [(k2, v8)], [(k3, v8)]], what="len8-shared")                  # 8 bytes: never out of line
        emit([[(k1, v9)], [(k2, v9)], [(k3, v9)]], what="len9-shared")                  # 9 bytes: 2nd and 3rd out of line
        emit([[(k1, long_v), (k2, long_v)], [(k3, long_v)]], what="shared-in-set")
        emit([[(k1, long_v)], [(k1, long_v)], [(k1, long_v)]], what="dedup-sets")        # one set, refcount 3, used once
        emit([[(k1, b"1"), (k2, b"2")], [(k2, b"2"), (k1, b"1")]], what="dedup-order")
        emit([[(k1, b"1"), (k1, b"2"), (k1, b"1")], [(k1, b"1")]], what="replace")
        emit([[], [(k1, b"")], []], what="empty")
        emit([[]], what="none")
        emit([[(b"user.", b"1")]], what="refuse", expect_rec=6)
        emit([[(b"usr.a", b"1")]], what="refuse", expect_rec=6)
        emit([[(b"system.a", b"1")]], what="refuse", expect_rec=6)
        # a value first stored inline at the end of a metadata block, referenced later
        filler = [(b"user.f%03d" % i, bytes([i % 251]) * 200) for i in range(39)]
        emit([filler + [(b"user.z", long_v)], [(b"user.y", long_v)]], what="ool-cross-block")
        for _ in range(scale):
            pool = []
            keys = [self.xkey() for _ in range(r.choice([1, 3, 8]))]
            sets = []
            for _ in range(r.choice([1, 2, 5, 12])):
                n = r.choice([0, 1, 2, 4, 9])
                sets.append([(r.choice(keys), self.xval(pool)) for _ in range(n)])
            emit(sets, what="random")
        # 512 descriptors per metadata block: 1025 sets need locations[2], 1537 sets locations[3] (the 4th block)
        for n in ([1, 511, 512, 513, 1025, 1537] if self.quick
                  else [1, 2, 511, 512, 513, 1023, 1024, 1025, 1536, 1537, 2048, 2049, 4096]):
            for vlen in ((4, 20) if n <= 513 or not self.quick else (4,)):
                self.add("xsets 0 %d %d" % (n, vlen), op="xsets", n=n, vlen=vlen)



    # -- whole trees: fstree_add_generic + fstree_post_process + sqfs_serialize_fstree, walked with the real readers
    def tree_name(self, short=True):
        n = self.r.choice([1, 2, 3, 5, 12]) if short else self.r.choice([30, 100, 255, 256])
        alpha = [c for c in range(0x21, 0x100) if c != 0x2f]
        while True:
            nm = bytes(self.r.choice(alpha) for _ in range(n))
            # every entry point canonicalises names (pack file, tar) or takes them from readdir, which skips them:
            # "." and ".." never reach fstree_add_generic as a component.  (The library would accept such a node, and
            # `mknode` canonicalises a hard link's *target*: corpus/C01/units-boundaries.ops pins both.)
            if nm not in (b".", b".."):
                return nm

    def file_spec(self):
        r = self.r
        bs = 4096
        fi, fo = r.choice([(NONE32, NONE32), (NONE32, NONE32), (0, 0), (3, 77)])
        size = r.choice([0, 1, bs - 1, bs, bs + 1, 3 * bs + 5, 40 * bs])
        n = self.block_count(size, bs, fi, fo)
        words = ";".join(str(r.choice([0, 4096 | (1 << 24), 1000, 77])) for _ in range(n)) if n else "-"
        if r.random() < 0.6:
            return "b:%d:%d:%d:%d:%s" % (r.choice([96, 5000, (1 << 32) - 1]), fi, fo, size, words)
        return "x:%d:%d:%d:%d:%d:%s" % (r.choice([96, (1 << 32) - 1, 1 << 32, (1 << 40) + 5]), size,
                                        r.choice([0, 0, 4096, size]), fi, fo, words)

    def gen_trees(self, count):
        r = self.r
        for it in range(count):
            big = it % 3 == 2
            specs, leaves, links = [], [], []
            kind = {b"": "i"}                     # path -> 'd' explicit dir, 'i' implicitly created dir, 'x' anything else
            ids = [0, 1000, 65534, (1 << 32) - 1, r.randrange(1, 1 << 32), r.randrange(1, 1 << 32)]

            def dirs():
                return [p for p, k in kind.items() if k in "di"]

            def can_add(path, t):
                comps = path.split(b"/")
                for i in range(1, len(comps)):
                    if kind.get(b"/".join(comps[:i]), "i") not in "di":
                        return False
                return path not in kind or (kind[path] == "i" and t == "d")

            def add(path, t, extra, perm=None, xattr=None):
                if not can_add(path, t):
                    return False
                comps = path.split(b"/")
                for i in range(1, len(comps)):
                    kind.setdefault(b"/".join(comps[:i]), "i")
                kind[path] = "d" if t == "d" else "x"
                specs.append((path, t, perm if perm is not None else r.choice([0o644, 0o755, 0, 0o7777]), r.choice(ids), r.choice(ids),
                              r.choice([0, 1, 1 << 31, (1 << 32) - 1, r.randrange(0, 1 << 32)]),
                              xattr if xattr is not None else r.choice([NONE32, NONE32, NONE32, 0, 7]), extra))
                return True

            if r.random() < 0.4:
                kind[b""] = "d"
                specs.append((b"", "d", r.choice([0o755, 0o700, 0o7777]), r.choice(ids), r.choice(ids), r.randrange(0, 1 << 32),
                              r.choice([NONE32, 5]), "-"))               # explicit attributes for the root
            nnodes = r.choice([3, 8, 20]) if not big else r.choice([150, 320])
            for _ in range(nnodes):
                parent = r.choice(dirs())
                if r.random() < 0.15 and parent.count(b"/") < 3:          # implicitly created parents
                    parent = (parent + b"/" if parent else b"") + self.tree_name()
                nm = self.tree_name(short=(r.random() < 0.9))
                path = (parent + b"/" if parent else b"") + nm
                t = r.choice("dddfffflllbcps")
                if t == "d":
                    add(path, "d", "-")
                elif t == "f":
                    if add(path, "f", self.file_spec()):
                        leaves.append(path)
                elif t == "l":
                    ln = r.choice([1, 3, 20, 255, 2000]) if not big else r.choice([1, 10, 100, 3000])
                    if add(path, "l", bytes(r.randrange(1, 256) for _ in range(ln)).hex()):
                        leaves.append(path)
                elif t in "bc":
                    if add(path, t, str(r.choice([0, 1281, (1 << 32) - 1]))):
                        leaves.append(path)
                elif add(path, t, "-"):
                    leaves.append(path)
            # hard links: to files, symlinks, devices, fifos, and to other hard links; in directories before and behind
            for _ in range(r.choice([0, 1, 3, 6])):
                if not leaves:
                    break
                tgt = r.choice(leaves + links)
                parent = r.choice(dirs())
                path = (parent + b"/" if parent else b"") + self.tree_name()
                if add(path, "h", tgt.hex(), perm=0, xattr=NONE32):
                    links.append(path)
            if big:                                                            # one large directory: extended inode, index
                base = r.choice(dirs())
                for k in range(r.choice([255, 256, 300])):
                    add((base + b"/" if base else b"") + b"e%04d" % k, "p", "-")
            toks = ["%s|%s|%d|%d|%d|%d|%d|%s" % (hx(p), t, perm, u, g, mt, xa, ex) for (p, t, perm, u, g, mt, xa, ex) in specs]
            self.add("tree " + " ".join(toks), op="tree", specs=specs)
        # the id table at its limit *inside* sqfs_serialize_fstree (both lookups of serialize_tree_node): the writer's
        # table already holds n0 ids; inodes are written children first, the root last
        f = "b:96:%d:%d:0:-" % (NONE32, NONE32)

        def idcase(n0, nodes, root, expect_ret, count):
            specs = [(b"", "d", 0o755, root[0], root[1], 0, NONE32, "-")] if root else []
            specs += [(p, "f", 0o644, u, g, 0, NONE32, f) for (p, u, g) in nodes]
            toks = ["%s|%s|%d|%d|%d|%d|%d|%s" % (hx(p), t, perm, u, g, mt, xa, ex) for (p, t, perm, u, g, mt, xa, ex) in specs]
            self.add("treeids %d %s" % (n0, " ".join(toks)), op="treeids", specs=specs if expect_ret == 0 else None,
                     expect="ret %d" % expect_ret, idcount=count, n0=n0)
        # (filling the real table is a linear search per id: ~5 s per case under ASan, so quick runs three of them)
        idcase(65533, [(b"a", 5, 5)], (5, 6), 0, 65535)         # 5; root: 5 found, 6 is the 65535th: exactly full
        idcase(65534, [(b"a", 5, 6)], None, 7, None)            # 6 is the 65536th: refused at the **gid** lookup
        idcase(65534, [(b"a", 5, 5)], (5, 6), 7, None)          # root's gid 6 is the 65536th: gid lookup, last inode
        if not self.quick:
            idcase(65532, [(b"a", 5, 6)], None, 0, 65535)       # 5, 6, then the root's 0: exactly 65535 ids
            idcase(65533, [(b"a", 5, 6)], None, 7, None)        # root's uid 0 is the 65536th: refused at the uid lookup
            idcase(65535, [(b"a", 1000, 65000 + 1000)], (1001, 1002), 0, 65535)   # full table, every id already in it
            idcase(65535, [(b"a", 1000, 5)], (1001, 1002), 7, None)
            n0 = r.choice([65530, 65531, 65532])
            extra = [(b"n%d" % k, r.choice([5, 6, 7, 1000]), r.choice([5, 6, 7, 2000])) for k in range(3)]
            distinct = len({x for (_, u, g) in extra for x in (u, g) if not 1000 <= x < 1000 + n0} | {0})
            if n0 + distinct <= 65535:
                idcase(n0, extra, None, 0, n0 + distinct)
        # refused trees
        long_name = bytes([0x61]) * 257
        self.add("tree %s|f|420|0|0|0|%d|b:96:%d:%d:0:-" % (hx(long_name), NONE32, NONE32, NONE32), op="tree", specs=None, expect="ret 4")
        self.add("tree 61|d|493|0|0|0|%d|- 62|h|0|0|0|0|%d|61" % (NONE32, NONE32), op="tree", specs=None, expect="post failed")
        self.add("tree 61|h|0|0|0|0|%d|62 62|h|0|0|0|0|%d|61" % (NONE32, NONE32), op="tree", specs=None, expect="post failed")
        self.add("tree 61|f|420|0|0|0|%d|b:96:%d:%d:0:- 61|f|420|0|0|0|%d|b:96:%d:%d:0:-" % ((NONE32,) * 6), op="tree", specs=None,
                 expect="add 1 failed")


def generate(rng, quick):
    g = Gen(rng, quick)
    s = 1 if quick else 5
    g.gen_inodes(4 * s)
    g.gen_conv(2 * s)
    g.gen_dirs(6 * s)
    g.gen_meta(3 * s)
    g.gen_tables(3 * s)
    g.gen_export_super(2 * s)
    g.gen_xattr(6 * s)
    g.gen_trees(12 * s)
    return g.ops


# ------------------------------------------------------------------------------------------------ running
def _limits():
    import resource
    resource.setrlimit(resource.RLIMIT_FSIZE, (1 << 30, 1 << 30))          # a runaway answer is cut at 1 GiB (SIGXFSZ)


def run_real(ctx, exe, lines, timeout):
    """answers of the real code, one per line; a sanitizer abort / signal / timeout becomes the answer of the op
    that was being executed (`crash …`), and the harness is restarted behind it.  The harness writes to a file in the
    scratch directory (size-limited) and runs with an allocation cap, so that a broken library cannot take the check
    down with it."""
    out = []
    i = 0
    env = ctx.san_env({"ASAN_OPTIONS": "detect_leaks=0:abort_on_error=0:exitcode=99:allocator_may_return_null=1:"
                                       "max_allocation_size_mb=1024:hard_rss_limit_mb=4096"})
    round_no = 0
    while i < len(lines):
        round_no += 1
        fin = ctx.scratch / ("units_in_%d.txt" % round_no)
        fout = ctx.scratch / ("units_out_%d.txt" % round_no)
        fin.write_text("\n".join(lines[i:]) + "\n")
        err = ""
        try:
            with open(fin) as fi, open(fout, "w") as fo:
                p = subprocess.run([str(exe)], stdin=fi, stdout=fo, stderr=subprocess.PIPE, text=True, errors="replace", env=env,
                                   timeout=timeout, preexec_fn=_limits)
            rc, err = p.returncode, p.stderr[-20000:]
        except subprocess.TimeoutExpired:
            rc, err = -999, "timeout"
        got = fout.read_text(errors="replace").split("\n")
        complete = got and got[-1] == ""
        if got and got[-1] == "":
            got.pop()
        elif got:
            got.pop()                                        # a partial last line belongs to the op that died
        fin.unlink(); fout.unlink()
        if rc == 0 and complete and len(got) == len(lines) - i:
            out.extend(got)
            break
        k = min(len(got), len(lines) - i - 1)
        out.extend(got[:k])
        kind = "timeout" if rc == -999 else ("asan" if rc == 99 else "ubsan" if rc == 98 else "exit%d" % rc)
        summary = ""
        for l in err.splitlines():
            if "ERROR: AddressSanitizer" in l or "runtime error" in l or "SUMMARY" in l:
                summary = l.strip()
                if "SUMMARY" in l:
                    break
        where = ""
        for l in err.splitlines():
            if " in " in l and "/lib/" in l and l.strip().startswith("#"):
                where = l.strip().split(" in ", 1)[1]
                break
        out.append("crash %s %s | %s" % (kind, summary[:200], where[:160]))
        i += k + 1
    return out


# ------------------------------------------------------------------------------------------------ monitors
def canon_xattr_sets(sets):
    """what must be read back for every input set: interning order as the writer's, per set last value per key,
    sorted by (key index, value index); None for an empty set (index 0xFFFFFFFF)"""
    keys, vals = {}, {}
    out = []
    for s in sets:
        cur = []
        for k, v in s:
            ki = keys.setdefault(k, len(keys))
            vi = vals.setdefault(v, len(vals))
            for j, (a, _) in enumerate(cur):
                if a == ki:
                    cur[j] = (ki, vi)
                    break
            else:
                cur.append((ki, vi))
        cur.sort()
        inv_k = {i: k for k, i in keys.items()}
        inv_v = {i: v for v, i in vals.items()}
        out.append([(inv_k[a], inv_v[b]) for a, b in cur] if cur else None)
    return out


def spec_failures(meta, ans):
    """clauses of `read back = written` violated by the real code's answer `ans` (list of strings)"""
    op = meta.get("op")
    bad = []
    t = ans.split()
    if ans.startswith("crash"):
        return ["memory-error-or-abort: " + ans]
    if meta.get("corpus"):
        return []                     # regression lines carry no expectation of their own: model = code is what is asked
    try:
        if op == "inode" and meta.get("rt"):
            if t[0] != "w" or t[1] != "0":
                return ["write-failed"]
            enc = unhx(t[2])
            if t[3] != "r" or t[4] != "0":
                return ["read-failed %s" % t[4]]
            got = t[5:-1]
            if got != meta["desc"]:
                bad.append("inode-read-back-differs")
            if t[-1] != "used=%d" % len(enc):
                bad.append("reader-position-after-inode")
        elif op == "dirl":
            if "expect_st" in meta:
                if ans != "st %d" % meta["expect_st"]:
                    bad.append("unrepresentable-entry-not-refused")
                return bad
            if not ans.startswith("st 0 "):
                return ["listing-refused"]
            i = t.index("rd")
            if t[i + 1] != "0":
                return ["listing-read-failed %s" % t[i + 1]]
            want = ["%s/%d/%d/%d" % (hx(n), num, TYPE_NUM[[k for k in KINDS if S_IF[k] == (mode & 0o170000)][0]], ref)
                    for (n, num, ref, mode) in meta["ents"]]
            got = [] if t[i + 2:] == ["-"] else t[i + 2:]
            if got != want:
                bad.append("listing-read-back-differs")
            if "size" in meta and t[2] != "size=%d" % meta["size"]:
                bad.append("listing-size-differs-from-replica")
            size = int(t[2].split("=")[1])
            kind = t[t.index("ino") + 1]
            if kind == "dir" and (size + 3 > 0xFFFF or len(meta["ents"]) >= 256):
                bad.append("basic-directory-inode-cannot-hold-size")
        elif op == "meta":
            whole = b"".join(meta["chunks"])
            i = t.index("all")
            if t[i + 1] != "0" or unhx(t[i + 2]) != whole:
                bad.append("stream-read-back-differs")
            rd = ans.split(" rd ", 1)[1]
            parts = [] if rd == "-" else rd.split(" | ")
            for (p, n), part in zip(meta["reads"], parts):
                v = part.split("=", 1)[1].split()
                if p + n > len(whole):
                    if v[0] == "0":
                        bad.append("read-beyond-the-stream-succeeds@%d" % p)
                elif v[0] != "0" or unhx(v[1]) != whole[p:p + n]:
                    bad.append("reference-read-differs@%d" % p)
        elif op == "table":
            v = ans.split(" rd ", 1)[1].split()
            if v[0] != "0" or unhx(v[1]) != meta["data"]:
                bad.append("table-read-back-differs")
        elif op == "idtab":
            ids = meta["ids"]
            tbl = []
            for x in ids:
                if x not in tbl:
                    tbl.append(x)
            if t[1] != "0":
                return ["ids-refused"] if len(tbl) <= 65535 else []
            idx = list(map(int, t[2].split(",")))
            v = ans.split(" rd ", 1)[1].split()
            if v[0] != "0":
                return ["id-table-read-failed"]
            back = list(map(int, v[1].split(",")))
            if [back[i] if i < len(back) else None for i in idx] != ids:
                bad.append("id-read-back-differs")
        elif op == "idrange":
            n = meta["n"]
            if n <= 65535:
                if "same=true" not in ans:
                    bad.append("id-read-back-differs")
            elif not ans.startswith("idx 7"):
                bad.append("too-many-ids-not-refused")
        elif op == "idlimit":
            tbl = list(range(1000, 1000 + meta["n0"]))
            want = ["idx"]
            for x in meta["ids"]:
                if x in tbl:
                    want.append(str(tbl.index(x)))
                elif len(tbl) >= 65535:
                    want.append("e7")
                    break
                else:
                    tbl.append(x)
                    want.append(str(len(tbl) - 1))
            want.append("count=%d" % len(tbl))
            if t[:len(want)] != want:
                bad.append("id-table-limit: wanted `%s`" % " ".join(want))
        elif op == "frag":
            v = ans.split(" rd ", 1)[1].split()
            want = ["%d/%d" % f for f in meta["frags"]]
            if v[0] != "0" or v[1:] != want:
                bad.append("fragment-table-read-back-differs")
        elif op == "xattr":
            if "expect_rec" in meta:
                if ans != "rec %d" % meta["expect_rec"]:
                    bad.append("unsupported-key-not-refused")
                return bad
            if t[1] != "0":
                return ["record-failed"]
            want = canon_xattr_sets(meta["sets"])
            idx = [] if t[2] == "-" else list(map(int, t[2].split(",")))
            for i, w in zip(idx, want):
                if (w is None) != (i == NONE32):
                    bad.append("empty-set-index")
            if all(w is None for w in want):
                return bad
            rd = ans.split(" rd ", 1)[1].split(" ; ")
            got = {}
            for part in rd:
                a, rest = part.split(":", 1)
                v = rest.split()
                got[int(a)] = None if v[0] != "0" else ([] if v[1] == "-" else
                                                        [tuple(unhx(z) for z in kv.split("=")) for kv in v[1].split(",")])
            for i, w in zip(idx, want):
                if w is not None and got.get(i) != w:
                    bad.append("xattr-set-read-back-differs@%d" % i)
                    break
        elif op == "xsets":
            if "same=true" not in ans:
                bad.append("xattr-set-read-back-differs")
        elif op in ("tree", "treeids"):
            bad.extend(tree_failures(meta, ans))
            if op == "treeids" and meta.get("idcount") is not None and not bad:
                ids = [x for x in t if x.startswith("ids=")][0][4:].split(",")
                want = list(range(1000, 1000 + meta["n0"]))
                if len(ids) != meta["idcount"] or list(map(int, ids[:meta["n0"]])) != want:
                    bad.append("id table after the run: %d ids, wanted %d" % (len(ids), meta["idcount"]))
        elif op in ("setsz", "setst"):
            d = meta["desc"]
            if d[0] not in ("file", "xfile"):
                return [] if ans == "err 15" else ["non-file inode not refused"]
            if t[0] not in ("file", "xfile") or len(t) != ARITY[t[0]]:
                return ["not a file inode afterwards"]
            before, after = inode_view(d, []), inode_view(t, [])
            slot = 2 if op == "setsz" else 1                 # payload = ("f", start, size, sparse, frag idx, frag off, words)
            pb, pa = list(before["payload"]), list(after["payload"])
            if pa[slot] != meta["v"]:
                bad.append("value stored is not the value read back (truncated?)")
            if meta["v"] > 0xFFFFFFFF and t[0] != "xfile":
                bad.append("basic layout with a value beyond 32 bits")
            if t[0] == "file" and (pa[1] > 0xFFFFFFFF or pa[2] > 0xFFFFFFFF):
                bad.append("basic layout cannot hold start/size")
            pb[slot] = pa[slot] = None
            if pb != pa or [before[k] for k in ("mode", "mtime", "inum", "xattr")] != [after[k] for k in ("mode", "mtime", "inum", "xattr")]:
                bad.append("another field changed")
            if d[0] == "xfile" and int(d[9]) >= 1 and after["nlink"] != before["nlink"]:
                bad.append("link count changed")
        elif op == "export":
            if "expect" in meta:
                return [] if ans == meta["expect"] else ["inode number 0 not refused"]
            v = ans.split(" rd ", 1)[1].split()
            want = ",".join(str(meta["refs"][i]) for i in range(1, meta["n"] + 1))
            if v[0] != "0" or v[1] != want:
                bad.append("export-table-read-back-differs")
        elif op == "super":
            f = t
            args = list(map(int, meta_line_args(meta)))
            bs = meta["bs"]
            valid_bs = bs in [1 << k for k in range(12, 21)]
            if (f[1] == "0") != valid_bs:
                bad.append("block-size-check")
            elif valid_bs:
                i = f.index("rd")
                ok = 1 <= meta["comp"] <= 6 and not meta.get("idc0")
                if (f[i + 1] == "0") != ok:
                    bad.append("super-read-accepts/refuses wrongly")
                elif ok:
                    got = list(map(int, f[i + 2:]))
                    a = args
                    want = [0x73717368, a[3] % 2 ** 32, a[1], bs, 0, a[2], bs.bit_length() - 1, a[4], a[5], 4, 0] + a[6:14]
                    if got != want:
                        bad.append("super-read-back-differs")
    except (IndexError, ValueError, KeyError, AssertionError) as e:
        bad.append("unparsable-answer (%s)" % e)
    return bad



ARITY = {"dir": 11, "file": 11, "slink": 9, "bdev": 8, "cdev": 8, "fifo": 7, "sock": 7, "xdir": 14, "xfile": 14, "xslink": 10,
         "xbdev": 9, "xcdev": 9, "xfifo": 8, "xsock": 8}


def parse_walk(tokens, pos):
    """( name <inode desc> child* ) -> (node, next position); node = (name, desc tokens, children)"""
    assert tokens[pos] == "("
    name = tokens[pos + 1]
    k = tokens[pos + 2]
    desc = tokens[pos + 2:pos + 2 + ARITY[k]]
    pos = pos + 2 + ARITY[k]
    kids = []
    while tokens[pos] == "(":
        c, pos = parse_walk(tokens, pos)
        kids.append(c)
    assert tokens[pos] == ")"
    return (name, desc, kids), pos + 1


def inode_view(desc, ids):
    """what a reader learns from an inode description: kind, perm, uid, gid, mtime, inum, nlink, xattr, payload"""
    k = desc[0]
    basic = k[1:] if k.startswith("x") else k
    mode, ui, gi, mt, inum = map(int, desc[1:6])
    f = desc[6:]
    v = {"kind": basic, "mode": mode, "uid": ids[ui] if ui < len(ids) else None, "gid": ids[gi] if gi < len(ids) else None,
         "mtime": mt, "inum": inum, "xattr": NONE32, "nlink": 1}
    if k == "dir":
        v.update(nlink=int(f[1]), parent=int(f[4]))
    elif k == "xdir":
        v.update(nlink=int(f[0]), parent=int(f[3]), xattr=int(f[6]))
    elif k == "file":
        v.update(payload=("f", int(f[0]), int(f[3]), 0, int(f[1]), int(f[2]), f[4]))
    elif k == "xfile":
        v.update(nlink=int(f[3]), xattr=int(f[6]), payload=("f", int(f[0]), int(f[1]), int(f[2]), int(f[4]), int(f[5]), f[7]))
    elif k in ("slink", "xslink"):
        v.update(nlink=int(f[0]), payload=("l", f[2]))
        if k == "xslink":
            v["xattr"] = int(f[3])
    elif k in ("bdev", "cdev", "xbdev", "xcdev"):
        v.update(nlink=int(f[0]), payload=("d", int(f[1])))
        if k[0] == "x":
            v["xattr"] = int(f[2])
    else:
        v["nlink"] = int(f[0])
        if k[0] == "x":
            v["xattr"] = int(f[1])
    return v


def tree_expectation(specs):
    """the tree a reader must find: path -> attributes, computed from the specs alone"""
    nodes = {b"": {"t": "d", "perm": 0o755, "uid": 0, "gid": 0, "mtime": 0, "xattr": NONE32, "extra": "-", "implicit": True}}
    for (path, t, perm, u, g, mt, xa, ex) in specs:
        if path == b"":
            nodes[b""].update(perm=perm, uid=u, gid=g, mtime=mt, xattr=xa, implicit=False)
            continue
        comps = path.split(b"/")
        for i in range(1, len(comps)):
            q = b"/".join(comps[:i])
            if q not in nodes:
                nodes[q] = {"t": "d", "perm": 0o755, "uid": 0, "gid": 0, "mtime": 0, "xattr": NONE32, "extra": "-", "implicit": True}
        if path in nodes:                                  # overwrite of an implicitly created directory
            nodes[path].update(perm=perm, uid=u, gid=g, mtime=mt, xattr=xa, implicit=False)
        else:
            nodes[path] = {"t": t, "perm": 0o777 if t in "lh" else perm, "uid": u, "gid": g, "mtime": mt,
                           "xattr": NONE32 if t == "h" else xa, "extra": ex, "implicit": False}

    def resolve(p):
        seen = 0
        while nodes[p]["t"] == "h":
            p = bytes.fromhex(nodes[p]["extra"])
            seen += 1
            if seen > len(nodes):
                return None
        return p
    links = {}
    for p, n in nodes.items():
        if n["t"] == "h":
            links[p] = resolve(p)
    nlink = {}
    for p, n in nodes.items():
        if n["t"] == "d":
            nlink[p] = 2 + sum(1 for q in nodes if q != b"" and (q.rsplit(b"/", 1)[0] if b"/" in q else b"") == p)
        elif n["t"] != "h":
            nlink[p] = 1 + sum(1 for q, tg in links.items() if tg == p)
    return nodes, links, nlink


TKIND = {"d": "dir", "f": "file", "l": "slink", "b": "bdev", "c": "cdev", "p": "fifo", "s": "sock"}


def tree_failures(meta, ans):
    if meta.get("specs") is None:
        return [] if ans.startswith(meta["expect"]) else ["unrepresentable tree not refused (%s)" % ans[:60]]
    t = ans.split()
    if t[0] != "ret" or t[1] != "0":
        return ["tree refused: " + ans[:80]]
    bad = []
    ids = list(map(int, [x for x in t if x.startswith("ids=")][0][4:].split(",")))
    n_inodes = int(t[2][2:])
    w = t.index("walk")
    if t[-2:] != ["end", "0"]:
        return ["walk failed: " + " ".join(t[-2:])]
    root, _ = parse_walk(t, w + 1)
    nodes, links, nlink = tree_expectation(meta["specs"])
    seen_inum = {}
    visited = set()

    def check(path, node, parent_inum):
        name, desc, kids = node
        v = inode_view(desc, ids)
        tgt = links.get(path, path)
        if tgt is None or tgt not in nodes:
            bad.append("unexpected link target"); return
        exp = nodes[tgt]
        visited.add(path)
        want_mode = S_IF[TKIND[exp["t"]]] | exp["perm"]
        if v["kind"] != TKIND[exp["t"]] or v["mode"] != want_mode:
            bad.append("type/mode of %r" % path)
        if v["uid"] != exp["uid"] or v["gid"] != exp["gid"]:
            bad.append("owner of %r" % path)
        if v["mtime"] != exp["mtime"]:
            bad.append("mtime of %r" % path)
        if v["nlink"] != nlink[tgt]:
            bad.append("link count of %r: %s, wanted %s" % (path, v["nlink"], nlink[tgt]))
        if v["xattr"] != exp["xattr"]:
            bad.append("xattr index of %r" % path)
        if not (1 <= v["inum"] <= n_inodes):
            bad.append("inode number out of range")
        if seen_inum.setdefault(v["inum"], tgt) != tgt:
            bad.append("inode number %d used for two nodes" % v["inum"])
        if exp["t"] == "l" and v.get("payload") != ("l", exp["extra"]):
            bad.append("symlink target of %r" % path)
        if exp["t"] in "bc" and v.get("payload") != ("d", int(exp["extra"])):
            bad.append("device number of %r" % path)
        if exp["t"] == "f":
            e = exp["extra"].split(":")
            words = e[-1].replace(";", ",")
            want = ("f", int(e[1]), int(e[4]), 0, int(e[2]), int(e[3]), words) if e[0] == "b" else \
                   ("f", int(e[1]), int(e[2]), int(e[3]), int(e[4]), int(e[5]), words)
            if v.get("payload") != want:
                bad.append("file layout of %r" % path)
        if exp["t"] == "d":
            if v["parent"] != parent_inum:
                bad.append("parent of %r" % path)
            want_names = sorted(q.rsplit(b"/", 1)[-1] for q in nodes if q != b"" and (q.rsplit(b"/", 1)[0] if b"/" in q else b"") == tgt)
            got_names = [unhx(k[0]) for k in kids]
            if got_names != want_names:
                bad.append("entries of %r" % path)
            else:
                for k in kids:
                    check((path + b"/" if path else b"") + unhx(k[0]), k, v["inum"])
        elif kids:
            bad.append("non-directory with entries")
    check(b"", root, 0)
    if visited != set(nodes):
        bad.append("paths missing from the walk")
    if len(set(seen_inum)) != n_inodes:
        bad.append("inode count %d, %d distinct inodes reachable" % (n_inodes, len(set(seen_inum))))
    return bad[:6]


def meta_line_args(meta):
    return meta["_line"].split()[1:]


def nontrivial_key(meta, ans):
    """coarse behaviour class of an evaluation (for the measured `distinct_nontrivial`)"""
    op = meta.get("op")
    if meta.get("corpus"):
        return ("corpus", op, ans[:24])
    if op == "inode":
        return ("inode", ans.split()[5] if len(ans.split()) > 5 else ans[:12], meta.get("rt"), len(ans) // 64)
    if op in ("mkext", "mkbasic", "setx"):
        return (op, ans.split()[0], meta["desc"][0])
    if op in ("setsz", "setst"):
        return (op, ans.split()[0], meta["desc"][0], meta["v"] > 0xFFFFFFFF, meta["v"] < 0xFFFFFFFF)
    if op == "treeids":
        return (op, ans.split()[1] if len(ans.split()) > 1 else ans[:10], meta.get("n0"))
    if op == "dirl":
        t = ans.split()
        size = int(t[2].split("=")[1]) if len(t) > 2 and t[2].startswith("size=") else -1
        kind = t[t.index("ino") + 1] if "ino" in t else "-"
        return ("dirl", meta.get("what"), kind, size // 8192, len(meta["ents"]) // 128)
    if op == "meta":
        return ("meta", ans.split()[0][:12], sum(map(len, meta["chunks"])) // 4096)
    if op == "xattr":
        return ("xattr", meta.get("what"), ans.count("0001") > 0, len(meta["sets"]))
    if op == "tree":
        n = len(meta["specs"]) if meta.get("specs") else 0
        return ("tree", ans.split()[1] if len(ans.split()) > 1 else ans[:10], n // 8, " xdir " in ans, " xfile " in ans, len(ans) // 20000)
    return (op, meta.get("n"), len(ans) // 256)


# ------------------------------------------------------------------------------------------------ entry point
def load_corpus():
    ops = []
    d = vlib.CORPUS / "C01"
    if d.exists():
        for p in sorted(d.glob("units*.ops")):
            for l in p.read_text().splitlines():
                l = l.strip()
                if l and not l.startswith("#"):
                    ops.append((l, {"op": l.split()[0], "corpus": p.name}))
    return ops


def model_lines(ops):
    """lines sent to the model: `mkext` also as `mkextfix`, `xattr`/`xsets` also with the repaired location stores"""
    lines, back = [], []
    for i, (l, meta) in enumerate(ops):
        lines.append(l); back.append((i, "cur"))
        op = l.split()[0]
        if op == "mkext":
            lines.append("mkextfix" + l[5:]); back.append((i, "fix"))
        elif op == "xattr" or (op == "xsets" and (len(l.split()) < 3 or not l.split()[2].isdigit() or int(l.split()[2]) % 512 == 0)):
            t = l.split()                                  # (the two models differ only at multiples of 512 sets)
            t[1] = "1"
            lines.append(" ".join(t)); back.append((i, "fix"))
        elif op == "tree" and not meta.get("corpus"):
            lines.append("treechk" + l[4:]); back.append((i, "chk"))       # hypotheses + conclusion of parse_serialize
    return lines, back


def run_units(ctx, stats):
    """build the harness from the working tree, run corpus + generated ops through real code and model, report
    through ctx.violation; returns (evaluations, nontrivial, disagreements)"""
    t0 = time.time()
    lib = ctx.build_lib("san")
    exe = ctx.cc("h_c01u", ["h_c01u.c"], libs=[str(lib)] + vlib.CODEC_LIBS)
    ops = load_corpus()
    ncorpus = len(ops)
    ops += generate(ctx.rng, ctx.quick())
    lines = [l for l, _ in ops]
    real = run_real(ctx, exe, lines, timeout=900 if ctx.quick() else 3000)
    mlines, back = model_lines(ops)
    mout = ctx.driver(["c01", "units"], "\n".join(mlines) + "\n", timeout=3000)
    if len(mout) != len(mlines) or len(real) != len(lines):
        ctx.violation("unit:protocol", "C01 units: answer count differs from op count (real %d/%d, model %d/%d)"
                      % (len(real), len(lines), len(mout), len(mlines)), {"ops": len(lines)}, found_input=False)
        return 0, 0, 1
    cur, fix, chk = {}, {}, {}
    for (i, which), a in zip(back, mout):
        (cur if which == "cur" else fix if which == "fix" else chk)[i] = a
    classes, hist, disagreements, defects = set(), {}, 0, {}
    hyp = {"met": 0, "skipped": 0}
    for i, ((line, meta), ans) in enumerate(zip(ops, real)):
        op = meta.get("op")
        hist[op] = hist.get(op, 0) + 1
        classes.add(nontrivial_key(meta, ans))
        failures = spec_failures(meta, ans)
        expected = cur[i]
        # the two repairs (D32, D9): `fix` is the model of the repaired code, `cur` of the code before the repair.  A tree
        # that answers like the repaired model is compared with that model — and the monitor below looks at it like at
        # every other answer.
        if op in ("mkext", "xattr", "xsets") and i in fix and ans == fix[i]:
            expected = fix[i]
        agree = ans == expected
        replay = {"kind": "unit", "op": line if len(line) < 20000 else line[:20000] + "...", "real": ans[:4000],
                  "model": expected[:4000], "harness": "harness/h_c01u.c", "spec_failures": failures}
        # --- the hypotheses of `Sqfs.C01.parse_serialize`, and its conclusion, evaluated by the model for this tree
        if i in chk and ans.startswith("ret 0 "):
            c = chk[i]
            if c == "rep=true order=true norm=same":
                hyp["met"] += 1
            else:
                disagreements += 1
                ctx.violation("unit:treechk:%s" % vlib.sha(line)[:10],
                              "C01 unit `tree`: the tree serializes but the model finds a hypothesis of parse_serialize unmet or "
                              "its conclusion false: %s" % c, dict(replay, treechk=c), found_input=False)
        elif i in chk:
            hyp["skipped"] += 1
        # --- the two known shapes of "model of the repaired code ≠ code as it is"
        if op == "mkext" and i in fix and cur[i] != fix[i] and ans != fix[i]:
            if ans == cur[i]:
                defects[KEY_D32] = defects.get(KEY_D32, 0) + 1
                ctx.violation(KEY_D32, "sqfs_inode_make_extended on a FIFO/SOCKET inode leaves ipc_ext.xattr_idx stale "
                              "(stores 0xFFFFFFFF into dev_ext.xattr_idx): `%s` -> `%s`, wanted `%s`" % (line, ans, fix[i]),
                              replay)
                continue
        if op in ("xattr", "xsets") and i in fix and cur[i] != fix[i] and ans != fix[i]:
            if ans.startswith("crash asan") and "oob=0" not in cur[i]:
                defects[KEY_D9] = defects.get(KEY_D9, 0) + 1
                ctx.violation(KEY_D9, "xattr writer write_id_table stores locations[count] (heap overflow) when the number "
                              "of distinct xattr sets is a multiple of 512: `%s` -> %s" % (line[:80], ans[:200]), replay)
                continue
        if agree and not failures:
            continue
        disagreements += 1
        key = "unit:%s:%s" % (op, vlib.sha(line)[:10])
        if failures:
            ctx.violation(key, "C01 unit `%s`: the real code does not read back what it wrote: %s (model %s)"
                          % (op, "; ".join(failures)[:300], "agrees" if agree else "differs"), replay)
        else:
            ctx.violation(key, "C01 unit `%s`: model and real code differ (read-back itself still holds): real `%s` model `%s`"
                          % (op, ans[:160], expected[:160]), replay, found_input=False)
    stats.update({"unit_ops": len(ops), "unit_corpus_ops": ncorpus, "unit_ops_by_kind": hist,
                  "unit_distinct_classes": len(classes), "unit_disagreements": disagreements,
                  "unit_known_defects_seen": defects, "unit_parse_serialize_hypotheses": hyp, "unit_wall_s": round(time.time() - t0, 1),
                  "unit_rule": "one evaluation = one op line run through the real library and the model; classes = "
                               "(op, outcome kind, size bucket) tuples actually observed",
                  "unit_samples": [l[:160] for l, _ in ops[ncorpus:ncorpus + 5]]})
    return len(ops), len(classes), disagreements


def replay_unit(ctx, rep):
    """re-run one recorded unit op against the current tree; True if real and model still differ or the spec fails"""
    lib = ctx.build_lib("san")
    exe = ctx.cc("h_c01u", ["h_c01u.c"], libs=[str(lib)] + vlib.CODEC_LIBS)
    line = rep["op"]
    real = run_real(ctx, exe, [line], timeout=600)
    mlines, _ = model_lines([(line, {})])
    mout = ctx.driver(["c01", "units"], "\n".join(mlines) + "\n")
    print("op    :", line[:300])
    print("real  :", real[0][:600])
    for m in mout:
        print("model :", m[:600])
    return real[0] not in mout
