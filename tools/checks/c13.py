"""
C13 — fail-stop.  Proof: Sqfs/Props/C13.lean about Sqfs/Model/FailStop.lean (the packers' main skeleton with
fallible steps) and Sqfs/Model/FailStopBlockProc.lean (block processor with fallible primitives).
Tie: single-fault enumeration on the real tools built from the working tree (ASan+UBSan, project allocations
renamed to counting wrappers, system calls wrapped at link time — harness/shim_fault.c).  For every fault the
outcome class and the progress trace of the real run are compared with the model's prediction for a fault in the
step the backtrace of the fault lies in.
"""
import concurrent.futures, hashlib, io, json, os, re, shutil, subprocess, tarfile, time
from pathlib import Path
import vlib

LEVEL = "proof"
MODULE = "Sqfs.Props.C13"
REQUIRED = ["Sqfs.C13.status_success_only_at_end", "Sqfs.C13.cleanup_unlinks_unless_success",
            "Sqfs.C13.exit0_output_eq_fault_free", "Sqfs.C13.first_failure_stops",
            "Sqfs.C13.blockproc_error_propagates"]

ALLOC_DEFS = ["-Dmalloc=vf_malloc", "-Dcalloc=vf_calloc", "-Drealloc=vf_realloc", "-Dstrdup=vf_strdup",
              "-Dstrndup=vf_strndup", "-fno-pie"]
WRAP_SYMS = ["write", "pwrite", "pwrite64", "read", "pread", "pread64", "ftruncate", "ftruncate64", "lseek", "lseek64",
             "fsync", "close", "open", "open64", "openat", "openat64"]
SYS_CLASSES = ["write", "read", "trunc", "open", "lseek", "fsync", "close"]
ALLOC_CLASSES = ["malloc", "calloc", "realloc", "strdup"]
KINDS = ["ENOSPC", "EIO", "EINTR"]
TOOLS = ["gensquashfs", "tar2sqfs", "sqfs2tar", "rdsquashfs"]
TIMEOUT = 90            # a run needs ~50 ms on an idle machine; see rerun_if_timeout
TIMEOUT_ISOLATED = 600


# ------------------------------------------------------------------------------------------------ build
def build_tools(ctx):
    shim = ctx.scratch / "shim_fault.o"
    cmd = ["gcc", "-O1", "-g", "-c", "-DVF_WRAP", "-fno-pie", "-fno-omit-frame-pointer", str(vlib.HARNESS / "shim_fault.c"), "-o", str(shim)]
    r = vlib.sh(cmd)
    if r.returncode != 0:
        raise vlib.CheckFailure("shim_fault.c does not compile: " + r.stderr[-2000:])
    ld = ["-no-pie", "-Wl," + ",".join("--wrap=" + s for s in WRAP_SYMS)]
    return {t: ctx.build_tool(t, tag="fault", flags=ALLOC_DEFS, extra_objs=[str(shim)], ldflags=ld) for t in TOOLS}


# ------------------------------------------------------------------------------------------------ inputs
def det_bytes(seed, n):
    out, h = bytearray(), hashlib.sha256(seed.encode()).digest()
    while len(out) < n:
        out += h
        h = hashlib.sha256(h).digest()
    return bytes(out[:n])


BS = 4096


def file_set(rng, scale=1):
    """(name, bytes) list: a fragment-only file, a duplicate pair of multi-block files, an all-zero tail, sparse
    blocks, a file that is an exact multiple of the block size, an empty file"""
    big = det_bytes("big%d" % rng.randint(0, 9), BS * 2 * scale + 100)
    return [
        ("a.txt", b"hello fail-stop\n" * 3),
        ("big1.bin", big),
        ("dir1/big2.bin", big),                                  # duplicate of big1 (block dedup + fragment dedup)
        ("dir1/frag.txt", b"hello fail-stop\n" * 3),             # duplicate fragment of a.txt
        ("zero_small", b"\0" * 100),                             # sparse tail: backend.c process_completed_fragment
        ("zero_big", b"\0" * (BS * 2 + 17)),                     # sparse blocks + sparse tail (index 2)
        ("exact.bin", det_bytes("exact", BS * scale)),           # no tail → sentinel path
        ("dir2/empty", b""),
        ("dir2/incompr.bin", det_bytes("inc", BS + 1234)),
    ]


def make_tree(d, files):
    d.mkdir(parents=True, exist_ok=True)
    for name, data in files:
        p = d / name
        p.parent.mkdir(parents=True, exist_ok=True)
        p.write_bytes(data)
    os.link(d / "a.txt", d / "dir2" / "hl_a")                     # hard link
    os.symlink("../a.txt", d / "dir1" / "sl")
    for p in sorted(d.rglob("*")):
        os.utime(p, (1000000000, 1000000000), follow_symlinks=False)


def make_packfile(d, files, many=0):
    """pack file + xattr file + sort file for gensquashfs -F"""
    lines, dirs = [], set()
    for name, _ in files:
        parts = name.split("/")[:-1]
        for i in range(len(parts)):
            dirs.add("/".join(parts[:i + 1]))
    for x in sorted(dirs):
        lines.append("dir %s 0755 1000 100" % x)
    for name, _ in files:
        lines.append("file %s 0644 1000 100 %s" % (name, name))
    lines.append("slink dir1/sl 0777 0 0 ../a.txt")
    lines.append("link dir2/hl_a 0 0 0 a.txt")
    lines.append("nod dir2/console 0600 0 5 c 5 1")
    lines.append("pipe dir2/fifo 0600 7 7")
    for i in range(many):
        lines.append("dir m%04d 0755 0 0" % i)
    (d / "pack.txt").write_text("\n".join(lines) + "\n")
    (d / "xattr.txt").write_text("# file: a.txt\nuser.k1=\"v1\"\nuser.k2=0xCAFE\n\n# file: dir1\nuser.k1=\"v1\"\n\n# file: big1.bin\nuser.k1=\"v1\"\nuser.k2=0xCAFE\n")
    (d / "sort.txt").write_text("-10 dir2/incompr.bin\n5 [dont_compress,dont_fragment] exact.bin\n")


def make_tar(path, files):
    with tarfile.open(path, "w", format=tarfile.PAX_FORMAT) as tf:
        seen = set()
        for name, data in files:
            parts = name.split("/")[:-1]
            for i in range(len(parts)):
                dn = "/".join(parts[:i + 1])
                if dn not in seen:
                    seen.add(dn)
                    ti = tarfile.TarInfo(dn)
                    ti.type, ti.mode, ti.mtime = tarfile.DIRTYPE, 0o755, 1000000000
                    tf.addfile(ti)
            ti = tarfile.TarInfo(name)
            ti.size, ti.mode, ti.mtime, ti.uid, ti.gid = len(data), 0o644, 1000000000, 1000, 100
            if name in ("a.txt", "big1.bin"):
                ti.pax_headers = {"SCHILY.xattr.user.k1": "v1"}
            tf.addfile(ti, io.BytesIO(data))
        ti = tarfile.TarInfo("dir1/sl")
        ti.type, ti.linkname, ti.mtime = tarfile.SYMTYPE, "../a.txt", 1000000000
        tf.addfile(ti)
        ti = tarfile.TarInfo("dir2/hl_a")
        ti.type, ti.linkname, ti.mtime = tarfile.LNKTYPE, "a.txt", 1000000000
        tf.addfile(ti)


class Case:
    """one tool invocation whose faults are enumerated"""

    def __init__(self, name, tool, argv, out_kind, out_path, stdin=None, cwd=None, model=None):
        self.name, self.tool, self.argv, self.out_kind, self.out_path = name, tool, argv, out_kind, out_path
        self.stdin, self.cwd, self.model = stdin, cwd, model or {}
        # out_kind: 'file' (packer image), 'stdout' (sqfs2tar / rdsquashfs -c), 'tree' (rdsquashfs -u)


def tree_digest(root):
    """sha256 over the unpacked tree (names, types, sizes, bytes, symlink targets)"""
    h = hashlib.sha256()
    root = Path(root)
    if not root.exists():
        return "absent"
    for p in sorted(root.rglob("*")):
        rel = p.relative_to(root).as_posix()
        st = p.lstat()
        if p.is_symlink():
            h.update(("L %s %s\n" % (rel, os.readlink(p))).encode())
        elif p.is_dir():
            h.update(("D %s\n" % rel).encode())
        elif p.is_file():
            h.update(("F %s %d " % (rel, st.st_size)).encode())
            h.update(hashlib.sha256(p.read_bytes()).digest())
        else:
            h.update(("O %s %o\n" % (rel, st.st_mode)).encode())
    return h.hexdigest()


def run_case(case, exe, workdir, fault=None, timeout=TIMEOUT, env_base=None, trace=False):
    """run once; returns dict(rc, signal, timeout, stdout_sha/bytes, stderr, out_state, report)"""
    workdir = Path(workdir)
    if workdir.exists():
        shutil.rmtree(workdir)
    workdir.mkdir(parents=True)
    out = workdir / "out"
    argv = [a.replace("@OUT@", str(out)) for a in case.argv]
    env = dict(env_base)
    rep = workdir / "report"
    env["VF_REPORT"] = str(rep)
    if trace:
        env["VF_TRACE"] = str(workdir / "trace")
    if case.out_kind in ("file", "tree"):
        env["VF_OUT"] = str(out)
    else:
        env["VF_OUT_FD1"] = "1"
    if fault:
        env.update({"VF_CLASS": fault["cls"], "VF_K": str(fault["k"]), "VF_SIDE": fault.get("side", "any"),
                    "VF_KIND": fault.get("kind", "EIO")})
    stdin = open(case.stdin, "rb") if case.stdin else subprocess.DEVNULL
    res = {"timeout": False}
    try:
        p = subprocess.run([str(exe)] + argv, stdin=stdin, stdout=subprocess.PIPE, stderr=subprocess.PIPE, env=env,
                           cwd=case.cwd, timeout=timeout)
        res["rc"] = p.returncode
        so, se = p.stdout, p.stderr
    except subprocess.TimeoutExpired as e:
        res["rc"], res["timeout"] = 124, True
        so, se = e.stdout or b"", e.stderr or b""
    finally:
        if case.stdin:
            stdin.close()
    res["stderr"] = se.decode("utf-8", "replace")
    if case.out_kind == "stdout":
        res["out"] = hashlib.sha256(so).hexdigest()
        res["stdout"] = ""
    else:
        res["stdout"] = so.decode("utf-8", "replace")
        if case.out_kind == "file":
            res["out"] = hashlib.sha256(out.read_bytes()).hexdigest() if out.exists() else "absent"
        else:
            res["out"] = tree_digest(out)
    report = {"count": {}, "fired": False, "bt": [], "exit": 0}
    if rep.exists():
        for l in rep.read_text().splitlines():
            w = l.split()
            if w[0] == "count":
                report["count"][(w[1], w[2])] = int(w[3])
            elif w[0] == "fired":
                report["fired"] = w[1] == "1"
                report["fn"] = w[3] if len(w) > 3 else ""
            elif w[0] == "bt":
                report["bt"] = w[1:]
            elif w[0] == "post":
                report["post"] = int(w[1])
            elif w[0] == "exit":
                report["exit"] = int(w[1])
    res["report"] = report
    if trace:
        tr = {}
        tp = workdir / "trace"
        if tp.exists():
            for l in tp.read_text().splitlines():
                c, sd, k, h = l.split()
                tr.setdefault((c, sd, h), []).append(int(k))
        res["trace"] = tr
    shutil.rmtree(workdir, ignore_errors=True)
    return res


_A2L = {}


def resolve_bt(exe, addrs):
    """[(function, file:line)] innermost first, inlined frames expanded; cached per address"""
    need = [a for a in addrs if (str(exe), a) not in _A2L]
    if need:
        # return addresses: subtract 1 so that the call instruction's line is reported
        q = ["0x%x" % (int(a, 16) - 1) for a in need]
        r = vlib.sh(["addr2line", "-f", "-i", "-a", "-e", str(exe)] + q)
        cur, frames = None, {}
        lines = r.stdout.splitlines()
        i = 0
        while i < len(lines):
            if lines[i].startswith("0x"):
                cur = lines[i]
                frames[cur] = []
                i += 1
                continue
            fn, loc = lines[i], lines[i + 1] if i + 1 < len(lines) else "?"
            loc = re.sub(r" \(discriminator \d+\)", "", loc)
            frames[cur].append((fn, "/".join(loc.split("/")[-2:])))
            i += 2
        for a, qa in zip(need, q):
            key = "0x%016x" % int(qa, 16)
            _A2L[(str(exe), a)] = frames.get(key, [("?", "?")])
    out = []
    for a in addrs:
        out.extend(_A2L[(str(exe), a)])
    return out


# ------------------------------------------------------------------------------------------------ cases
def regular_count(files):
    return len(files)


def tar_entry_count(files):
    dirs = set()
    for name, _ in files:
        parts = name.split("/")[:-1]
        for i in range(len(parts)):
            dirs.add("/".join(parts[:i + 1]))
    return len(dirs) + len(files) + 2


def gen_cases(ctx, d, rng, tools, scale=1, jobs="1"):
    """inputs under d; returns list of Case.  Model configuration: (tool, flags, nfiles, sparseTails)."""
    d = Path(d)
    files = file_set(rng, scale)
    T = d / "tree"
    make_tree(T, files)
    make_packfile(T, files)
    make_tar(d / "in.tar", files)
    nreg = regular_count(files)
    sparse = sum(1 for _, b in files if b and (len(b) % BS) and not any(b[len(b) - (len(b) % BS):]))
    common = ["-b", str(BS), "-j", jobs]
    cases = [
        Case("gen-F", "gensquashfs", ["-F", str(T / "pack.txt"), "-D", str(T), "-A", str(T / "xattr.txt"), "-S", str(T / "sort.txt")]
             + common + ["-e", "@OUT@"], "file", None, model=("gen", "xopde", nreg, sparse)),
        Case("gen-D", "gensquashfs", ["-D", str(T)] + common + ["@OUT@"], "file", None, model=("gen", "d", nreg, sparse)),
        Case("t2s", "tar2sqfs", common + ["-e", "@OUT@"], "file", None, stdin=str(d / "in.tar"),
             model=("t2s", "e", tar_entry_count(files), sparse)),
    ]
    # 512 directories + root = 513 inodes: the root's export-table slot is the first one beyond the initial
    # capacity of 512 entries, so add_export_table_entry has to grow the table inside write_export_table
    M = d / "many"
    M.mkdir()
    (M / "pack.txt").write_text("".join("dir m%04d 0755 0 0\n" % i for i in range(512)))
    cases.append(Case("gen-many", "gensquashfs", ["-F", str(M / "pack.txt"), "-j", jobs, "-e", "-q", "@OUT@"], "file", None,
                      model=("gen", "peq", 0, 0)))
    # an image for the readers, made by the (fault-free) packer built from the same tree
    img = d / "img.sqfs"
    r = vlib.sh([str(tools["gensquashfs"]), "-F", str(T / "pack.txt"), "-D", str(T), "-A", str(T / "xattr.txt"), "-b", str(BS), "-j", "1",
                 "-e", "-q", str(img)], env=ctx.san_env(), timeout=TIMEOUT_ISOLATED, stdout=subprocess.DEVNULL)
    if r.returncode != 0:
        raise vlib.CheckFailure("cannot build the reader image: " + r.stderr[-1000:])
    cases += [
        Case("s2t", "sqfs2tar", [str(img)], "stdout", None),
        Case("s2t-gz", "sqfs2tar", ["-c", "gzip", str(img)], "stdout", None),
        Case("rd-u", "rdsquashfs", ["-u", "/", "-p", "@OUT@", str(img)], "tree", None),
        Case("rd-c", "rdsquashfs", ["-c", "big1.bin", str(img)], "stdout", None),
        Case("rd-x", "rdsquashfs", ["-x", "a.txt", str(img)], "stdout", None),
        Case("rd-d", "rdsquashfs", ["-d", str(img)], "stdout", None),
    ]
    return cases


# ------------------------------------------------------------------------------------------------ boundary inputs
def growth_constants():
    """flush / growth thresholds read from the working tree's sources (never hard-coded): an input just beyond each
    of them makes the corresponding flush-in-the-middle or grow-the-array path run, with few calls of its class"""
    def grab(rel, pat, default):
        try:
            m = re.search(pat, (vlib.REPO / rel).read_text(errors="replace"))
            return int(m.group(1)) if m else default
        except OSError:
            return default
    return {
        "meta_block": grab("include/sqfs/block.h", r"#define\s+SQFS_META_BLOCK_SIZE\s+\(?(\d+)", 8192),       # meta writer flush
        "array_first": grab("lib/util/src/array.c", r"new_count\s*=\s*(\d+)", 128),                         # array_append / set_capacity from empty
        "blkwr_init": grab("lib/sqfs/src/block_writer.c", r"#define\s+INIT_BLOCK_COUNT\s+\(?(\d+)", 128),      # block writer's block list
        "export_init": grab("lib/sqfs/src/dir_writer.c", r"array_init\(&writer->export_tbl,[^;]*?,\s*(\d+)\)", 512),
        "xattr_pairs": grab("lib/sqfs/src/xattr/xattr_writer.h", r"#define\s+XATTR_INITIAL_PAIR_CAP\s+\(?(\d+)", 128),
        "inode_blocks_first": grab("lib/sqfs/src/block_processor/backend.c", r"sizeof\(sqfs_u32\)\s*\*\s*(\d+)", 4),  # set_block_size, then doubling
    }


def boundary_cases(ctx, d, thorough):
    """gensquashfs inputs sized just beyond the thresholds of growth_constants()"""
    G = growth_constants()
    d = Path(d)
    cases = []
    # --- metadata: directory table and inode table of several meta blocks, id table / xattr pair array / value string
    #     table / export table grown beyond their first capacity
    M = d / "bmeta"
    M.mkdir(parents=True)
    name_len = 40
    ndirs = max(G["export_init"] + 8,                         # export table: one slot per inode
                (3 * G["meta_block"]) // (8 + name_len) + 8,  # ≥ 3 directory meta blocks: a non-first, non-last one exists
                (2 * G["meta_block"]) // 32 + 8)              # ≥ 2 inode meta blocks (a basic directory inode is 32 bytes)
    nids = G["array_first"] + 3
    nx = max(G["xattr_pairs"], G["array_first"]) + 3
    lines, xl = [], []
    for i in range(ndirs):
        nm = ("directory_with_a_rather_long_name_%04d" % i).ljust(name_len, "x")
        lines.append("dir %s 0755 %d %d" % (nm, 1000 + (i % nids), 5))
        if i < nx:
            xl.append("# file: %s\nuser.k=\"value-%04d\"\n" % (nm, i))
    (M / "pack.txt").write_text("\n".join(lines) + "\n")
    (M / "xattr.txt").write_text("\n".join(xl))
    cases.append(Case("b-meta", "gensquashfs", ["-F", str(M / "pack.txt"), "-A", str(M / "xattr.txt"), "-c", "gzip", "-j", "1", "-e", "-q", "@OUT@"],
                      "file", None, model=("gen", "pxeq", 0, 0)))
    cases[-1].boundary = True
    # --- data: more blocks than the block writer's initial list (twice: second doubling inside the duplicate), a
    #     multi-block duplicate that is truncated away again, a block list per inode grown up to index ≥ blkwr_init,
    #     a duplicate tail, more than one fragment block
    Dd = d / "bdata"
    Dd.mkdir()
    nblk = G["blkwr_init"] + 2
    big = det_bytes("bdata", nblk * BS + 700)
    (Dd / "a.bin").write_bytes(big)
    (Dd / "b.bin").write_bytes(big)
    for i in range(6):
        (Dd / ("t%d" % i)).write_bytes(det_bytes("tail%d" % i, 1000))
    for p in sorted(Dd.rglob("*")):
        os.utime(p, (1000000000, 1000000000))
    cases.append(Case("b-data", "gensquashfs", ["-D", str(Dd), "-b", str(BS), "-c", "gzip", "-j", "1", "-q", "@OUT@"], "file", None,
                      model=("gen", "dq", 8, 0)))
    cases[-1].boundary = True
    if thorough:
        # more fragment blocks than the fragment table's first capacity (two 2100-byte unique tails per 4 KiB block)
        F = d / "bfrag"
        F.mkdir()
        nf = 2 * (G["array_first"] + 2)
        for i in range(nf):
            (F / ("f%04d" % i)).write_bytes(det_bytes("frag%d" % i, 2100))
        for p in sorted(F.rglob("*")):
            os.utime(p, (1000000000, 1000000000))
        cases.append(Case("b-frag", "gensquashfs", ["-D", str(F), "-b", str(BS), "-c", "gzip", "-j", "1", "-q", "@OUT@"], "file", None,
                          model=("gen", "dq", nf, 0)))
        cases[-1].boundary = True
    return cases, G


def plan_stratified(ctx, base, thorough):
    """boundary cases: every write-like call on the output (EIO), every truncate / read-back on the output; the
    allocation classes stratified by call site (hash of the six innermost return addresses, from the counting run's
    trace): every position of a site with few calls, first / last / spread sample of the mass sites"""
    lim = {"realloc": 64 if thorough else 12, "malloc": 16 if thorough else 3, "calloc": 16 if thorough else 3, "strdup": 8 if thorough else 2,
           "write": 10 ** 9, "trunc": 10 ** 9, "read": 64 if thorough else 12, "lseek": 8, "fsync": 8, "close": 4, "open": 8 if thorough else 3}
    jobs = []
    for (cls, side, h), ks in sorted(base["trace"].items()):
        if cls in SYS_CLASSES and side != "out" and cls != "open":
            continue                                   # input-side syscalls are covered by the small cases
        L = lim.get(cls, 3)
        ks = sorted(ks)
        if len(ks) > L:
            pick = {ks[0], ks[-1]}
            rest = [k for k in ks if k not in pick]
            step = max(1, len(rest) // max(1, L - 2))
            pick |= set(rest[ctx.rng.randrange(step)::step][:max(0, L - 2)])
            ks = sorted(pick)
        for k in ks:
            if cls in SYS_CLASSES:
                jobs.append({"cls": cls, "k": k, "side": side, "kind": "ENOSPC" if cls == "write" else "EIO"})
                if thorough and cls == "write" and k % 3 == 0:
                    jobs.append({"cls": cls, "k": k, "side": side, "kind": "EINTR"})
            else:
                jobs.append({"cls": cls, "k": k})
    return jobs


# ------------------------------------------------------------------------------------------------ fault → model site
FIN_MSGS = [("Waiting for remaining data blocks...", "waiting"), ("Writing inodes and directories...", "inodes"),
            ("Writing fragment table...", "fragtbl"), ("Writing export table...", "exporttbl"),
            ("Writing ID table...", "idtbl"), ("Writing extended attributes...", "xattrs")]
INIT_CALLEES = {"compressor_cfg_init_options": "compCfg", "sqfs_file_open": "openOut", "parse_fstree_defaults": "fsDefaults",
                "fstree_init": "fstreeInit", "sqfs_compressor_create": "cmpCreate", "sqfs_super_init": "superInit",
                "sqfs_super_write": "superWrite", "sqfs_generic_write_options": "cmpOptions", "sqfs_block_writer_create": "blkwrCreate",
                "sqfs_frag_table_create": "fragtblCreate", "sqfs_block_processor_create_ex": "procCreate",
                "sqfs_id_table_create": "idtblCreate", "sqfs_xattr_writer_create": "xwrCreate", "sqfs_meta_writer_create": "imCreate",
                "sqfs_dir_writer_create": "dirwrCreate"}
FINISH_CALLEES = {"sqfs_block_processor_finish": "procFinish", "sqfs_serialize_fstree": "serialize", "sqfs_frag_table_write": "fragTable",
                  "sqfs_dir_writer_write_export_table": "exportWrite", "sqfs_id_table_write": "idTable",
                  "sqfs_xattr_writer_flush": "xattrFlush", "sqfs_super_write": "superRewrite", "padd_sqfs": "pad"}
GEN_MAIN_CALLEES = {"selinux_open_context_file": "selinuxOpen", "xattr_open_map_file": "xattrMapOpen", "sqfs_istream_open_file": "sortfileOpen",
                    "dir_tree_iterator_create": "dirIterCreate", "scan_directory": "scanDir", "fstree_from_file": "fstreeFromFile",
                    "fstree_post_process": "postProcess", "apply_xattrs": "applyXattrs", "fstree_sort_files": "sortFiles"}
T2S_MAIN_CALLEES = {"istream_open_stdin": "openStdin", "tar_open_stream": "tarOpen", "fstree_post_process": "postProcess"}
SHIM_FN = re.compile(r"^(vf_|__wrap_|__interceptor|backtrace|__sanitizer)")


def project_frames(frames):
    return [(fn, loc) for fn, loc in frames if fn != "??" and not SHIM_FN.match(fn) and "shim_fault" not in loc]


def locate(case, frames, stdout):
    """(model site or None, step function used in finding keys)"""
    fr = project_frames(frames)
    fns = [f for f, _ in fr]

    def callee(of):
        i = fns.index(of)
        return fns[i - 1] if i > 0 else of

    def inner_match(table, upto):
        # innermost-first scan of the frames below `upto` for a function of the table
        i = fns.index(upto)
        for f in reversed(fns[:i]):
            if f in table:
                return table[f]
        return None
    if not fns:
        return None, "?"
    if case.tool not in ("gensquashfs", "tar2sqfs"):
        return None, (callee("main") if "main" in fns else fns[0])
    if "sqfs_writer_cfg_init" in fns or "process_command_line" in fns or "process_args" in fns:
        return None, callee("sqfs_writer_cfg_init") if "sqfs_writer_cfg_init" in fns else fns[0]
    npack = len([l for l in stdout.splitlines() if l.startswith("packing ") or l.startswith("Packing ") or l.startswith("Hard link ")])
    nmodel = case.model[2]
    if "sqfs_writer_init" in fns:
        if "sqfs_file_open_handle" in fns:
            return "openHandle", "sqfs_writer_init"
        return inner_match(INIT_CALLEES, "sqfs_writer_init") or ("cmpOptions" if any(f.endswith("_write_options") for f in fns) else None), "sqfs_writer_init"
    if "sqfs_writer_finish" in fns:
        if "set_block_size" in fns and "process_completed_fragment" in fns:
            return "sparseTail:0", "process_completed_fragment"
        if "add_export_table_entry" in fns and "sqfs_dir_writer_write_export_table" in fns:
            return "exportAddRoot", "sqfs_dir_writer_write_export_table"
        return inner_match(FINISH_CALLEES, "sqfs_writer_finish"), callee("sqfs_writer_finish")
    if "sqfs_writer_cleanup" in fns:
        return None, "sqfs_writer_cleanup"
    if "set_block_size" in fns and "process_completed_fragment" in fns:
        return "sparseTail:0", "process_completed_fragment"
    if case.tool == "gensquashfs":
        if "pack_files" in fns or "pack_file" in fns:
            return "packFile:%d" % max(0, min(npack - 1, nmodel - 1)), "pack_files"
        if "main" in fns:
            return inner_match(GEN_MAIN_CALLEES, "main"), callee("main")
    else:
        if "process_tarball" in fns:
            inner = any(f in fns for f in ("create_node_and_repack_data", "set_root_attribs", "write_file", "copy_xattr"))
            i = fns.index("process_tarball")
            rl = i > 0 and fns[i - 1] in ("it_read_link", "read_link")
            idx = max(0, min(npack, nmodel - 1))
            return ("tarEntry:%d" % idx) if (inner or rl) else ("tarNext:%d" % idx), "process_tarball"
        if "main" in fns:
            return inner_match(T2S_MAIN_CALLEES, "main"), callee("main")
    return None, fns[0]


def real_msgs(stdout):
    out = []
    for l in stdout.splitlines():
        for text, tag in FIN_MSGS:
            if l.strip() == text:
                out.append(tag)
    return ",".join(out) if out else "-"


def parse_model(line):
    return dict(kv.split("=", 1) for kv in line.split())


def verdict_py(o):
    """mirror of Sqfs.FailStop.Spec.verdict (cross-checked against the Lean definition on every observation)"""
    if o["crashed"]:
        return "crash"
    if o["exit0"]:
        return "ok" if o["same"] else "exit0-different-output"
    if o["packer"] and o["left"]:
        return "failure-output-left"
    if not o["diag"]:
        return "failure-no-diagnostic"
    return "ok"


def observe(case, base, r):
    packer = case.out_kind == "file"
    crashed = r["timeout"] or r["rc"] < 0 or r["rc"] >= 90
    return {"crashed": crashed, "exit0": r["rc"] == 0, "diag": bool(r["stderr"].strip()), "packer": packer,
            "left": packer and r["out"] != "absent", "same": r["out"] == base["out"]}


def cls_group(cls):
    return "alloc" if cls in ALLOC_CLASSES else cls


# ------------------------------------------------------------------------------------------------ enumeration
def plan_faults(ctx, case, base, exhaustive, sample_n):
    jobs = []
    for cls in SYS_CLASSES:
        for side in ("in", "out"):
            n = base["report"]["count"].get((cls, side), 0)
            for k in range(1, n + 1):
                kinds = KINDS if cls == "write" else ["EIO", "EINTR"]
                for kind in kinds:
                    jobs.append({"cls": cls, "k": k, "side": side, "kind": kind})
    for cls in ALLOC_CLASSES:
        n = base["report"]["count"].get((cls, "in"), 0)
        for k in range(1, n + 1):
            jobs.append({"cls": cls, "k": k})
    if not exhaustive and len(jobs) > sample_n:
        # keep every syscall position with kind EIO, sample the rest
        keep = [j for j in jobs if j.get("kind") == "EIO"]
        rest = [j for j in jobs if j.get("kind") != "EIO"]
        ctx.rng.shuffle(rest)
        jobs = keep + rest[:max(0, sample_n - len(keep))]
    return jobs


# ------------------------------------------------------------------------------------------------ layer 2: block processor API
BP_FIXED_SESSIONS = [
    # (file list) each file: (with inode, dont_fragment, units, class)   class: z zero | u unique | s shared
    [(1, 0, 10, "u"), (1, 0, 3, "z"), (1, 0, 10, "u")],
    [(1, 0, 3, "s"), (1, 0, 3, "s"), (1, 0, 2, "u"), (1, 0, 2, "u"), (1, 0, 1, "u")],       # duplicate fragment, fragment block overflow
    [(1, 0, 9, "z"), (1, 1, 6, "u"), (1, 0, 4, "u"), (1, 0, 0, "u")],                       # sparse blocks + tail, dont_fragment, exact block, empty
    [(1, 0, 9, "s"), (1, 0, 9, "s"), (0, 0, 5, "u")],                                        # duplicate blocks (block writer dedup), no inode
    [(1, 0, 1, "z"), (1, 0, 21, "u"), (1, 0, 2, "z")],                                       # inode growth at index 0 and 4
]


def bp_tokens(files, sync_after=()):
    real, model, seen = [], [], set()
    for idx, (i, d, n, c) in enumerate(files):
        real.append("B%d%d" % (i, d))
        model.append("B%d%d" % (i, d))
        if n > 0:
            tail = n % 4
            dup = c == "s" and tail != 0 and not d and (n, "s") in seen
            if c == "s":
                seen.add((n, "s"))
            real.append("A%d:%s" % (n, c))
            model.append("A%d:%d%d" % (n, 1 if c == "z" else 0, 1 if dup else 0))
        real.append("E")
        model.append("E")
        if idx in sync_after:
            real.append("S")
            model.append("S")
    real.append("F")
    model.append("F")
    return real, model


def bp_kind(fns):
    """primitive kind(s) of Sqfs.FailStop.BP.Prim for a fault whose innermost project frames are fns"""
    if not fns:
        return None
    if "set_block_size" in fns:
        return ["growSparseTail"] if "process_completed_fragment" in fns else ["growSparseBlock", "growDataBlock"]
    if "load_frag_block" in fns or "chunk_info_equals" in fns:
        return ["htInsert"] if any(f.startswith("hash_table_insert") for f in fns) else ["fragLookup"]
    if any(f.startswith("hash_table_insert") or f == "hash_table_rehash" for f in fns):
        return ["htInsert"]
    if "write_data_block" in fns or "deduplicate_blocks" in fns:
        return ["writeBlock"]
    if "sqfs_frag_table_set" in fns:
        return ["fragTableSet"]
    if "sqfs_frag_table_append" in fns:
        return ["fragTableAppend"]
    if fns[0] == "sqfs_block_processor_begin_file":
        return ["inodeAlloc"]
    if fns[0] == "get_new_block":
        return ["allocBlock"]
    if "submit" in fns[:2]:
        return ["submit"]
    if fns[0] == "alloc_flex" and len(fns) > 1 and fns[1] == "enqueue_block":
        return ["allocFragCopy"]
    if fns[0] == "process_completed_fragment":
        return ["allocChunk"]
    return None


def bp_phase(ctx, report, stats, nworkers, env):
    shim = ctx.scratch / "shim_fault.o"
    lib = ctx.build_lib("fault", ALLOC_DEFS)
    ld = ["-no-pie", "-Wl," + ",".join("--wrap=" + x for x in WRAP_SYMS)]
    exe = ctx.cc("h_c13_bp", ["h_c13_bp.c"], flags=["-fno-pie"], libs=[str(shim), str(lib)] + vlib.CODEC_LIBS + ld)
    sessions = list(BP_FIXED_SESSIONS)
    nrand = 3 if ctx.quick() else 12
    for _ in range(nrand):
        k = ctx.rng.randint(2, 6)
        sessions.append([(1 if ctx.rng.random() < 0.9 else 0, 1 if ctx.rng.random() < 0.2 else 0, ctx.rng.choice([0, 1, 2, 3, 4, 5, 7, 8, 9, 13, 17]),
                          ctx.rng.choice("uuzs")) for _ in range(k)])
    bstat = stats.setdefault("blockproc", {"sessions": len(sessions), "runs": 0, "fired_in_call": 0, "kinds": {}, "unreported": 0, "model_compared": 0})
    work = ctx.scratch / "bp"
    work.mkdir()

    def run_bp(tag, line, fault=None):
        e = dict(env)
        rep = work / ("rep_%s" % tag)
        out = work / ("out_%s" % tag)
        e.update({"VF_REPORT": str(rep), "VF_OUT": str(out)})
        if fault:
            e.update({"VF_CLASS": fault["cls"], "VF_K": str(fault["k"]), "VF_SIDE": "any", "VF_KIND": "EIO"})
        try:
            p = subprocess.run([str(exe), str(out)], input=(line + "\n").encode(), stdout=subprocess.PIPE, stderr=subprocess.PIPE, env=e, timeout=TIMEOUT_ISOLATED)
            rc, so, se = p.returncode, p.stdout.decode(), p.stderr.decode("utf-8", "replace")
        except subprocess.TimeoutExpired:
            rc, so, se = 124, "", "timeout"
        counts, bt, fired = {}, [], False
        if rep.exists():
            for l in rep.read_text().splitlines():
                w = l.split()
                if w[0] == "count":
                    counts[w[1]] = counts.get(w[1], 0) + int(w[3])
                elif w[0] == "fired":
                    fired = w[1] == "1"
                elif w[0] == "bt":
                    bt = w[1:]
            rep.unlink()
        if out.exists():
            out.unlink()
        return rc, so.strip(), se, counts, bt, fired
    for si, files in enumerate(sessions):
        sync_after = {1} if si % 2 else set()
        real, model = bp_tokens(files, sync_after)
        line = " ".join(real)
        rc, so, se, counts, _, _ = run_bp("base%d" % si, line)
        mfree = ctx.driver(["c13"], "bpfree fix %s\n" % ",".join(model))[0]
        want = " ".join(x.split("/")[0] for x in mfree.split())
        base_digest = so.split("digest=")[1] if "digest=" in so else "?"
        if rc != 0 or so.split("fired=")[0].split() != want.split():
            report("corr:bp:faultfree:%d" % si, "block processor session %s: real %r (rc %d) vs model %r" % (line, so, rc, mfree),
                   {"session": line, "model": ",".join(model), "stderr": se[-300:]}, found_input=False)
            continue
        jobs = [{"cls": c, "k": k} for c in ALLOC_CLASSES + ["write", "read", "trunc"] for k in range(1, counts.get(c, 0) + 1)]

        def one(i, line=line, si=si, jobs=jobs):
            return jobs[i], run_bp("%d_%d" % (si, i), line, jobs[i])
        with concurrent.futures.ThreadPoolExecutor(nworkers) as ex:
            results = list(ex.map(one, range(len(jobs))))
        queries, pend = [], []
        for f, (rc, so, se, _, bt, fired) in results:
            bstat["runs"] += 1
            replay = {"bp_session": line, "model_session": ",".join(model), "fault": f, "rc": rc, "stdout": so, "stderr": se[-400:]}
            if rc != 0 or "fired=" not in so:
                report("blockproc:%s:crash" % cls_group(f["cls"]), "block processor harness died (rc %d) on %s with fault %s: %s" % (rc, line, f, se[-300:]), replay)
                continue
            rcs = so.split("fired=")[0].split()
            j = int(so.split("fired=")[1].split()[0])
            digest = so.split("digest=")[1] if "digest=" in so else "?"
            if not fired or j < 0:
                continue                      # fired outside the armed region (set-up / tear-down)
            bstat["fired_in_call"] += 1
            pf = [fn for fn, _ in project_frames(resolve_bt(exe, bt))]
            kinds = bp_kind(pf)
            kname = "|".join(kinds) if kinds else "?"
            bstat["kinds"][kname] = bstat["kinds"].get(kname, 0) + 1
            replay["backtrace"] = pf[:8]
            # the theorem's statement, evaluated on the implementation: the call in progress returns an error
            reported = len(rcs) > j and rcs[j] == "err"
            if not reported and "err" not in rcs and digest == base_digest:
                # tolerated: no call failed and the result (file bytes and inodes) is the fault-free one
                # (e.g. hash_table_rehash failing: the insert still succeeds while the table has room)
                bstat["tolerated"] = bstat.get("tolerated", 0) + 1
                continue
            if not reported:
                bstat["unreported"] += 1
                report("blockproc:%s:unreported@%s" % (cls_group(f["cls"]), kname),
                       "sqfs_block_processor call #%d returns 0 although a %s primitive (%s) failed while it ran [%s]" % (j, f["cls"], kname, " <- ".join(pf[:4])), replay)
            if kinds:
                queries.append("bp fix %d %s %s" % (j, kname, ",".join(model)))
                queries.append("bp cur %d %s %s" % (j, kname, ",".join(model)))
                pend.append((f, rcs, j, kname, reported, replay))
            else:
                report("corr:bp:kind:%s" % (pf[0] if pf else "?"), "fault site %s of the block processor has no primitive kind in the model" % pf[:4], replay, found_input=False)
        if queries:
            outl = ctx.driver(["c13"], "\n".join(queries) + "\n")
            for n, (f, rcs, j, kname, reported, replay) in enumerate(pend):
                bstat["model_compared"] += 1
                mfix, mcur = outl[2 * n], outl[2 * n + 1]

                def vec(m):
                    return m.split(" faulted=")[0].split() if " faulted=" in m else None
                if vec(mfix) == rcs[:j + 1]:
                    continue
                if vec(mcur) == rcs[:j + 1]:
                    if reported:
                        report("corr:bp:cur:%s" % kname, "real run matches the pinned model only, but the call reported the error", replay, found_input=False)
                    continue
                report("corr:bp:%s" % kname, "block processor: real results %s (fault in call %d, %s) vs model(fixed) %r, model(pinned) %r" % (rcs, j, kname, mfix, mcur),
                       dict(replay, model_fixed=mfix, model_pinned=mcur), found_input=False)


class Dedup:
    """one VIOLATION / KNOWN-FINDING per key and run; further hits of the same key are counted"""

    def __init__(self, ctx):
        self.ctx, self.count = ctx, {}

    def __call__(self, key, what, replay, found_input=True):
        self.count[key] = self.count.get(key, 0) + 1
        if self.count[key] == 1:
            self.ctx.violation(key, what, replay, found_input)


def run(ctx):
    report = Dedup(ctx)
    ok, problems = vlib.proof_gate(ctx, MODULE, REQUIRED)
    if not ok:
        ctx.violation("proof:C13", "proof obligations of C13 no longer check: " + " | ".join(problems)[:1500],
                      {"broken": problems, "theorems_file": "lean/Sqfs/Props/C13.lean"}, found_input=False)
    tools = build_tools(ctx)
    env = ctx.san_env()
    work = ctx.scratch / "w"
    work.mkdir()
    scale = 1 if ctx.quick() else 4
    cases = gen_cases(ctx, ctx.scratch / "in", random_for(ctx.seed), tools, scale=scale, jobs="1")
    bcases, growth = boundary_cases(ctx, ctx.scratch / "in", not ctx.quick())
    cases += bcases
    nworkers = int(os.environ.get("VERIF_JOBS", "0")) or (4 if ctx.quick() else max(4, vlib.NCPU - 2))
    stats = {"runs": 0, "fired": 0, "verdicts": {}, "by_case": {}, "post_fault_output_writes": {}, "model_compared": 0,
             "model_sites": {}, "tolerated": 0}
    distinct, samples, monitor_lines, monitor_expect = set(), [], [], []
    corr_bad = 0
    for case in cases:
        exe = tools[case.tool]
        boundary = getattr(case, "boundary", False)
        base = run_case(case, exe, work / "base", None, env_base=env, timeout=TIMEOUT_ISOLATED, trace=boundary)
        if base["rc"] != 0 or base["out"] == "absent":
            report("base:" + case.name, "fault-free run of %s fails: rc=%s %s" % (case.name, base["rc"], base["stderr"][-300:]),
                          {"case": case.name, "argv": case.argv}, found_input=False)
            continue
        base2 = run_case(case, exe, work / "base2", None, env_base=env, timeout=TIMEOUT_ISOLATED)
        if base2["out"] != base["out"]:
            report("nondet:" + case.name, "two fault-free runs of %s differ" % case.name, {"case": case.name}, found_input=False)
            continue
        if boundary:
            jobs = plan_stratified(ctx, base, not ctx.quick())
        elif case.name == "gen-many":
            n = base["report"]["count"].get(("realloc", "in"), 0)
            ks = list(range(1, n + 1))
            if ctx.quick() and n > 200:          # the tail (finish phase) completely, the parsing phase sampled
                ks = sorted(set(ctx.rng.sample(range(1, n - 63), 100)) | set(range(n - 63, n + 1)))
            jobs = [{"cls": "realloc", "k": k} for k in ks]
        else:
            jobs = plan_faults(ctx, case, base, exhaustive=True, sample_n=0)
        model_ff = None
        if case.model:
            mt, mf, mn, ms = case.model
            model_ff = parse_model(ctx.driver(["c13"], "run fix %s %s %d %d -\n" % (mt, mf, mn, ms))[0])
            if model_ff["msgs"] != real_msgs(base["stdout"]) or model_ff["status"] != "0":
                report("corr:faultfree:" + case.name, "fault-free progress trace differs: model %s, real %s" % (model_ff["msgs"], real_msgs(base["stdout"])),
                              {"case": case.name, "correspondence": "Sqfs.FailStop.run (fault-free) vs stdout of " + case.tool}, found_input=False)

        def one(i, case=case, exe=exe, jobs=jobs):
            return jobs[i], run_case(case, exe, work / ("%s_%d" % (case.name, i)), jobs[i], env_base=env)

        def rerun_if_timeout(f, r, case=case, exe=exe):
            # a timeout under load is not a hang: repeat the one case alone with a much longer limit
            if not r["timeout"]:
                return r
            stats["timeouts_rerun"] = stats.get("timeouts_rerun", 0) + 1
            return run_case(case, exe, work / ("%s_iso" % case.name), f, env_base=env, timeout=TIMEOUT_ISOLATED)
        results = []
        with concurrent.futures.ThreadPoolExecutor(nworkers) as ex:
            for f, r in ex.map(one, range(len(jobs))):
                results.append((f, r))
        results = [(f, rerun_if_timeout(f, r)) for f, r in results]
        cstat = stats["by_case"].setdefault(case.name, {"faults": len(jobs), "fired": 0, "verdicts": {}})
        model_queries, pending = [], []
        for f, r in results:
            stats["runs"] += 1
            if not r["report"]["fired"] and not r["timeout"]:
                # position beyond what this (failing earlier / shorter) run reaches: cannot happen for single faults
                report("infra:notfired:%s:%s" % (case.name, f["cls"]), "fault %s did not fire in %s" % (f, case.name), {"case": case.name, "fault": f}, found_input=False)
                continue
            stats["fired"] += 1
            cstat["fired"] += 1
            o = observe(case, base, r)
            v = verdict_py(o)
            monitor_lines.append("monitor %d %d %d %d %d %d" % tuple(int(o[k]) for k in ("crashed", "exit0", "diag", "packer", "left", "same")))
            monitor_expect.append(v)
            frames = resolve_bt(exe, r["report"]["bt"])
            site, stepfn = locate(case, frames, r["stdout"])
            pf = project_frames(frames)
            inner = pf[0][0] if pf else "?"
            distinct.add((case.tool, cls_group(f["cls"]), inner, pf[1][0] if len(pf) > 1 else ""))
            tag = v if v != "ok" else ("ok-same" if o["exit0"] else "ok-failed-clean")
            stats["verdicts"][tag] = stats["verdicts"].get(tag, 0) + 1
            cstat["verdicts"][tag] = cstat["verdicts"].get(tag, 0) + 1
            if case.out_kind == "file" and not o["exit0"] and f.get("kind") != "EINTR":
                pw = str(r["report"].get("post", 0))
                stats["post_fault_output_writes"][pw] = stats["post_fault_output_writes"].get(pw, 0) + 1
            if len(samples) < 12 and (v != "ok" or stats["runs"] % 97 == 0):
                samples.append({"case": case.name, "fault": f, "verdict": v, "rc": r["rc"], "site": site, "innermost": inner,
                                "stderr": r["stderr"].strip()[-160:]})
            replay = {"case": case.name, "fault": f, "input_seed": ctx.seed, "scale": scale, "rc": r["rc"], "verdict": v,
                      "backtrace": ["%s@%s" % x for x in pf[:8]], "stderr": r["stderr"][-600:]}
            key = "%s:%s:%s@%s" % (case.tool, cls_group(f["cls"]), v, stepfn)
            pending.append((f, r, o, v, site, stepfn, key, replay))
            if case.model and site is not None and not (o["exit0"] and o["same"]):
                model_queries.append((len(pending) - 1, site))
        # model predictions for the located sites (both variants)
        pred = {}
        if model_queries:
            mt, mf, mn, ms = case.model
            sites = sorted({s for _, s in model_queries})
            lines = []
            for s in sites:
                lines.append("run fix %s %s %d %d %s" % (mt, mf, mn, ms, s))
                lines.append("run cur %s %s %d %d %s" % (mt, mf, mn, ms, s))
            outl = ctx.driver(["c13"], "\n".join(lines) + "\n")
            for j, s in enumerate(sites):
                pred[s] = (outl[2 * j], outl[2 * j + 1])
        qidx = dict(model_queries)
        for idx, (f, r, o, v, site, stepfn, key, replay) in enumerate(pending):
            explained = False
            if o["exit0"] and o["same"]:
                stats["tolerated"] += 1
                if model_ff is not None and real_msgs(r["stdout"]) != model_ff["msgs"]:
                    corr_bad += 1
                    report("corr:msgs:" + key, "exit 0 but progress trace differs from the model's fault-free trace", replay, found_input=False)
            elif idx in qidx:
                stats["model_compared"] += 1
                stats["model_sites"][site.split(":")[0]] = stats["model_sites"].get(site.split(":")[0], 0) + 1
                if pred[site][0] == "bad-op":
                    corr_bad += 1
                    report("corr:site:" + key, "site %s located from the backtrace is not in the model's program for %s" % (site, case.name), replay, found_input=False)
                else:
                    mfix, mcur = parse_model(pred[site][0]), parse_model(pred[site][1])

                    def agrees(m):
                        if (m["status"] == "0") != o["exit0"]:
                            return False
                        if o["exit0"] and (m["damaged"] == "1") != (not o["same"]):
                            return False
                        if (m["out"] == "present") != o["left"] and not o["crashed"]:
                            return False
                        if not site.startswith("sparseTail") and not o["crashed"] and m["msgs"] != real_msgs(r["stdout"]):
                            return False
                        return True
                    if o["crashed"]:
                        pass
                    elif agrees(mfix):
                        explained = True
                    elif agrees(mcur):
                        explained = True          # the modelled (witnessed) defect: reported below through the oracle
                        if v == "ok":
                            corr_bad += 1
                            report("corr:cur:" + key, "real run matches the model of the pinned source but the oracle is silent", replay, found_input=False)
                    else:
                        corr_bad += 1
                        report("corr:" + key, "outcome of a fault at site %s differs from both models: real exit0=%s left=%s same=%s msgs=%s; model(fixed) %s; model(pinned) %s"
                                      % (site, o["exit0"], o["left"], o["same"], real_msgs(r["stdout"]), pred[site][0], pred[site][1]),
                                      dict(replay, model_fixed=pred[site][0], model_pinned=pred[site][1]), found_input=False)
            if v != "ok":
                what = {"crash": "crashes / hangs / sanitizer report", "exit0-different-output": "exits 0 with an output that differs from the fault-free run",
                        "failure-output-left": "fails but leaves its partial output file behind", "failure-no-diagnostic": "fails without any diagnostic on stderr"}[v]
                report(key, "%s %s when the %s call #%d (%s) fails in %s [%s]" % (case.tool, what, f["cls"], f["k"], f.get("kind", "NULL"), stepfn,
                                                                                    " <- ".join(x.split("@")[0] for x in replay["backtrace"][:4])), replay)
    bp_phase(ctx, report, stats, nworkers, env)
    # the Lean specification evaluated on every observation must agree with the Python mirror used above
    if monitor_lines:
        uniq = sorted(set(zip(monitor_lines, monitor_expect)))
        got = ctx.driver(["c13"], "\n".join(l for l, _ in uniq) + "\n")
        for (l, e), g in zip(uniq, got):
            if g != e:
                report("infra:monitor", "Spec.verdict (Lean) = %s but the runner computed %s on %s" % (g, e, l), {"line": l}, found_input=False)
    ctx.cov.update({
        "evaluations": stats["runs"] + stats.get("blockproc", {}).get("runs", 0),
        "distinct_nontrivial": len(distinct),
        "rule": "every single fault position of every class (write/read/trunc/open/lseek/fsync/close × in/out × EIO/EINTR-then-error(/ENOSPC for writes); "
                "malloc/calloc/realloc/strdup by project code) found by a counting run, for gensquashfs (-F and -D), tar2sqfs, sqfs2tar (plain and gzip), "
                "rdsquashfs -u, -c, -x and -d on a generated input (duplicate, fragment, all-zero tails, sparse blocks, hard link, xattrs, export table); "
                "boundary cases b-meta / b-data (/ b-frag in thorough) sized just beyond the flush and growth thresholds read from the sources "
                "(meta block size, array first capacity, block writer list, export table, xattr pair array, inode block list): every output write/truncate, "
                "allocations stratified by call site (all positions of sites with few calls, first/last/spread of mass sites); "
                "gen-many: realloc positions on a 513-inode tree (thorough: all; quick: the last 64 and 100 sampled); non-trivial = distinct (tool, class, innermost two project frames) at which a fault fired",
        "exhaustive": True,
        "samples": samples,
        "disagreements_checked": corr_bad,
        "violation_keys": report.count,
        "histogram": stats,
        "workers": nworkers, "input_scale": scale, "growth_constants": growth,
    })
    return ctx.finish(LEVEL, trusted_extra=[
        "harness/shim_fault.c (link-time syscall wrappers, allocation renames) and tools/checks/c13.py (backtrace → model site table, oracle mirror) are trusted",
        "modelled, not verified: the call order of main/sqfs_writer_init/sqfs_writer_finish and which results are checked; propagation through the glue below a site "
        "is established only by the enumeration (complete per input, not for all inputs)"],
        assumptions=["faults are single (one failing call per run; EINTR kind = EINTR then EIO on the retry)", "third-party libraries' own allocations and the kernel are not faulted"])


def random_for(seed):
    import random
    return random.Random("C13-input/%d" % seed)


def replay(ctx, path):
    body = json.loads(open(path).read())
    rp = body.get("replay", {})
    if "fault" not in rp:
        print("replay file names a broken obligation, no input to replay:", json.dumps(rp)[:500])
        return 1
    if "bp_session" in rp:
        build_tools(ctx)
        env = ctx.san_env()
        lib = ctx.build_lib("fault", ALLOC_DEFS)
        ld = ["-no-pie", "-Wl," + ",".join("--wrap=" + x for x in WRAP_SYMS)]
        exe = ctx.cc("h_c13_bp", ["h_c13_bp.c"], flags=["-fno-pie"], libs=[str(ctx.scratch / "shim_fault.o"), str(lib)] + vlib.CODEC_LIBS + ld)
        out = ctx.scratch / "bp_out"
        res = []
        for fault in (None, rp["fault"]):
            e = dict(env)
            e.update({"VF_OUT": str(out), "VF_REPORT": str(ctx.scratch / "bp_rep")})
            if fault:
                e.update({"VF_CLASS": fault["cls"], "VF_K": str(fault["k"]), "VF_SIDE": "any", "VF_KIND": "EIO"})
            p = subprocess.run([str(exe), str(out)], input=(rp["bp_session"] + "\n").encode(), stdout=subprocess.PIPE, stderr=subprocess.PIPE, env=e, timeout=TIMEOUT_ISOLATED)
            res.append((p.returncode, p.stdout.decode().strip()))
        print("session   :", rp["bp_session"])
        print("fault-free:", res[0])
        print("fault %s:" % rp["fault"], res[1])
        so = res[1][1]
        if res[1][0] != 0 or "fired=" not in so:
            return 1
        rcs = so.split("fired=")[0].split()
        j = int(so.split("fired=")[1].split()[0])
        bad = j >= 0 and "err" not in rcs and so.split("digest=")[1] != res[0][1].split("digest=")[1]
        print("verdict   :", "unreported failure, result differs" if bad else "ok")
        return 1 if bad else 0
    tools = build_tools(ctx)
    env = ctx.san_env()
    cases = gen_cases(ctx, ctx.scratch / "in", random_for(rp.get("input_seed", 0)), tools, scale=rp.get("scale", 1))
    cases += boundary_cases(ctx, ctx.scratch / "in", True)[0]
    case = [c for c in cases if c.name == rp["case"]][0]
    exe = tools[case.tool]
    base = run_case(case, exe, ctx.scratch / "w" / "base", None, env_base=env, timeout=TIMEOUT_ISOLATED)
    r = run_case(case, exe, ctx.scratch / "w" / "r", rp["fault"], env_base=env, timeout=TIMEOUT_ISOLATED)
    o = observe(case, base, r)
    v = verdict_py(o)
    frames = project_frames(resolve_bt(exe, r["report"]["bt"]))
    print("case   :", case.name, case.tool, " ".join(case.argv))
    print("fault  :", rp["fault"], "fired:", r["report"]["fired"])
    print("at     :", " <- ".join("%s@%s" % x for x in frames[:8]))
    print("exit   :", r["rc"], "timeout" if r["timeout"] else "")
    print("output :", r["out"][:16], "(fault-free %s)" % base["out"][:16])
    print("stderr :", r["stderr"].strip()[-400:])
    print("verdict:", v)
    return 0 if v == "ok" else 1
