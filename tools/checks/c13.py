"""
C13 — fail-stop.  Proof: Sqfs/Props/C13.lean about Sqfs/Model/FailStop.lean (the packers' main skeleton with
fallible steps) and Sqfs/Model/FailStopBlockProc.lean (block processor with fallible primitives).
Tie: single-fault enumeration on the real tools built from the working tree (ASan+UBSan, project allocations
renamed to counting wrappers, system calls wrapped at link time — harness/shim_fault.c).  For every fault the
outcome class and the progress trace of the real run are compared with the model's prediction for a fault in the
step the backtrace of the fault lies in.
"""
import concurrent.futures, hashlib, io, json, os, re, shutil, subprocess, tarfile, time
from pathlib import Path
import vlib

LEVEL = "proof"
MODULE = "Sqfs.Props.C13"
REQUIRED = ["Sqfs.C13.status_success_only_at_end", "Sqfs.C13.cleanup_unlinks_unless_success",
            "Sqfs.C13.exit0_output_eq_fault_free", "Sqfs.C13.first_failure_stops",
            "Sqfs.C13.blockproc_error_propagates"]

ALLOC_DEFS = ["-Dmalloc=vf_malloc", "-Dcalloc=vf_calloc", "-Drealloc=vf_realloc", "-Dstrdup=vf_strdup",
              "-Dstrndup=vf_strndup", "-fno-pie"]
WRAP_SYMS = ["write", "pwrite", "pwrite64", "read", "pread", "pread64", "ftruncate", "ftruncate64", "lseek", "lseek64",
             "fsync", "close", "open", "open64", "openat", "openat64"]
SYS_CLASSES = ["write", "read", "trunc", "open", "lseek", "fsync", "close"]
ALLOC_CLASSES = ["malloc", "calloc", "realloc", "strdup"]
KINDS = ["ENOSPC", "EIO", "EINTR"]
TOOLS = ["gensquashfs", "tar2sqfs", "sqfs2tar", "rdsquashfs"]
TIMEOUT = 20


# ------------------------------------------------------------------------------------------------ build
def build_tools(ctx):
    shim = ctx.scratch / "shim_fault.o"
    cmd = ["gcc", "-O1", "-g", "-c", "-DVF_WRAP", "-fno-pie", "-fno-omit-frame-pointer", str(vlib.HARNESS / "shim_fault.c"), "-o", str(shim)]
    r = vlib.sh(cmd)
    if r.returncode != 0:
        raise vlib.CheckFailure("shim_fault.c does not compile: " + r.stderr[-2000:])
    ld = ["-no-pie", "-Wl," + ",".join("--wrap=" + s for s in WRAP_SYMS)]
    return {t: ctx.build_tool(t, tag="fault", flags=ALLOC_DEFS, extra_objs=[str(shim)], ldflags=ld) for t in TOOLS}


# ------------------------------------------------------------------------------------------------ inputs
def det_bytes(seed, n):
    out, h = bytearray(), hashlib.sha256(seed.encode()).digest()
    while len(out) < n:
        out += h
        h = hashlib.sha256(h).digest()
    return bytes(out[:n])


BS = 4096


def file_set(rng, scale=1):
    """(name, bytes) list: a fragment-only file, a duplicate pair of multi-block files, an all-zero tail, sparse
    blocks, a file that is an exact multiple of the block size, an empty file"""
    big = det_bytes("big%d" % rng.randint(0, 9), BS * 2 * scale + 100)
    return [
        ("a.txt", b"hello fail-stop\n" * 3),
        ("big1.bin", big),
        ("dir1/big2.bin", big),                                  # duplicate of big1 (block dedup + fragment dedup)
        ("dir1/frag.txt", b"hello fail-stop\n" * 3),             # duplicate fragment of a.txt
        ("zero_small", b"\0" * 100),                             # sparse tail: backend.c process_completed_fragment
        ("zero_big", b"\0" * (BS * 2 + 17)),                     # sparse blocks + sparse tail (index 2)
        ("exact.bin", det_bytes("exact", BS * scale)),           # no tail → sentinel path
        ("dir2/empty", b""),
        ("dir2/incompr.bin", det_bytes("inc", BS + 1234)),
    ]


def make_tree(d, files):
    d.mkdir(parents=True, exist_ok=True)
    for name, data in files:
        p = d / name
        p.parent.mkdir(parents=True, exist_ok=True)
        p.write_bytes(data)
    os.link(d / "a.txt", d / "dir2" / "hl_a")                     # hard link
    os.symlink("../a.txt", d / "dir1" / "sl")
    for p in sorted(d.rglob("*")):
        os.utime(p, (1000000000, 1000000000), follow_symlinks=False)


def make_packfile(d, files, many=0):
    """pack file + xattr file + sort file for gensquashfs -F"""
    lines, dirs = [], set()
    for name, _ in files:
        parts = name.split("/")[:-1]
        for i in range(len(parts)):
            dirs.add("/".join(parts[:i + 1]))
    for x in sorted(dirs):
        lines.append("dir %s 0755 1000 100" % x)
    for name, _ in files:
        lines.append("file %s 0644 1000 100 %s" % (name, name))
    lines.append("slink dir1/sl 0777 0 0 ../a.txt")
    lines.append("link dir2/hl_a 0 0 0 a.txt")
    lines.append("nod dir2/console 0600 0 5 c 5 1")
    lines.append("pipe dir2/fifo 0600 7 7")
    for i in range(many):
        lines.append("dir m%04d 0755 0 0" % i)
    (d / "pack.txt").write_text("\n".join(lines) + "\n")
    (d / "xattr.txt").write_text("# file: a.txt\nuser.k1=\"v1\"\nuser.k2=0xCAFE\n\n# file: dir1\nuser.k1=\"v1\"\n\n# file: big1.bin\nuser.k1=\"v1\"\nuser.k2=0xCAFE\n")
    (d / "sort.txt").write_text("-10 dir2/incompr.bin\n5 [dont_compress,dont_fragment] exact.bin\n")


def make_tar(path, files):
    with tarfile.open(path, "w", format=tarfile.PAX_FORMAT) as tf:
        seen = set()
        for name, data in files:
            parts = name.split("/")[:-1]
            for i in range(len(parts)):
                dn = "/".join(parts[:i + 1])
                if dn not in seen:
                    seen.add(dn)
                    ti = tarfile.TarInfo(dn)
                    ti.type, ti.mode, ti.mtime = tarfile.DIRTYPE, 0o755, 1000000000
                    tf.addfile(ti)
            ti = tarfile.TarInfo(name)
            ti.size, ti.mode, ti.mtime, ti.uid, ti.gid = len(data), 0o644, 1000000000, 1000, 100
            if name in ("a.txt", "big1.bin"):
                ti.pax_headers = {"SCHILY.xattr.user.k1": "v1"}
            tf.addfile(ti, io.BytesIO(data))
        ti = tarfile.TarInfo("dir1/sl")
        ti.type, ti.linkname, ti.mtime = tarfile.SYMTYPE, "../a.txt", 1000000000
        tf.addfile(ti)
        ti = tarfile.TarInfo("dir2/hl_a")
        ti.type, ti.linkname, ti.mtime = tarfile.LNKTYPE, "a.txt", 1000000000
        tf.addfile(ti)


class Case:
    """one tool invocation whose faults are enumerated"""

    def __init__(self, name, tool, argv, out_kind, out_path, stdin=None, cwd=None, model=None):
        self.name, self.tool, self.argv, self.out_kind, self.out_path = name, tool, argv, out_kind, out_path
        self.stdin, self.cwd, self.model = stdin, cwd, model or {}
        # out_kind: 'file' (packer image), 'stdout' (sqfs2tar / rdsquashfs -c), 'tree' (rdsquashfs -u)


def tree_digest(root):
    """sha256 over the unpacked tree (names, types, sizes, bytes, symlink targets)"""
    h = hashlib.sha256()
    root = Path(root)
    if not root.exists():
        return "absent"
    for p in sorted(root.rglob("*")):
        rel = p.relative_to(root).as_posix()
        st = p.lstat()
        if p.is_symlink():
            h.update(("L %s %s\n" % (rel, os.readlink(p))).encode())
        elif p.is_dir():
            h.update(("D %s\n" % rel).encode())
        elif p.is_file():
            h.update(("F %s %d " % (rel, st.st_size)).encode())
            h.update(hashlib.sha256(p.read_bytes()).digest())
        else:
            h.update(("O %s %o\n" % (rel, st.st_mode)).encode())
    return h.hexdigest()


def run_case(case, exe, workdir, fault=None, timeout=TIMEOUT, env_base=None):
    """run once; returns dict(rc, signal, timeout, stdout_sha/bytes, stderr, out_state, report)"""
    workdir = Path(workdir)
    if workdir.exists():
        shutil.rmtree(workdir)
    workdir.mkdir(parents=True)
    out = workdir / "out"
    argv = [a.replace("@OUT@", str(out)) for a in case.argv]
    env = dict(env_base)
    rep = workdir / "report"
    env["VF_REPORT"] = str(rep)
    if case.out_kind in ("file", "tree"):
        env["VF_OUT"] = str(out)
    else:
        env["VF_OUT_FD1"] = "1"
    if fault:
        env.update({"VF_CLASS": fault["cls"], "VF_K": str(fault["k"]), "VF_SIDE": fault.get("side", "any"),
                    "VF_KIND": fault.get("kind", "EIO")})
    stdin = open(case.stdin, "rb") if case.stdin else subprocess.DEVNULL
    res = {"timeout": False}
    try:
        p = subprocess.run([str(exe)] + argv, stdin=stdin, stdout=subprocess.PIPE, stderr=subprocess.PIPE, env=env,
                           cwd=case.cwd, timeout=timeout)
        res["rc"] = p.returncode
        so, se = p.stdout, p.stderr
    except subprocess.TimeoutExpired as e:
        res["rc"], res["timeout"] = 124, True
        so, se = e.stdout or b"", e.stderr or b""
    finally:
        if case.stdin:
            stdin.close()
    res["stderr"] = se.decode("utf-8", "replace")
    if case.out_kind == "stdout":
        res["out"] = hashlib.sha256(so).hexdigest()
        res["stdout"] = ""
    else:
        res["stdout"] = so.decode("utf-8", "replace")
        if case.out_kind == "file":
            res["out"] = hashlib.sha256(out.read_bytes()).hexdigest() if out.exists() else "absent"
        else:
            res["out"] = tree_digest(out)
    report = {"count": {}, "fired": False, "bt": [], "exit": 0}
    if rep.exists():
        for l in rep.read_text().splitlines():
            w = l.split()
            if w[0] == "count":
                report["count"][(w[1], w[2])] = int(w[3])
            elif w[0] == "fired":
                report["fired"] = w[1] == "1"
                report["fn"] = w[3] if len(w) > 3 else ""
            elif w[0] == "bt":
                report["bt"] = w[1:]
            elif w[0] == "exit":
                report["exit"] = int(w[1])
    res["report"] = report
    shutil.rmtree(workdir, ignore_errors=True)
    return res


_A2L = {}


def resolve_bt(exe, addrs):
    """[(function, file:line)] innermost first, inlined frames expanded; cached per address"""
    need = [a for a in addrs if (str(exe), a) not in _A2L]
    if need:
        # return addresses: subtract 1 so that the call instruction's line is reported
        q = ["0x%x" % (int(a, 16) - 1) for a in need]
        r = vlib.sh(["addr2line", "-f", "-i", "-a", "-e", str(exe)] + q)
        cur, frames = None, {}
        lines = r.stdout.splitlines()
        i = 0
        while i < len(lines):
            if lines[i].startswith("0x"):
                cur = lines[i]
                frames[cur] = []
                i += 1
                continue
            fn, loc = lines[i], lines[i + 1] if i + 1 < len(lines) else "?"
            loc = re.sub(r" \(discriminator \d+\)", "", loc)
            frames[cur].append((fn, "/".join(loc.split("/")[-2:])))
            i += 2
        for a, qa in zip(need, q):
            key = "0x%016x" % int(qa, 16)
            _A2L[(str(exe), a)] = frames.get(key, [("?", "?")])
    out = []
    for a in addrs:
        out.extend(_A2L[(str(exe), a)])
    return out
